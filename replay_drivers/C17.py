"""Replay driver for C17: real pickle / deepcopy round trips."""
import copy
import pickle

import numpy as np


def _lineage_behaviour():
    """lineage models with every kind of lineage part (volume / death / division rules and events, with distinct rate constants), copied
    before and after initialisation; original and copy are then simulated from the same seed and must report the same event counts"""
    import warnings
    from bioscrape.lineage import LineageModel, LineageVolumeSplitter, py_SimulateSingleCell
    from bioscrape.random import py_seed_random
    out = []

    def build(kv, kd, kdiv, rules):
        M = LineageModel(species=["X", "Y"], reactions=[([], ["X"], "massaction", {"k": 5.0}), (["X"], ["Y"], "massaction", {"k": 0.5})],
                         initial_condition_dict={"X": 10, "Y": 2})
        if kv is not None:
            M.create_volume_event("linear volume", {"growth_rate": 0.05}, "massaction", {"k": kv, "species": ""})
        if kd is not None:
            M.create_death_event("death", {}, "massaction", {"k": kd, "species": ""})
        if kdiv is not None:
            M.create_division_event("division", {}, "massaction", {"k": kdiv, "species": ""}, LineageVolumeSplitter(M))
        if rules:
            M.create_volume_rule("linear", {"growth_rate": 0.3})
            M.create_death_rule("species", {"specie": "Y", "threshold": 40, "comp": ">"})
            M.create_division_rule("deltaV", {"threshold": 1.5}, LineageVolumeSplitter(M))
        return M

    def run(M):
        py_seed_random(77)
        np.random.seed(77)
        r = py_SimulateSingleCell(np.arange(0, 6, 0.05), Model=M, return_dataframes=False)
        return (np.array(r.py_get_timepoints()), np.array(r.py_get_result()), np.array(r.py_get_volume()), r.py_get_dead(), r.py_get_divided())
    with warnings.catch_warnings():
        warnings.simplefilter("ignore")
        for cfg in ((40.0, 0.0, None, False), (0.0, 3.0, None, False), (None, 0.0, None, False), (5.0, 0.05, 0.4, False), (2.0, 0.1, 0.3, True), (None, None, None, True)):
            for name, f in (("pickle", lambda m: pickle.loads(pickle.dumps(m))), ("deepcopy", copy.deepcopy)):
                for when in ("before initialisation", "after initialisation", "after initialisation, then initialised again"):
                    try:
                        M = build(*cfg)
                        if when != "before initialisation":
                            M.py_initialize()
                        M2 = f(M)
                        if when.endswith("again"):
                            M.py_initialize()
                            M2.py_initialize()
                        a, b = run(M), run(M2)
                        ca, cb = M.py_get_event_counts(), M2.py_get_event_counts()
                    except Exception as e:
                        out.append("lineage model %s, %s %s: %s: %s" % (cfg, name, when, type(e).__name__, str(e)[:120]))
                        continue
                    if ca != cb:
                        out.append("lineage model (volume event k, death event k, division event k, rules)=%s, %s %s: (division, volume, death) event counts %s, copy %s" % (cfg, name, when, ca, cb))
                    elif any(x.shape != y.shape or not np.allclose(x, y) for x, y in zip(a[:3], b[:3])) or a[3:] != b[3:]:
                        out.append("lineage model %s, %s %s: the same seed gives another single-cell trajectory for the copy (ends t=%s dead=%s divided=%s / t=%s dead=%s divided=%s)"
                                   % (cfg, name, when, a[0][-1], a[3], a[4], b[0][-1], b[3], b[4]))
                    if out:
                        return out
    return out


def replay(spec):
    import warnings
    warnings.simplefilter("ignore")
    from bioscrape.types import Model
    from bioscrape.simulator import py_simulate_model
    from bioscrape.random import py_seed_random
    problems = []
    if spec.get("kind") == "Schnitz":
        # a cell record copied on its own keeps its data and its links to mother and daughters (as copies)
        from bioscrape.types import Schnitz
        mk = lambda base: Schnitz(np.array([base, base + 1.0]), np.array([[base, 2.0], [base + 1, 3.0]]), np.array([1.0, 2.0]))
        gm, m, d1, d2 = mk(0.0), mk(10.0), mk(20.0), mk(30.0)
        m.py_set_parent(gm)
        gm.py_set_daughters(m, None)
        m.py_set_daughters(d1, d2)
        d1.py_set_parent(m)
        d2.py_set_parent(m)
        for name, f in (("pickle", lambda x: pickle.loads(pickle.dumps(x))), ("deepcopy", copy.deepcopy)):
            lone2, lone1, kid = mk(40.0), mk(50.0), mk(60.0)
            lone2.py_set_daughters(None, kid)           # tracking data: the sister in slot 1 was lost
            lone1.py_set_daughters(kid, None)
            for label, obj in (("a mid-tree cell", m), ("a leaf cell", d1), ("a cell with a daughter in the second slot only", lone2), ("a cell with a daughter in the first slot only", lone1)):
                try:
                    new = f(obj)
                except Exception as e:
                    problems.append("%s of %s fails: %s: %s" % (name, label, type(e).__name__, e))
                    continue
                par = new.py_get_parent()
                want_par = obj.py_get_parent()
                if (par is None) != (want_par is None) or (par is not None and not np.array_equal(par.py_get_time(), want_par.py_get_time())):
                    problems.append("%s of %s: the copy's mother is %s, the original's record starts at t=%s" %
                                    (name, label, "missing" if par is None else "another record", want_par.py_get_time()[0]))
                a, b = new.py_get_daughters(), obj.py_get_daughters()
                for x, y in zip(a, b):
                    if (x is None) != (y is None) or (x is not None and not np.array_equal(x.py_get_data(), y.py_get_data())):
                        problems.append("%s of %s: daughters differ" % (name, label))
                if not np.array_equal(new.py_get_data(), obj.py_get_data()):
                    problems.append("%s of %s: data differ" % (name, label))
        return {"reproduced": bool(problems), "observed": problems[:3], "expected": "an equal record with its links"}
    if spec.get("kind") in ("LineageVolumeCellState", "VolumeCellState"):
        # cell states over a grid of values that includes zeros and negative birth times
        import itertools
        from bioscrape.simulator import VolumeCellState
        from bioscrape.lineage import LineageVolumeCellState
        for t0, tt, v0, vol in itertools.product((-5.0, 0.0, 2.0), (0.0, 1.5), (1.0, 0.5), (2.0, 1.0)):
            if spec["kind"] == "LineageVolumeCellState":
                cs = LineageVolumeCellState(v0=v0, t0=t0, state=np.array([1.0, 0.0, 3.0]), volume=vol, time=tt, divided=2, dead=-1)
                cs.py_set_time(tt)          # as a simulation leaves it: current time and volume set through the setters
                cs.py_set_volume(vol)
                # the divided / dead flags (here: divided by rule 2, not dead) have no getters: they are read from the state tuple
                get = lambda o: (o.py_get_time(), o.py_get_volume(), o.py_get_initial_time(), o.py_get_initial_volume(), list(o.py_get_state()),
                                 tuple(x for x in o.__getstate__() if isinstance(x, (int, np.integer)) and not isinstance(x, bool)))
            else:
                cs = VolumeCellState(time=tt, state=np.array([1.0, 0.0, 3.0]), volume=vol)
                get = lambda o: (o.py_get_time(), o.py_get_volume(), list(o.py_get_state()))
            for name, f in (("pickle", lambda m: pickle.loads(pickle.dumps(m))), ("deepcopy", copy.deepcopy)):
                try:
                    new = f(cs)
                    if get(new) != get(cs):
                        problems.append("%s of a %s (time, volume, birth time, birth volume, state) = %s comes back as %s" % (name, spec["kind"], get(cs), get(new)))
                except Exception as e:
                    problems.append("%s of a %s fails: %s: %s" % (name, spec["kind"], type(e).__name__, e))
            if problems:
                break
        return {"reproduced": bool(problems), "observed": problems[:2], "expected": "an equal cell state"}
    args = dict(species=["A", "B", "C"],
                reactions=[(["A", "A"], ["B"], "massaction", {"k": "k1"}),
                           (["B"], [], "hillpositive", {"k": 1.0, "K": 2.0, "n": 2, "s1": "A"}, "gamma", [], ["C"], {"k": 3.0, "theta": "th"}),
                           (["A", "B", "C"], ["C"], "general", {"rate": "k1*A*max(B, 2)/(1 + C^2)"})],
                parameters=[("k1", 0.3), ("th", 0.5)],
                rules=[("assignment", {"equation": "C = A + k1*B"}, "repeated"), ("additive", {"equation": "C = A + B"}, "dt")],
                initial_condition_dict={"A": 30, "B": 4})
    which = spec.get("which", "plain")
    if which == "lineage":
        from bioscrape.lineage import LineageModel as Cls
    else:
        Cls = Model
    if spec.get("edited"):
        # the same definition reached in two stages around an initialisation
        a1 = dict(args, reactions=args["reactions"][:1], rules=args["rules"][:1])
        M = Cls(**a1)
        M.py_initialize()
        for rx in args["reactions"][1:]:
            M.create_reaction(*rx)
        for ru in args["rules"][1:]:
            M.create_rule(*ru)
        M.py_initialize()
    else:
        M = Cls(**args)
    if which == "lineage":
        problems += _lineage_behaviour()
        if problems:
            return {"reproduced": True, "observed": problems[:3], "expected": "copy behaves like the original"}
    tp = np.arange(0, 3, 0.5)
    # a model copied while it is NOT initialised since its last edit (the usual state right after create_reaction / create_rule calls)
    for name, f in (("pickle", lambda m: pickle.loads(pickle.dumps(m))), ("deepcopy", copy.deepcopy)):
        try:
            Mu = Cls(**dict(args, reactions=args["reactions"][:1], rules=args["rules"][:1]))
            for rx in args["reactions"][1:]:
                Mu.create_reaction(*rx)
            Mu.create_rule(*args["rules"][1])
            Mc = f(Mu)                      # copied before any initialisation has seen the later reactions
            for m_ in (Mu, Mc):
                m_.py_initialize()
            if Mc.py_get_update_array().shape != Mu.py_get_update_array().shape or not np.array_equal(Mc.py_get_update_array(), Mu.py_get_update_array()) \
                    or not np.array_equal(Mc.py_get_delay_update_array(), Mu.py_get_delay_update_array()):
                problems.append("%s of a model edited after its last initialisation: the copy has stoichiometry of shape %s, the original %s"
                                % (name, Mc.py_get_update_array().shape, Mu.py_get_update_array().shape))
            elif Mc.get_rules() != Mu.get_rules() or Mc.get_parameter_dictionary() != Mu.get_parameter_dictionary():
                problems.append("%s of a model edited after its last initialisation: rules / parameters differ" % name)
            elif which != "lineage":
                o = [py_simulate_model(tp, Model=m_).to_numpy() for m_ in (Mu, Mc)]
                if o[0].shape != o[1].shape or not np.allclose(o[0], o[1]):
                    problems.append("%s of a model edited after its last initialisation: the deterministic simulations differ" % name)
        except Exception as e:
            problems.append("%s of a model edited after its last initialisation fails: %s: %s" % (name, type(e).__name__, str(e)[:120]))
    if problems:
        return {"reproduced": True, "observed": problems[:3], "expected": "copy behaves like the original"}
    for name, f in (("pickle", lambda m: pickle.loads(pickle.dumps(m))), ("deepcopy", copy.deepcopy)):
        try:
            M2 = f(M)
        except Exception as e:
            problems.append("%s fails: %s: %s" % (name, type(e).__name__, e))
            continue
        if M2.get_species_dictionary() != M.get_species_dictionary() or M2.get_parameter_dictionary() != M.get_parameter_dictionary():
            problems.append("%s: species/parameters differ" % name)
        if not (np.array_equal(M2.py_get_update_array(), M.py_get_update_array()) and np.array_equal(M2.py_get_delay_update_array(), M.py_get_delay_update_array())):
            problems.append("%s: stoichiometry differs" % name)
        if M2.get_rules() != M.get_rules():
            problems.append("%s: rules differ" % name)
        if which != "lineage":
            outs = []
            for m in (M, M2):
                py_seed_random(11)
                outs.append(py_simulate_model(tp, Model=m, stochastic=True).to_numpy())
            if outs[0].shape != outs[1].shape or not np.allclose(outs[0], outs[1]):
                problems.append("%s: seeded simulation of the copy differs" % name)
        # the copy is a full model: the same further edit on a fresh original and on the copy gives the same model
        Mo, Mc = Cls(**args), f(Cls(**args))
        for m in (Mo, Mc):
            m.create_reaction(["C"], [], "massaction", {"k": 0.125})
            m.set_parameter("brand_new", 7.0)
            m.create_reaction(["A"], ["C"], "massaction", {"k": "brand_new"})
        if Mo.get_parameter_dictionary() != Mc.get_parameter_dictionary():
            d1, d2 = Mo.get_parameter_dictionary(), Mc.get_parameter_dictionary()
            problems.append("%s: after the same edit the parameters differ: %s" % (name, {k: (d1.get(k), d2.get(k)) for k in set(d1) | set(d2) if d1.get(k) != d2.get(k)}))
        elif which != "lineage":
            o = [py_simulate_model(tp, Model=m).to_numpy() for m in (Mo, Mc)]
            if o[0].shape != o[1].shape or not np.allclose(o[0], o[1]):
                problems.append("%s: after the same edit the deterministic simulations differ" % name)
        M2.set_species({"A": 1})
        if M.get_species_dictionary()["A"] != 30:
            problems.append("%s: editing the copy changed the original" % name)
    return {"reproduced": bool(problems), "observed": problems[:3], "expected": "copy behaves like the original"}
