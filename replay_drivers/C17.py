"""Replay driver for C17: real pickle / deepcopy round trips."""
import copy
import pickle

import numpy as np


def replay(spec):
    import warnings
    warnings.simplefilter("ignore")
    from bioscrape.types import Model
    from bioscrape.simulator import py_simulate_model
    from bioscrape.random import py_seed_random
    problems = []
    if spec.get("kind") == "Schnitz":
        # a cell record copied on its own keeps its data and its links to mother and daughters (as copies)
        from bioscrape.types import Schnitz
        mk = lambda base: Schnitz(np.array([base, base + 1.0]), np.array([[base, 2.0], [base + 1, 3.0]]), np.array([1.0, 2.0]))
        gm, m, d1, d2 = mk(0.0), mk(10.0), mk(20.0), mk(30.0)
        m.py_set_parent(gm)
        gm.py_set_daughters(m, None)
        m.py_set_daughters(d1, d2)
        d1.py_set_parent(m)
        d2.py_set_parent(m)
        for name, f in (("pickle", lambda x: pickle.loads(pickle.dumps(x))), ("deepcopy", copy.deepcopy)):
            for label, obj in (("a mid-tree cell", m), ("a leaf cell", d1)):
                try:
                    new = f(obj)
                except Exception as e:
                    problems.append("%s of %s fails: %s: %s" % (name, label, type(e).__name__, e))
                    continue
                par = new.py_get_parent()
                want_par = obj.py_get_parent()
                if (par is None) != (want_par is None) or (par is not None and not np.array_equal(par.py_get_time(), want_par.py_get_time())):
                    problems.append("%s of %s: the copy's mother is %s, the original's record starts at t=%s" %
                                    (name, label, "missing" if par is None else "another record", want_par.py_get_time()[0]))
                a, b = new.py_get_daughters(), obj.py_get_daughters()
                for x, y in zip(a, b):
                    if (x is None) != (y is None) or (x is not None and not np.array_equal(x.py_get_data(), y.py_get_data())):
                        problems.append("%s of %s: daughters differ" % (name, label))
                if not np.array_equal(new.py_get_data(), obj.py_get_data()):
                    problems.append("%s of %s: data differ" % (name, label))
        return {"reproduced": bool(problems), "observed": problems[:3], "expected": "an equal record with its links"}
    if spec.get("kind") in ("LineageVolumeCellState", "VolumeCellState"):
        # cell states over a grid of values that includes zeros and negative birth times
        import itertools
        from bioscrape.simulator import VolumeCellState
        from bioscrape.lineage import LineageVolumeCellState
        for t0, tt, v0, vol in itertools.product((-5.0, 0.0, 2.0), (0.0, 1.5), (1.0, 0.5), (2.0, 1.0)):
            if spec["kind"] == "LineageVolumeCellState":
                cs = LineageVolumeCellState(v0=v0, t0=t0, state=np.array([1.0, 0.0, 3.0]), volume=vol, time=tt, divided=2, dead=-1)
                cs.py_set_time(tt)          # as a simulation leaves it: current time and volume set through the setters
                cs.py_set_volume(vol)
                get = lambda o: (o.py_get_time(), o.py_get_volume(), o.py_get_initial_time(), o.py_get_initial_volume(), list(o.py_get_state()))
            else:
                cs = VolumeCellState(time=tt, state=np.array([1.0, 0.0, 3.0]), volume=vol)
                get = lambda o: (o.py_get_time(), o.py_get_volume(), list(o.py_get_state()))
            for name, f in (("pickle", lambda m: pickle.loads(pickle.dumps(m))), ("deepcopy", copy.deepcopy)):
                try:
                    new = f(cs)
                    if get(new) != get(cs):
                        problems.append("%s of a %s (time, volume, birth time, birth volume, state) = %s comes back as %s" % (name, spec["kind"], get(cs), get(new)))
                except Exception as e:
                    problems.append("%s of a %s fails: %s: %s" % (name, spec["kind"], type(e).__name__, e))
            if problems:
                break
        return {"reproduced": bool(problems), "observed": problems[:2], "expected": "an equal cell state"}
    args = dict(species=["A", "B", "C"],
                reactions=[(["A", "A"], ["B"], "massaction", {"k": "k1"}),
                           (["B"], [], "hillpositive", {"k": 1.0, "K": 2.0, "n": 2, "s1": "A"}, "gamma", [], ["C"], {"k": 3.0, "theta": "th"}),
                           (["A", "B", "C"], ["C"], "general", {"rate": "k1*A*max(B, 2)/(1 + C^2)"})],
                parameters=[("k1", 0.3), ("th", 0.5)],
                rules=[("assignment", {"equation": "C = A + k1*B"}, "repeated"), ("additive", {"equation": "C = A + B"}, "dt")],
                initial_condition_dict={"A": 30, "B": 4})
    which = spec.get("which", "plain")
    if which == "lineage":
        from bioscrape.lineage import LineageModel as Cls
    else:
        Cls = Model
    if spec.get("edited"):
        # the same definition reached in two stages around an initialisation
        a1 = dict(args, reactions=args["reactions"][:1], rules=args["rules"][:1])
        M = Cls(**a1)
        M.py_initialize()
        for rx in args["reactions"][1:]:
            M.create_reaction(*rx)
        for ru in args["rules"][1:]:
            M.create_rule(*ru)
        M.py_initialize()
    else:
        M = Cls(**args)
    tp = np.arange(0, 3, 0.5)
    for name, f in (("pickle", lambda m: pickle.loads(pickle.dumps(m))), ("deepcopy", copy.deepcopy)):
        try:
            M2 = f(M)
        except Exception as e:
            problems.append("%s fails: %s: %s" % (name, type(e).__name__, e))
            continue
        if M2.get_species_dictionary() != M.get_species_dictionary() or M2.get_parameter_dictionary() != M.get_parameter_dictionary():
            problems.append("%s: species/parameters differ" % name)
        if not (np.array_equal(M2.py_get_update_array(), M.py_get_update_array()) and np.array_equal(M2.py_get_delay_update_array(), M.py_get_delay_update_array())):
            problems.append("%s: stoichiometry differs" % name)
        if M2.get_rules() != M.get_rules():
            problems.append("%s: rules differ" % name)
        if which != "lineage":
            outs = []
            for m in (M, M2):
                py_seed_random(11)
                outs.append(py_simulate_model(tp, Model=m, stochastic=True).to_numpy())
            if outs[0].shape != outs[1].shape or not np.allclose(outs[0], outs[1]):
                problems.append("%s: seeded simulation of the copy differs" % name)
        # the copy is a full model: the same further edit on a fresh original and on the copy gives the same model
        Mo, Mc = Cls(**args), f(Cls(**args))
        for m in (Mo, Mc):
            m.create_reaction(["C"], [], "massaction", {"k": 0.125})
            m.set_parameter("brand_new", 7.0)
            m.create_reaction(["A"], ["C"], "massaction", {"k": "brand_new"})
        if Mo.get_parameter_dictionary() != Mc.get_parameter_dictionary():
            d1, d2 = Mo.get_parameter_dictionary(), Mc.get_parameter_dictionary()
            problems.append("%s: after the same edit the parameters differ: %s" % (name, {k: (d1.get(k), d2.get(k)) for k in set(d1) | set(d2) if d1.get(k) != d2.get(k)}))
        elif which != "lineage":
            o = [py_simulate_model(tp, Model=m).to_numpy() for m in (Mo, Mc)]
            if o[0].shape != o[1].shape or not np.allclose(o[0], o[1]):
                problems.append("%s: after the same edit the deterministic simulations differ" % name)
        M2.set_species({"A": 1})
        if M.get_species_dictionary()["A"] != 30:
            problems.append("%s: editing the copy changed the original" % name)
    return {"reproduced": bool(problems), "observed": problems[:3], "expected": "copy behaves like the original"}
