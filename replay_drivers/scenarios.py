"""Encoder validation scenarios: the same concrete program is run (a) on the real build and (b) inside the pyxsym
interpreter over /repo's source (concrete mode, Python floats), and the two outputs are compared.  A scenario takes
`api(module, name)` - which resolves a public name either by a real import or from the interpreted module - and
returns plain nested lists of numbers.  This file must not import z3 / pyxsym (it also runs under /venv/bin/python).
"""
import numpy as np


def _f(x):
    return np.asarray(x, dtype=float).tolist()


def _model(api, kind="plain"):
    Model = api("bioscrape.types", "Model")
    if kind == "plain":
        return Model(species=["A", "B"],
                     reactions=[([], ["A"], "massaction", {"k": 4.0}), (["A"], ["B"], "massaction", {"k": 1.0}),
                                (["A", "B"], [], "massaction", {"k": 0.1}), (["A", "A"], ["B"], "massaction", {"k": 0.05})],
                     initial_condition_dict={"A": 2, "B": 0})
    if kind == "zoo":
        return Model(species=["A", "B", "C"],
                     reactions=[(["A", "A", "B"], ["C"], "massaction", {"k": "k1"}),
                                (["B"], ["A"], "hillpositive", {"k": 2.0, "K": 3.0, "n": 2, "s1": "C"}),
                                ([], ["C"], "hillnegative", {"k": 5.0, "K": 2.0, "n": 1, "s1": "A"}),
                                (["C"], [], "proportionalhillpositive", {"k": 0.5, "K": 4.0, "n": 2, "s1": "A", "d": "C"}),
                                (["C"], ["B"], "proportionalhillnegative", {"k": 0.7, "K": 4.0, "n": 3, "s1": "B", "d": "C"}),
                                (["A"], ["B"], "general", {"rate": "k1*A*B/(1 + C^2) + 0.25*t"})],
                     parameters=[("k1", 0.3)], initial_condition_dict={"A": 7, "B": 5, "C": 3})
    if kind == "delay":
        return Model(species=["A", "B"],
                     reactions=[([], ["A"], "massaction", {"k": 3.0}, "fixed", [], ["B"], {"delay": 0.7}),
                                (["A"], [], "massaction", {"k": 1.0}),
                                (["B"], [], "massaction", {"k": 0.5}, "fixed", [], ["A"], {"delay": 0.25})],
                     initial_condition_dict={"A": 4, "B": 2})
    if kind == "rules":
        return Model(species=["A", "B", "C"],
                     reactions=[([], ["A"], "massaction", {"k": 3.0}), (["A"], [], "massaction", {"k": 0.5})],
                     parameters=[("q", 2.0)],
                     rules=[("assignment", {"equation": "B = 2*A + q"}, "repeated"), ("additive", {"equation": "C = A + B"}, "repeated"),
                            ("assignment", {"equation": "q = q + 1"}, "dt")],
                     initial_condition_dict={"A": 1, "B": 0, "C": 0})
    raise KeyError(kind)


def _itf(api, M, safe=False, dt=None):
    cls = api("bioscrape.simulator", "SafeModelCSimInterface" if safe else "ModelCSimInterface")
    itf = cls(M)
    itf.py_set_initial_time(0.0)
    if dt is not None:
        itf.py_set_dt(dt)
    return itf


def ssa(api):
    out = []
    seed = api("bioscrape.random", "py_seed_random")
    Sim = api("bioscrape.simulator", "SSASimulator")
    for kind, safe, s in (("plain", False, 7), ("plain", True, 8), ("zoo", False, 9), ("rules", False, 10)):
        M = _model(api, kind)
        itf = _itf(api, M, safe, dt=0.5)
        seed(s)
        res = Sim().py_simulate(itf, np.linspace(0, 2, 5))
        out.append(_f(res.py_get_result()))
    return out


def delay_ssa(api):
    out = []
    seed = api("bioscrape.random", "py_seed_random")
    Sim = api("bioscrape.simulator", "DelaySSASimulator")
    Q = api("bioscrape.simulator", "ArrayDelayQueue")
    for safe, s in ((False, 3), (True, 4)):
        M = _model(api, "delay")
        itf = _itf(api, M, safe, dt=0.25)
        q = Q.setup_queue(3, 40, 0.25)
        seed(s)
        res = Sim().py_delay_simulate(itf, q, np.linspace(0, 2, 9))
        out.append(_f(res.py_get_result()))
    return out


def volume_ssa(api):
    out = []
    seed = api("bioscrape.random", "py_seed_random")
    Sim = api("bioscrape.simulator", "VolumeSSASimulator")
    for safe, growing, s in ((False, False, 5), (True, True, 6), (False, True, 7)):
        M = _model(api, "plain")
        itf = _itf(api, M, safe, dt=0.25)
        if growing:
            v = api("bioscrape.types", "StochasticTimeThresholdVolume")(2.0, 2.0, 0.0)
            v.py_initialize(np.zeros(1), np.zeros(1), 0.0, 1.0)
        else:
            v = api("bioscrape.types", "Volume")()
            v.py_set_volume(1.5)
        seed(s)
        res = Sim().py_volume_simulate(itf, v, np.linspace(0, 2, 9))
        out.append([_f(res.py_get_result()), _f(res.py_get_volume())])
    return out


def delay_volume_ssa(api):
    out = []
    seed = api("bioscrape.random", "py_seed_random")
    Sim = api("bioscrape.simulator", "DelayVolumeSSASimulator")
    Q = api("bioscrape.simulator", "ArrayDelayQueue")
    for growing, s in ((False, 11), (True, 12)):
        M = _model(api, "delay")
        itf = _itf(api, M, False, dt=0.25)
        q = Q.setup_queue(3, 40, 0.25)
        if growing:
            v = api("bioscrape.types", "StochasticTimeThresholdVolume")(2.0, 2.0, 0.0)
            v.py_initialize(np.zeros(1), np.zeros(1), 0.0, 1.0)
        else:
            v = api("bioscrape.types", "Volume")()
            v.py_set_volume(1.5)
        seed(s)
        res = Sim().py_delay_volume_simulate(itf, q, v, np.linspace(0, 2, 9))
        out.append([_f(res.py_get_result()), _f(res.py_get_volume())])
    return out


def derivative(api):
    out = []
    for kind in ("plain", "zoo", "delay", "rules"):
        for safe in (False, True):
            M = _model(api, kind)
            itf = _itf(api, M, safe)
            itf.py_prep_deterministic_simulation()
            n = len(M.get_species_list())
            x = np.array([2.5, 1.5, 3.25][:n])
            dx = np.zeros(n)
            itf.py_calculate_deterministic_derivative(x, dx, 0.5)
            out.append(_f(dx))
            out.append(_f(M.py_get_update_array()))
            out.append(_f(M.py_get_delay_update_array()))
    return out


def rng(api):
    seed = api("bioscrape.random", "py_seed_random")
    out = []
    seed(2024)
    out.append([api("bioscrape.random", "py_uniform_rv")() for _ in range(5)])
    out.append([api("bioscrape.random", "py_normal_rv")(1.0, 2.0) for _ in range(4)])
    out.append([api("bioscrape.random", "py_exponential_rv")(3.0) for _ in range(4)])
    out.append([float(api("bioscrape.random", "py_binom_rnd")(7, 0.3)) for _ in range(4)])
    out.append([api("bioscrape.random", "py_gamma_rv")(2.5, 1.5) for _ in range(3)])
    out.append([api("bioscrape.random", "py_erlang_rv")(3, 0.5) for _ in range(3)])
    return out


def queue(api):
    Q = api("bioscrape.simulator", "ArrayDelayQueue")
    q = Q.setup_queue(2, 4, 0.5)
    out = []
    q.py_add_reaction(0.7, 0, 2.0)
    q.py_add_reaction(1.2, 1, 1.0)
    q.py_add_reaction(9.0, 1, 3.0)
    for _ in range(5):
        a = np.zeros(2)
        q.py_get_next_reactions(a)
        out.append([q.py_get_next_queue_time(), _f(a)])
        q.py_advance_time()
    seed = api("bioscrape.random", "py_seed_random")
    q.py_add_reaction(3.2, 0, 5.0)
    q.py_add_reaction(3.9, 1, 4.0)
    seed(5)
    parts = q.py_binomial_partition(0.4)
    for h in list(parts) + [q.py_copy()]:
        for _ in range(4):
            a = np.zeros(2)
            h.py_get_next_reactions(a)
            out.append([h.py_get_next_queue_time(), _f(a)])
            h.py_advance_time()
    return out


def expressions(api):
    M = api("bioscrape.types", "Model")(species=["A", "B"], parameters=[("k", 1.5), ("n", 2.0)],
                                         reactions=[(["A"], ["B"], "general", {"rate": r}) for r in
                                                    ("k*A^n/(1 + B)", "exp(-A)*log(B + 1) + abs(A - B)", "max(A, B)*min(k, 2) + Heaviside(A - 1)",
                                                     "(A + B)^2 - k*t + volume", "A/(B + k) - 3e-2*A*B")],
                                         initial_condition_dict={"A": 2.5, "B": 1.25})
    itf = _itf(api, M)
    itf.py_prep_deterministic_simulation()
    dx = np.zeros(2)
    out = []
    for x in ([2.5, 1.25], [0.5, 4.0], [3.0, 3.0]):
        itf.py_calculate_deterministic_derivative(np.array(x), dx, 0.75)
        out.append(_f(dx))
    return out


def lineage_cell(api):
    seed = api("bioscrape.random", "py_seed_random")
    LM = api("bioscrape.lineage", "LineageModel")
    out = []
    for s in (1, 2):
        M = LM(species=["A", "B"], reactions=[([], ["A"], "massaction", {"k": 5.0}), (["A"], [], "massaction", {"k": 1.0})],
               initial_condition_dict={"A": 6, "B": 4})
        M.create_volume_rule("ode", {"equation": "volume*0.6931"})
        M.py_initialize()
        sim = api("bioscrape.lineage", "LineageSSASimulator")()
        seed(s)
        res = sim.py_SimulateSingleCell(np.arange(0, 3, 0.5), Model=M)
        out.append([_f(res.py_get_result()), _f(res.py_get_volume())])
    return out


def dispatch(api):
    """py_simulate_model over its option lattice (data frames reduced to arrays)"""
    sim = api("bioscrape.simulator", "py_simulate_model")
    seed = api("bioscrape.random", "py_seed_random")
    out = []
    tp = np.linspace(0, 2, 5)
    for kw in (dict(), dict(stochastic=True), dict(stochastic=True, safe=True), dict(stochastic=True, volume=2.0),
               dict(stochastic=True, delay=True), dict(stochastic=True, delay=True, volume=True), dict(stochastic=True, delay=True, safe=True)):
        M = _model(api, "delay" if kw.get("delay") else "plain")
        seed(31)
        r = sim(tp, Model=M, return_dataframe=False, **kw)
        out.append(_f(r.py_get_result()))
    return out


def copies(api):
    """state protocol: __getstate__ of a model, of its restored copy, and a simulation of the copy"""
    M = _model(api, "zoo")
    M2 = api("bioscrape.types", "Model")()
    M2.__setstate__(M.__getstate__())
    out = [_f(M2.get_params_values() if hasattr(M2, "get_params_values") else M2.get_parameter_values()), _f(M2.get_species_array()),
           _f(M2.py_get_update_array())]
    itf = _itf(api, M2)
    itf.py_prep_deterministic_simulation()
    dx = np.zeros(3)
    itf.py_calculate_deterministic_derivative(np.array([2.5, 1.5, 3.25]), dx, 0.5)
    out.append(_f(dx))
    return out


def splitters(api):
    seed = api("bioscrape.random", "py_seed_random")
    Model = api("bioscrape.types", "Model")
    M = Model(species=["S0", "S1", "S2"], initial_condition_dict={"S0": 0, "S1": 0, "S2": 0})
    out = []
    VCS = api("bioscrape.simulator", "VolumeCellState")
    for s in (1, 2, 3):
        sp = api("bioscrape.simulator", "GeneralVolumeSplitter")()
        sp.py_set_partitioning({"perfect": ["S1"], "duplicate": ["S2"]}, M)
        sp.py_set_partition_noise(0.2)
        parent = VCS(time=1.0, state=np.array([9.0, 6.0, 4.0]), volume=2.0)
        seed(s)
        d, e = sp.py_partition(parent)
        out.append([_f(d.py_get_state()), _f(e.py_get_state()), d.py_get_volume(), e.py_get_volume()])
        sp2 = api("bioscrape.simulator", "PerfectBinomialVolumeSplitter")()
        seed(s)
        d, e = sp2.py_partition(parent)
        out.append([_f(d.py_get_state()), _f(e.py_get_state()), d.py_get_volume(), e.py_get_volume()])
    return out


def sensitivity(api):
    out = []
    J = api("bioscrape.analysis", "py_get_jacobian")
    Z = api("bioscrape.analysis", "py_get_sensitivity_to_parameter")
    for method in ("fourth_order_central_difference", "central_difference", "forward_difference", "backward_difference"):
        M = _model(api, "zoo")
        out.append(_f(J(M, [2.5, 1.5, 3.25], method=method)))
        out.append(_f(Z(M, [2.5, 1.5, 3.25], "k1", method=method)))
        out.append(_f(M.get_parameter_values()))
    return out


def sbml(api):
    import os
    import tempfile
    out = []
    imp = api("bioscrape.sbmlutil", "import_sbml")
    for kind in ("plain", "zoo", "delay", "rules"):
        M = _model(api, kind)
        fd, path = tempfile.mkstemp(suffix=".xml")
        os.close(fd)
        try:
            M.write_sbml_model(path)
            M2 = imp(path)
            import re
            import zlib
            text = re.sub(r"bioscrape_generated_model_\d+", "bioscrape_generated_model_N", open(path).read())
        finally:
            os.unlink(path)
        itf = _itf(api, M2)
        itf.py_prep_deterministic_simulation()
        n = len(M2.get_species_list())
        idx = M2.get_species2index()
        x = np.zeros(n)
        for i, sp in enumerate(sorted(idx)):
            x[idx[sp]] = 1.5 + i
        dx = np.zeros(n)
        itf.py_calculate_deterministic_derivative(x, dx, 0.5)
        out.append([float(dx[idx[sp]]) for sp in sorted(idx)])
        out.append([float(len(text)), float(zlib.crc32(text.encode()))])
    return out


def inference(api):
    import pandas as pd
    IS = api("bioscrape.inference_setup", "InferenceSetup")
    Model = api("bioscrape.types", "Model")
    M = Model(species=["X", "Y", "Z"], reactions=[(["X"], ["Y"], "massaction", {"k": "k1"}), (["Y"], ["Z"], "massaction", {"k": "k2"})],
              parameters=[("k1", 0.7), ("k2", 0.3)], initial_condition_dict={"X": 10, "Y": 0, "Z": 0})
    frames = []
    for n in range(2):
        t = np.linspace(0, 1 + n, 4)
        frames.append(pd.DataFrame({"junk": 9.0 + np.arange(4), "Y": 1.0 + n + 0.5 * np.arange(4), "time": t, "X": 8.0 - np.arange(4)}))
    out = []
    for prior in ({"k1": ["uniform", 0, 10]}, {"k1": ["gaussian", 1.0, 2.0, "positive"]}, {"k1": ["log-uniform", 0.01, 100]}):
        st = IS(Model=M, exp_data=frames, measurements=["Y", "X"], time_column="time", params_to_estimate=["k1"], prior=prior,
                initial_conditions=[{"X": 10.0}, {"X": 12.0, "Z": 1.0}], norm_order=2, sim_type="deterministic")
        out.append([float(st.cost_function([1.3])), float(st.cost_function([0.4]))])
    return out


SCENARIOS = dict(sensitivity=sensitivity, sbml=sbml, inference=inference, ssa=ssa, delay_ssa=delay_ssa, volume_ssa=volume_ssa, delay_volume_ssa=delay_volume_ssa, derivative=derivative,
                 rng=rng, queue=queue, expressions=expressions, lineage_cell=lineage_cell, dispatch=dispatch, copies=copies,
                 splitters=splitters)


def real_api(module, name):
    mod = __import__(module, fromlist=["x"])
    return getattr(mod, name)


def replay(spec):
    """entry point for the child process on the real build: {"scenarios": [...]} -> {"outputs": {...}}"""
    import warnings
    warnings.simplefilter("ignore")
    outs = {}
    for nm in spec["scenarios"]:
        try:
            outs[nm] = SCENARIOS[nm](real_api)
        except Exception as e:
            outs[nm] = {"error": "%s: %s" % (type(e).__name__, e)}
    return {"reproduced": False, "outputs": outs}
