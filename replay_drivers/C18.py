"""Replay driver for C18: real py_get_jacobian / py_get_sensitivity_to_parameter on a mass-action model whose
rate equations are polynomials, against hand-differentiated derivatives (+ the scheme's leading error term)."""
import numpy as np


def replay(spec):
    import warnings
    warnings.simplefilter("ignore")
    from bioscrape.types import Model
    from bioscrape.analysis import py_get_jacobian, py_get_sensitivity_to_parameter
    method = spec.get("method", "fourth_order_central_difference")
    k1, k2, k3 = 0.7, 0.3, 2.0
    M = Model(species=["A", "B"], reactions=[(["A", "A", "A"], ["B"], "massaction", {"k": "k1"}),
                                            (["A", "B"], [], "massaction", {"k": "k2"}),
                                            ([], ["A"], "massaction", {"k": "k3"})],
              parameters=[("k1", k1), ("k2", k2), ("k3", k3)], initial_condition_dict={"A": 1, "B": 1})
    before = dict(M.get_parameter_dictionary())
    a, b = 1.7, 0.9
    h = 0.01
    # f_A = -3 k1 a^3 - k2 a b + k3 ; f_B = k1 a^3 - k2 a b
    J = np.array([[-9 * k1 * a * a - k2 * b, -k2 * a], [3 * k1 * a * a - k2 * b, -k2 * a]])
    d2 = np.array([[-18 * k1 * a, 0.0], [6 * k1 * a, 0.0]])
    d3 = np.array([[-18 * k1, 0.0], [6 * k1, 0.0]])
    corr = {"fourth_order_central_difference": 0 * J, "central_difference": h * h * d3 / 6,
            "forward_difference": h * d2 / 2, "backward_difference": -h * d2 / 2}[method]
    problems = []
    if spec.get("kind") == "real_model" and spec.get("model") == "names":
        for N_, I_, E_, S_ in ((0.7, 0.2, 2.0, 3.0), (1.3, 0.5, 0.4, 5.0)):
            try:
                Mn = Model(species=["E", "S"], parameters=[("N", N_), ("I", I_)], reactions=[(["S"], [], "general", {"rate": "N*E*S + I*S"})])
            except Exception as e:
                return {"reproduced": True, "observed": "a model over a species called E and parameters N, I cannot be built: %s: %s" % (type(e).__name__, e), "expected": "a model"}
            order = Mn.get_species_list()
            ie, is_ = order.index("E"), order.index("S")
            x = [0.0, 0.0]
            x[ie], x[is_] = E_, S_
            gj = np.asarray(py_get_jacobian(Mn, list(x), method=method), dtype=float)
            if abs(gj[is_, ie] + N_ * S_) > 1e-6 or abs(gj[is_, is_] + N_ * E_ + I_) > 1e-6:
                problems.append("S -> 0 at rate N*E*S + I*S, N=%s I=%s at E=%s S=%s: Jacobian row of S [%s] = %s, analytic %s" % (N_, I_, E_, S_, method, gj[is_].tolist(),
                                                                                                                             [-N_ * S_ if j == ie else -N_ * E_ - I_ for j in range(2)]))
            gz = np.asarray(py_get_sensitivity_to_parameter(Mn, list(x), "N", method=method), dtype=float)
            if abs(gz[is_] + E_ * S_) > 1e-6:
                problems.append("d f/d N [%s] = %s, analytic -E*S = %s for S" % (method, gz.tolist(), -E_ * S_))
        return {"reproduced": bool(problems), "observed": problems[:3], "expected": "derivatives of the written rate law"}
    if spec.get("kind") == "real_model" and spec.get("model") == "dimer":
        for k2_, A_ in ((0.7, 2.0), (1.3, 5.0), (0.2, 1.0)):
            Md = Model(species=["A", "B"], parameters=[("k2", k2_)], reactions=[(["A", "A"], ["B"], "massaction", {"k": "k2"})])
            order = Md.get_species_list()
            ia, ib = order.index("A"), order.index("B")
            x = [0.0, 0.0]
            x[ia], x[ib] = A_, 3.0
            slope = {"fourth_order_central_difference": 2 * A_, "central_difference": 2 * A_, "forward_difference": 2 * A_ + h, "backward_difference": 2 * A_ - h}[method]
            gj = np.asarray(py_get_jacobian(Md, list(x), method=method), dtype=float)
            if abs(gj[ia, ia] + 2 * k2_ * slope) > 1e-6 or abs(gj[ib, ia] - k2_ * slope) > 1e-6:
                problems.append("2A -> B, k2=%s at A=%s: d(dA/dt)/dA [%s] = %r, the deterministic law k2*A^2 gives %r" % (k2_, A_, method, gj[ia, ia], -2 * k2_ * slope))
            gz = np.asarray(py_get_sensitivity_to_parameter(Md, list(x), "k2", method=method), dtype=float)
            if abs(gz[ia] + 2 * A_ * A_) > 1e-6 or abs(gz[ib] - A_ * A_) > 1e-6:
                problems.append("2A -> B at A=%s: d f/d k2 [%s] = %s, analytic %s" % (A_, method, gz.tolist(), [-2 * A_ * A_, A_ * A_] if ia == 0 else [A_ * A_, -2 * A_ * A_]))
        return {"reproduced": bool(problems), "observed": problems[:3], "expected": "derivatives of the deterministic rate law"}
    if spec.get("kind") == "real_model":
        from .util import unfrac
        v = unfrac(spec.get("values", {}))
        pts = [(float(v.get("kf", 0.6)) or 0.6, float(v.get("kr", 0.9)) or 0.9, float(v.get("kd", 0.3)) or 0.3, float(v.get("A", 1.0)), float(v.get("B", 3.0)))]
        pts += [(0.6, 0.9, 0.3, 1.0, 3.0), (0.6, 0.9, 0.3, 4.0, 0.5), (2.0, 0.25, 1.5, 0.0, 2.0),       # backward flux, forward flux, A exhausted
                (4000.0, 2500.0, 1500.0, 1.0, 3.0), (0.1, 1e5, 0.1, 2.0, 0.001)]                           # large and very unequal parameter values
        for kf, kr, kd, A_, B_ in pts:
            Mr = Model(species=["A", "B"], parameters=[("kf", kf), ("kr", kr), ("kd", kd)],
                       reactions=[(["A"], ["B"], "general", {"rate": "kf*A - kr*B"}), (["B"], [], "massaction", {"k": "kd"})])
            order = Mr.get_species_list()
            ia, ib = order.index("A"), order.index("B")
            x = [0.0, 0.0]
            x[ia], x[ib] = A_, B_
            wantJ = np.zeros((2, 2))
            wantJ[ia, ia], wantJ[ia, ib], wantJ[ib, ia], wantJ[ib, ib] = -kf, kr, kf, -kr - kd
            gj = np.asarray(py_get_jacobian(Mr, list(x), method=method), dtype=float)
            if not np.allclose(gj, wantJ, rtol=1e-7, atol=1e-7):
                problems.append("kf=%s kr=%s kd=%s at A=%s B=%s: jacobian[%s] = %s, analytic %s" % (kf, kr, kd, A_, B_, method, gj.tolist(), wantJ.tolist()))
            for pn, wz in (("kf", {ia: -A_, ib: A_}), ("kr", {ia: B_, ib: -B_}), ("kd", {ia: 0.0, ib: -B_})):
                gz = np.asarray(py_get_sensitivity_to_parameter(Mr, list(x), pn, method=method), dtype=float)
                if not np.allclose(gz, [wz[0], wz[1]], rtol=1e-7, atol=1e-7):
                    problems.append("kf=%s kr=%s kd=%s at A=%s B=%s: d f/d %s [%s] = %s, analytic %s" % (kf, kr, kd, A_, B_, pn, method, gz.tolist(), [wz[0], wz[1]]))
            now = dict(Mr.get_parameter_dictionary())
            if abs(now["kf"] - kf) > 1e-12 or abs(now["kr"] - kr) > 1e-12 or abs(now["kd"] - kd) > 1e-12:
                problems.append("parameters after the queries: %s" % now)
        return {"reproduced": bool(problems), "observed": problems[:3], "expected": "analytic derivatives of the signed rate law"}
    if spec.get("kind") == "history":
        # a query, then new parameter values, then a second query on the same model object
        py_get_sensitivity_to_parameter(M, [a, b], "k1", method=method)
        py_get_jacobian(M, [a, b], method=method)
        k1n, k2n = 1.9, 0.05
        M.set_params({"k1": k1n, "k2": k2n})
        Jn = np.array([[-9 * k1n * a * a - k2n * b, -k2n * a], [3 * k1n * a * a - k2n * b, -k2n * a]])
        d2n = np.array([[-18 * k1n * a, 0.0], [6 * k1n * a, 0.0]])
        d3n = np.array([[-18 * k1n, 0.0], [6 * k1n, 0.0]])
        corrn = {"fourth_order_central_difference": 0 * Jn, "central_difference": h * h * d3n / 6,
                 "forward_difference": h * d2n / 2, "backward_difference": -h * d2n / 2}[method]
        gz = py_get_sensitivity_to_parameter(M, [a, b], "k2", method=method)      # f depends on k2 linearly: -a*b for both species
        gj = py_get_jacobian(M, [a, b], method=method)
        if not np.allclose(gz, [-a * b, -a * b], rtol=0, atol=5e-9):
            problems.append("after set_params, d f/d k2 [%s] = %s, analytic %s" % (method, np.asarray(gz).tolist(), [-a * b, -a * b]))
        if not np.allclose(gj, Jn + corrn, rtol=0, atol=5e-9):
            problems.append("after set_params, jacobian[%s] = %s, analytic at the new values %s" % (method, np.asarray(gj).tolist(), (Jn + corrn).tolist()))
        now = dict(M.get_parameter_dictionary())
        if abs(now["k1"] - k1n) > 0 or abs(now["k2"] - k2n) > 0:
            problems.append("the model's parameters are %s after the queries, they were set to k1=%s k2=%s" % (now, k1n, k2n))
        return {"reproduced": bool(problems), "observed": problems[:3], "expected": "derivatives at the model's current parameters"}
    if spec.get("kind", "jacobian") == "jacobian":
        got = py_get_jacobian(M, [a, b], method=method)
        if not np.allclose(got, J + corr, rtol=0, atol=5e-9):
            problems.append("jacobian[%s] = %s, analytic (+scheme error term) %s" % (method, got.tolist(), (J + corr).tolist()))
    else:
        got = py_get_sensitivity_to_parameter(M, [a, b], "k1", method=method)
        want = np.array([-3 * a ** 3, a ** 3])       # linear in k1: every scheme is exact
        if not np.allclose(got, want, rtol=0, atol=5e-9):
            problems.append("d f/d k1 [%s] = %s, analytic %s" % (method, got.tolist(), want.tolist()))
    after = dict(M.get_parameter_dictionary())
    if any(abs(after[k] - before[k]) > 0 for k in before):
        problems.append("parameters changed: %s -> %s" % (before, after))
    return {"reproduced": bool(problems), "observed": problems, "expected": "analytic derivatives; parameters unchanged"}
