"""Replay driver for C10: loop-level findings by seed search (ssa.replay), queue findings by C20's driver."""
from . import ssa, C20


def replay(spec):
    if "op" in spec:
        return C20.replay(spec)
    return ssa.replay(spec)
