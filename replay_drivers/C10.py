"""Replay driver for C10: loop-level findings by seed search (ssa.replay), queue findings by C20's driver."""
from . import ssa, C20


def _gamma_delay():
    """the gamma delay of a reaction is the gamma sampler's own draw for the reaction's shape and scale (same stream)"""
    import numpy as np
    from bioscrape.types import Model
    from bioscrape.random import py_seed_random, py_gamma_rv
    bad = []
    for k, th in ((2.5, 0.8), (1.4, 0.5), (3.0, 1.0), (7.5, 0.3)):
        M = Model(species=["A", "B"], reactions=[(["A"], [], "massaction", {"k": 1.0}, "gamma", [], ["B"], {"k": k, "theta": th})],
                  initial_condition_dict={"A": 5})
        d = M.get_delays()[0]
        params = np.array(M.get_parameter_values(), dtype=float)
        for seed in (1, 2, 3):
            py_seed_random(seed)
            got = [d.py_get_delay(np.array([5.0, 0.0]), params) for _ in range(3)]
            py_seed_random(seed)
            want = [py_gamma_rv(k, th) for _ in range(3)]
            if got != want:
                bad.append("gamma delay (k=%s, theta=%s, seed %d) draws %s, gamma_rv(k, theta) on the same stream gives %s" % (k, th, seed, got, want))
                break
    return {"reproduced": bool(bad), "observed": bad[:2], "expected": "delay = gamma_rv(k, theta)"}


def _delayed_multiplicity():
    """X -> 0 now, Y + Y (and P -> P + Q) later: per firing two Y are delivered, P is unchanged and one Q appears.  Judged in the plain
    stochastic simulator (both parts at the firing time, so every row must account exactly) and in the delay simulator at a horizon far
    beyond the delay (everything delivered)."""
    import warnings
    warnings.simplefilter("ignore")
    import numpy as np
    from bioscrape.types import Model
    from bioscrape.simulator import py_simulate_model
    from bioscrape.random import py_seed_random
    bad = []
    for fam, dp in (("fixed", {"delay": 0.4}), ("gaussian", {"mean": 0.4, "std": 0.05}), ("gamma", {"k": 4.0, "theta": 0.1})):
        for delay in (False, True):
            M = Model(species=["X", "Y", "P", "Q"],
                      reactions=[(["X"], [], "massaction", {"k": 1.0}, fam, [], ["Y", "Y"], dp), (["X"], [], "massaction", {"k": 0.5}, fam, ["P"], ["P", "Q"], dp)],
                      initial_condition_dict={"X": 40, "P": 5})
            py_seed_random(3)
            tp = np.linspace(0, 60, 121)
            df = py_simulate_model(tp, Model=M, stochastic=True, delay=delay)
            rows = df[["X", "Y", "P", "Q"]].to_numpy()
            check = rows if not delay else rows[-1:]
            for r in check:
                fired = 40 - r[0]
                if r[2] != 5 or r[1] + 2 * r[3] != 2 * fired or (delay and r[0] != 0):
                    bad.append("%s delay, %s simulator: %d firings of X -> 0 (+ Y + Y or P -> P + Q later) but Y = %s, Q = %s, P = %s (Y + 2Q must be %d, P must stay 5)"
                               % (fam, "delay" if delay else "plain stochastic", fired, r[1], r[3], r[2], 2 * fired))
                    break
    return {"reproduced": bool(bad), "observed": bad[:3], "expected": "delayed products minus delayed reactants, with multiplicity, per firing"}


def replay(spec):
    if spec.get("kind") == "stoich":
        r = _delayed_multiplicity()
        if r["reproduced"]:
            return r
        from . import C03
        return C03.replay(spec)
    if spec.get("kind") == "gamma_delay":
        return _gamma_delay()
    if "op" in spec:
        return C20.replay(spec)
    return ssa.replay(spec)
