"""Replay driver for C10: loop-level findings by seed search (ssa.replay), queue findings by C20's driver."""
from . import ssa, C20


def _gamma_delay():
    """the gamma delay of a reaction is the gamma sampler's own draw for the reaction's shape and scale (same stream)"""
    import numpy as np
    from bioscrape.types import Model
    from bioscrape.random import py_seed_random, py_gamma_rv
    bad = []
    for k, th in ((2.5, 0.8), (1.4, 0.5), (3.0, 1.0), (7.5, 0.3)):
        M = Model(species=["A", "B"], reactions=[(["A"], [], "massaction", {"k": 1.0}, "gamma", [], ["B"], {"k": k, "theta": th})],
                  initial_condition_dict={"A": 5})
        d = M.get_delays()[0]
        params = np.array(M.get_parameter_values(), dtype=float)
        for seed in (1, 2, 3):
            py_seed_random(seed)
            got = [d.py_get_delay(np.array([5.0, 0.0]), params) for _ in range(3)]
            py_seed_random(seed)
            want = [py_gamma_rv(k, th) for _ in range(3)]
            if got != want:
                bad.append("gamma delay (k=%s, theta=%s, seed %d) draws %s, gamma_rv(k, theta) on the same stream gives %s" % (k, th, seed, got, want))
                break
    return {"reproduced": bool(bad), "observed": bad[:2], "expected": "delay = gamma_rv(k, theta)"}


def _delayed_multiplicity():
    """X -> 0 now, Y + Y (and P -> P + Q) later: per firing two Y are delivered, P is unchanged and one Q appears.  Judged in the plain
    stochastic simulator (both parts at the firing time, so every row must account exactly) and in the delay simulator at a horizon far
    beyond the delay (everything delivered)."""
    import warnings
    warnings.simplefilter("ignore")
    import numpy as np
    from bioscrape.types import Model
    from bioscrape.simulator import py_simulate_model
    from bioscrape.random import py_seed_random
    bad = []
    for fam, dp in (("fixed", {"delay": 0.4}), ("gaussian", {"mean": 0.4, "std": 0.05}), ("gamma", {"k": 4.0, "theta": 0.1})):
        for delay in (False, True):
            M = Model(species=["X", "Y", "P", "Q"],
                      reactions=[(["X"], [], "massaction", {"k": 1.0}, fam, [], ["Y", "Y"], dp), (["X"], [], "massaction", {"k": 0.5}, fam, ["P"], ["P", "Q"], dp)],
                      initial_condition_dict={"X": 40, "P": 5})
            py_seed_random(3)
            tp = np.linspace(0, 60, 121)
            df = py_simulate_model(tp, Model=M, stochastic=True, delay=delay)
            rows = df[["X", "Y", "P", "Q"]].to_numpy()
            check = rows if not delay else rows[-1:]
            for r in check:
                fired = 40 - r[0]
                if r[2] != 5 or r[1] + 2 * r[3] != 2 * fired or (delay and r[0] != 0):
                    bad.append("%s delay, %s simulator: %d firings of X -> 0 (+ Y + Y or P -> P + Q later) but Y = %s, Q = %s, P = %s (Y + 2Q must be %d, P must stay 5)"
                               % (fam, "delay" if delay else "plain stochastic", fired, r[1], r[3], r[2], 2 * fired))
                    break
    return {"reproduced": bool(bad), "observed": bad[:3], "expected": "delayed products minus delayed reactants, with multiplicity, per firing"}


def _signed_delay():
    """a Gaussian delay whose draws are all negative (and a negative fixed delay) acts as zero delay: every firing delivers at once"""
    import warnings
    warnings.simplefilter("ignore")
    import numpy as np
    from bioscrape.types import Model
    from bioscrape.simulator import py_simulate_model
    from bioscrape.random import py_seed_random
    bad = []
    for fam, dp in (("gaussian", {"mean": -50.0, "std": 1.0}), ("fixed", {"delay": -2.0}), ("gaussian", {"mean": 0.0, "std": 1.0})):
        for vol in (None, 1.5):
            M = Model(species=["A", "B"], reactions=[(["A"], [], "massaction", {"k": 1.0}, fam, [], ["B"], dp)], initial_condition_dict={"A": 60})
            py_seed_random(2)
            df = py_simulate_model(np.linspace(0, 2, 41), Model=M, stochastic=True, delay=True, **({} if vol is None else {"volume": vol}))
            A, B = df["A"].to_numpy(), df["B"].to_numpy()
            if fam == "gaussian" and dp["mean"] == 0.0:
                # half the draws are negative: about half of the firings are delivered at once, so B may not lag far behind
                late = (60 - A) - B
                if late[-1] > 0.9 * (60 - A[-1]) and (60 - A[-1]) >= 20:
                    bad.append("gaussian(0, 1) delay%s: %d firings, %d delivered by t=2 (about half of the draws are negative and deliver at once)" % ("" if vol is None else " with volume", 60 - A[-1], B[-1]))
            elif not np.array_equal(B, 60 - A):
                i_ = int(np.argmax(B != 60 - A))
                bad.append("%s delay %s%s: %d firings by t=%.2f but %d delivered; a non-positive delay delivers at the firing time" % (fam, dp, "" if vol is None else " with volume", 60 - A[i_], 0.05 * i_, B[i_]))
    return {"reproduced": bool(bad), "observed": bad[:3], "expected": "non-positive delays act as zero delay"}


def replay(spec):
    if spec.get("kind") == "signed_delay":
        return _signed_delay()
    if spec.get("kind") == "stoich":
        r = _delayed_multiplicity()
        if r["reproduced"]:
            return r
        from . import C03
        return C03.replay(spec)
    if spec.get("kind") == "gamma_delay":
        return _gamma_delay()
    if "op" in spec:
        return C20.replay(spec)
    return ssa.replay(spec)
