"""Replay driver for C10: loop-level findings by seed search (ssa.replay), queue findings by C20's driver."""
from . import ssa, C20


def _gamma_delay():
    """the gamma delay of a reaction is the gamma sampler's own draw for the reaction's shape and scale (same stream)"""
    import numpy as np
    from bioscrape.types import Model
    from bioscrape.random import py_seed_random, py_gamma_rv
    bad = []
    for k, th in ((2.5, 0.8), (1.4, 0.5), (3.0, 1.0), (7.5, 0.3)):
        M = Model(species=["A", "B"], reactions=[(["A"], [], "massaction", {"k": 1.0}, "gamma", [], ["B"], {"k": k, "theta": th})],
                  initial_condition_dict={"A": 5})
        d = M.get_delays()[0]
        params = np.array(M.get_parameter_values(), dtype=float)
        for seed in (1, 2, 3):
            py_seed_random(seed)
            got = [d.py_get_delay(np.array([5.0, 0.0]), params) for _ in range(3)]
            py_seed_random(seed)
            want = [py_gamma_rv(k, th) for _ in range(3)]
            if got != want:
                bad.append("gamma delay (k=%s, theta=%s, seed %d) draws %s, gamma_rv(k, theta) on the same stream gives %s" % (k, th, seed, got, want))
                break
    return {"reproduced": bool(bad), "observed": bad[:2], "expected": "delay = gamma_rv(k, theta)"}


def replay(spec):
    if spec.get("kind") == "gamma_delay":
        return _gamma_delay()
    if "op" in spec:
        return C20.replay(spec)
    return ssa.replay(spec)
