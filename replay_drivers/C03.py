"""Replay driver for C03 on the real build."""
import numpy as np

from .util import unfrac


def replay(spec):
    import warnings
    warnings.simplefilter("ignore")
    from bioscrape.types import Model
    from bioscrape.simulator import ModelCSimInterface, SafeModelCSimInterface, py_simulate_model
    POOL = ["X", "Y", "Z"]
    kind = spec.get("kind")
    problems = []
    if kind == "stoich":
        pt = spec["ptype"]
        pd = {"massaction": {"k": 1.5}, "hillpositive": {"k": 1.0, "K": 2.0, "n": 2, "s1": "X"},
              "general": {"rate": "0.5*Y + 1"}}[pt]
        re, pr, dre, dpr = spec["reactants"], spec["products"], spec["dre"], spec["dpr"]
        if (dre or dpr) and spec.get("nodelay"):
            rx = (re, pr, pt, pd, None, dre, dpr, {})
        else:
            rx = (re, pr, pt, pd, "fixed", dre, dpr, {"delay": 1.0}) if (dre or dpr) else (re, pr, pt, pd)
        M = Model(species=spec["order"], reactions=[(["Z"], ["X"], "massaction", {"k": 2.0}), rx])
        U, D = M.py_get_update_array(), M.py_get_delay_update_array()
        idx = M.get_species2index()
        for s in POOL:
            if U[idx[s], 1] != pr.count(s) - re.count(s) or D[idx[s], 1] != dpr.count(s) - dre.count(s):
                problems.append("species %s: immediate %s delayed %s, expected %s / %s" %
                                (s, U[idx[s], 1], D[idx[s], 1], pr.count(s) - re.count(s), dpr.count(s) - dre.count(s)))
        if M.get_species_list() != spec["order"]:
            problems.append("species order %s" % M.get_species_list())
    elif kind == "derivative" and "values" in spec:
        # the counterexample's own stoichiometry: reaction r consumes / produces species s |U[s,r]| times immediately and
        # |D[s,r]| times after a fixed delay; its rate is the constant a_r (general propensity)
        v = unfrac(spec["values"])
        S, R = spec["S"], spec["R"]
        names = ["S%d" % i for i in range(S)]
        U = [[int(v.get("U_%d_%d" % (i, j), 0)) for j in range(R)] for i in range(S)]
        D = [[int(v.get("D_%d_%d" % (i, j), 0)) for j in range(R)] for i in range(S)]
        a = [float(v.get("a_%d" % j, 1.0)) or 1.0 for j in range(R)]
        rxs = []
        for j in range(R):
            def side(M_, sign):
                out = []
                for i in range(S):
                    if M_[i][j] * sign > 0:
                        out += [names[i]] * abs(M_[i][j])
                return out
            rxs.append((side(U, -1), side(U, 1), "general", {"rate": repr(a[j])}, "fixed", side(D, -1), side(D, 1), {"delay": 1.0}))
        M = Model(species=names, reactions=rxs)
        itf = (SafeModelCSimInterface if spec.get("safe") else ModelCSimInterface)(M)
        itf.py_prep_deterministic_simulation()
        x = np.array([abs(float(v.get("x_%d" % i, 1.0))) + 1.0 for i in range(S)])
        dx = np.full(S, 7.25)              # an output array with stale contents
        itf.py_calculate_deterministic_derivative(x, dx, 0.0)
        for i in range(S):
            want = sum((U[i][j] + D[i][j]) * a[j] for j in range(R))
            if abs(dx[i] - want) > 1e-9 * (1 + abs(want)):
                problems.append("d%s/dt = %r, expected %r (immediate %s, delayed %s, rates %s)" % (names[i], dx[i], want, U[i], D[i], a))
    elif kind in ("derivative", "model_derivative"):
        k1, k2, k3 = 0.7, 0.4, 1.3
        M = Model(species=["B", "A", "C", "Z"],
                  reactions=[(["A", "A"], ["B"], "massaction", {"k": k1}),
                             (["A", "B"], ["A"], "massaction", {"k": k2}, "fixed", [], ["C", "C"], {"delay": 1.0}),
                             ([], ["A"], "massaction", {"k": k3})]
                  + ([] if spec.get("safe") else [(["B"], ["C"], "general", {"rate": "kf*A - kr*B"})]),
                  parameters=[("kf", 0.2), ("kr", 0.9)])
        itf = (SafeModelCSimInterface if spec.get("safe") else ModelCSimInterface)(M)
        itf.py_prep_deterministic_simulation()
        for st in ({"A": 2.5, "B": 1.5, "C": 0.5}, {"A": 6.0, "B": 0.5, "C": 0.0}):       # net flux B->C backwards / forwards
            st = dict(st, Z=4.0)
            x = np.array([st[s] for s in M.get_species_list()])
            dx = np.full(4, 7.25)              # an output array with stale contents
            itf.py_calculate_deterministic_derivative(x, dx, 0.0)
            A, B = st["A"], st["B"]
            r4 = 0.0 if spec.get("safe") else 0.2 * A - 0.9 * B
            want = {"A": -2 * k1 * A * A + k3, "B": k1 * A * A - k2 * A * B - r4, "C": 2 * k2 * A * B + r4, "Z": 0.0}
            for i, s in enumerate(M.get_species_list()):
                if abs(dx[i] - want[s]) > 1e-9:
                    problems.append("at %s: d%s/dt = %r, expected %r" % (st, s, dx[i], want[s]))
    elif kind == "arguments":
        import copy
        shared = {"k": 0.5}
        rxs = [(["X"], ["Y"], "massaction", shared), (["Y", "Y"], ["Z"], "massaction", shared), (["Z"], [], "hillpositive", {"k": 1.0, "K": 2.0, "n": 2, "s1": "X"}),
               (["X"], [], "massaction", {"k": 1.0}, "fixed", [], ["Y"], {"delay": 1.0})]
        sp = ["X", "Y", "Z"]
        before = copy.deepcopy((sp, rxs))
        Model(species=sp, reactions=rxs)
        if (sp, rxs) != before:
            problems.append("Model(...) changed its arguments: %s -> %s" % (before[1][:2], rxs[:2]))
    elif kind == "missing":
        which = spec.get("which", "massaction")
        kw = dict(species=["X", "Y"])
        table = {
            "massaction": dict(reactions=[(["X"], ["Y"], "massaction", {"k": "kmiss"})]),
            "hill": dict(reactions=[(["X"], ["Y"], "hillpositive", {"k": 1.0, "K": "Kmiss", "n": 2, "s1": "X"})]),
            "general": dict(reactions=[(["X"], ["Y"], "general", {"rate": "kmiss*X"})]),
            "delay": dict(reactions=[(["X"], [], "massaction", {"k": 1.0}, "fixed", [], ["Y"], {"delay": "taumiss"})]),
            "rule": dict(rules=[("assignment", {"equation": "Y = kmiss*X"})]),
            "massaction+declared": dict(reactions=[(["X"], ["Y"], "massaction", {"k": "kmiss"})], parameters=[("zeta_last", 2.0)]),
            "first-of-two-reactions": dict(reactions=[(["X"], ["Y"], "massaction", {"k": "kmiss"}), (["Y"], [], "massaction", {"k": 0.5})]),
            "one-of-two-named": dict(reactions=[(["X"], ["Y"], "massaction", {"k": "kmiss"}), (["Y"], [], "massaction", {"k": "k2"})], parameters=[("k2", 0.5)]),
            "hill-K": dict(reactions=[(["X"], ["Y"], "hillpositive", {"k": "kh", "K": "Kmiss", "n": "nh", "s1": "X"})], parameters=[("kh", 1.0), ("nh", 2.0)]),
            "delay-then-reaction": dict(reactions=[(["X"], [], "massaction", {"k": 1.0}, "fixed", [], ["Y"], {"delay": "taumiss"}), (["Y"], [], "massaction", {"k": 0.5})]),
            "rule+later-rule": dict(rules=[("assignment", {"equation": "Y = kmiss*X"}), ("assignment", {"equation": "X = 2*k9"})], parameters=[("k9", 1.0)]),
        }
        kw.update(table.get(which, table["massaction"]))
        try:
            Model(**kw)
            problems.append("a model whose definition (%s) refers to a parameter without a value initialises" % which)
        except ValueError:
            pass
        # the same model object, tried repeatedly (deferred initialisation leaves an object behind)
        Md = Model(initialize_model=False, **kw)
        for attempt, f_ in enumerate((lambda: ModelCSimInterface(Md), lambda: ModelCSimInterface(Md), lambda: Md.py_initialize(),
                                      lambda: py_simulate_model(np.linspace(0, 1, 3), Model=Md)), 1):
            try:
                f_()
                problems.append("attempt %d on a model with a valueless parameter (%s) goes through" % (attempt, which))
            except ValueError:
                pass
    return {"reproduced": bool(problems), "observed": problems[:3], "expected": "stoichiometry / derivative as defined by the reaction list"}
