"""Replay by seed search for the event-loop harnesses (C05, C06, C09, C10, C11).

A solver counterexample to a step relation is a symbolic pre-state, not a public-API input.  It is
confirmed on the real build by differential execution: the real simulator and a reference
implementation of the documented algorithm are driven by the SAME Mersenne-Twister stream
(py_seed_random / py_uniform_rv) over a battery of small models and seeds; a trajectory that differs
confirms that the real build deviates from the algorithm the step relation describes.
"""
import math

import numpy as np


def _models(kind):
    """(species, reactions, parameters, initial condition) tuples"""
    ms = []
    ms.append((["A"], [([], ["A"], "massaction", {"k": 4.0}), (["A"], [], "massaction", {"k": 1.0})], [], {"A": 2}))
    ms.append((["A", "B"], [(["A", "A"], ["B"], "massaction", {"k": 0.5}), (["B"], ["A", "A"], "massaction", {"k": 1.0}),
                            ([], ["A"], "massaction", {"k": 2.0})], [], {"A": 6, "B": 1}))
    ms.append((["A", "B", "C"], [(["A", "B"], ["C"], "massaction", {"k": 0.3}), (["C"], ["A"], "massaction", {"k": 1.0}),
                                 ([], ["B"], "massaction", {"k": 3.0}), (["A"], [], "massaction", {"k": 0.2})], [],
               {"A": 8, "B": 3, "C": 0}))
    ms.append((["A"], [(["A"], [], "massaction", {"k": 2.0})], [], {"A": 3}))     # goes extinct: Lambda = 0
    if kind in ("delay", "delay_volume", "ssa", "volume"):
        ms.append((["A", "B"], [([], ["A"], "massaction", {"k": 3.0}, "fixed", [], ["B"], {"delay": 0.7}),
                                (["A"], [], "massaction", {"k": 1.0}),
                                (["B"], [], "massaction", {"k": 0.5}, "fixed", ["A"], [], {"delay": 0.25})], [],
                   {"A": 4, "B": 2}))
    return ms


def _net(model):
    return model.py_get_update_array(), model.py_get_delay_update_array()


def ref_ssa(itf, U, timepoints, uniform, t0=0.0):
    """Direct method with grid recording (the algorithm of SSASimulator.simulate)."""
    x = np.array(itf.py_get_initial_state(), dtype=float).copy()
    n = len(timepoints)
    res = np.zeros((n, len(x)))
    t, ci = t0, 0
    while ci < n:
        a = itf.py_compute_propensities(x.copy(), t, 1.0, "stochastic")
        lam = float(a.sum())
        fired = False
        if lam == 0:
            tn = timepoints[ci]
        else:
            tn = t + (-1.0 / lam * math.log(uniform()))
            if tn > timepoints[ci]:
                tn = timepoints[ci]
            else:
                fired = True
        t = tn
        while ci < n and timepoints[ci] <= t:
            res[ci, :] = x
            ci += 1
        if fired:
            q = uniform() * lam
            ps, j = 0.0, 0
            while ps < q and j < len(a):
                ps += a[j]
                j += 1
            x = x + U[:, j - 1]
    return res


def replay(spec):
    import warnings
    warnings.simplefilter("ignore")
    from bioscrape.types import Model
    from bioscrape.simulator import ModelCSimInterface, SSASimulator
    from bioscrape.random import py_seed_random, py_uniform_rv
    kind = spec.get("kind", "ssa")
    seeds = spec.get("seeds", 60)
    found = []
    for mi, (species, rxns, params, init) in enumerate(_models(kind)):
        for grid in (np.linspace(0, 3, 7), np.array([0.0, 0.1, 0.5, 0.6, 2.0, 4.0])):
            for seed in range(1, seeds + 1):
                M = Model(species=species, reactions=rxns, parameters=params, initial_condition_dict=init)
                itf = ModelCSimInterface(M)
                itf.py_set_initial_time(0.0)
                U, D = _net(M)
                py_seed_random(seed)
                real = SSASimulator().py_simulate(itf, grid.copy()).py_get_result()
                py_seed_random(seed)
                ref = ref_ssa(ModelCSimInterface(M), U + D, grid, py_uniform_rv)
                if real.shape != ref.shape or not np.allclose(real, ref, rtol=0, atol=1e-9):
                    found.append({"model": mi, "seed": seed, "grid": list(grid),
                                  "real": real.tolist()[:4], "reference": ref.tolist()[:4]})
                    break
            if found:
                break
        if found:
            break
    return {"reproduced": bool(found), "observed": found[:1],
            "expected": "trajectory of the reference direct method on the same random stream"}
