"""Replay by seed search for the event-loop harnesses (C05, C06, C09, C10, C11).

A solver counterexample to a step relation is a symbolic pre-state, not a public-API input.  It is
confirmed on the real build by differential execution: the real simulator and a reference
implementation of the documented algorithm are driven by the SAME Mersenne-Twister stream
(py_seed_random / py_uniform_rv) over a battery of small models and seeds; a trajectory that differs
confirms that the real build deviates from the algorithm the step relation describes.
"""
import math

import numpy as np


def _models(kind):
    """(species, reactions, parameters, initial condition) tuples"""
    ms = []
    ms.append((["A"], [([], ["A"], "massaction", {"k": 4.0}), (["A"], [], "massaction", {"k": 1.0})], [], {"A": 2}))
    ms.append((["A", "B"], [(["A", "A"], ["B"], "massaction", {"k": 0.5}), (["B"], ["A", "A"], "massaction", {"k": 1.0}),
                            ([], ["A"], "massaction", {"k": 2.0})], [], {"A": 6, "B": 1}))
    ms.append((["A", "B", "C"], [(["A", "B"], ["C"], "massaction", {"k": 0.3}), (["C"], ["A"], "massaction", {"k": 1.0}),
                                 ([], ["B"], "massaction", {"k": 3.0}), (["A"], [], "massaction", {"k": 0.2})], [],
               {"A": 8, "B": 3, "C": 0}))
    ms.append((["A"], [(["A"], [], "massaction", {"k": 2.0})], [], {"A": 3}))     # goes extinct: Lambda = 0
    if kind in ("delay", "delay_volume", "ssa", "volume"):
        ms.append((["A", "B"], [([], ["A"], "massaction", {"k": 3.0}, "fixed", [], ["B"], {"delay": 0.7}),
                                (["A"], [], "massaction", {"k": 1.0}),
                                (["B"], [], "massaction", {"k": 0.5}, "fixed", ["A"], [], {"delay": 0.25})], [],
                   {"A": 4, "B": 2}))
        # a delay that evaluates to zero: the delayed part is applied together with the immediate part
        ms.append((["A", "B"], [([], ["A"], "massaction", {"k": 3.0}, "fixed", [], ["B", "B"], {"delay": 0.0}),
                                (["A"], [], "massaction", {"k": 1.0}),
                                (["B"], [], "massaction", {"k": 0.5})], [], {"A": 4, "B": 2}))
    return ms


def _net(model):
    return model.py_get_update_array(), model.py_get_delay_update_array()


def ref_ssa(itf, U, timepoints, uniform, t0=0.0):
    """Direct method with grid recording (the algorithm of SSASimulator.simulate)."""
    x = np.array(itf.py_get_initial_state(), dtype=float).copy()
    n = len(timepoints)
    res = np.zeros((n, len(x)))
    t, ci = t0, 0
    while ci < n:
        a = itf.py_compute_propensities(x.copy(), t, 1.0, "stochastic")
        lam = float(a.sum())
        fired = False
        if lam == 0:
            tn = timepoints[ci]
        else:
            tn = t + (-1.0 / lam * math.log(uniform()))
            if tn > timepoints[ci]:
                tn = timepoints[ci]
            else:
                fired = True
        t = tn
        while ci < n and timepoints[ci] <= t:
            res[ci, :] = x
            ci += 1
        if fired:
            q = uniform() * lam
            ps, j = 0.0, 0
            while ps < q and j < len(a):
                ps += a[j]
                j += 1
            x = x + U[:, j - 1]
    return res


class RefQueue:
    """Reference delay queue: slot k (k = 0..C-1) is due at nqt + k*dt; nearest-slot filing with clamping."""
    def __init__(self, R, C, dt, t0):
        self.R, self.C, self.dt = R, C, dt
        self.nqt = t0 + dt
        self.slots = [[0.0] * R for _ in range(C)]

    def add(self, time, r, amt):
        k = int((time - self.nqt) / self.dt + 0.5)
        k = max(0, min(self.C - 1, k))
        self.slots[k][r] += amt

    def pop(self):
        out = self.slots.pop(0)
        self.slots.append([0.0] * self.R)
        self.nqt += self.dt
        return out


def _choose(a, lam, uniform):
    q = uniform() * lam
    ps, j = 0.0, 0
    while ps < q and j < len(a):
        ps += a[j]
        j += 1
    return j - 1


def ref_delay(itf, M, U, D, timepoints, uniform, qdt, t0=0.0):
    x = np.array(itf.py_get_initial_state(), dtype=float).copy()
    params = np.array(M.get_parameter_values(), dtype=float)
    n = len(timepoints)
    res = np.zeros((n, len(x)))
    q = RefQueue(U.shape[1], n, qdt, t0)
    t, ci = t0, 0
    while ci < n:
        a = itf.py_compute_propensities(x.copy(), t, 1.0, "stochastic")
        lam = float(a.sum())
        fired = False
        prop = timepoints[ci]
        if lam > 0:
            cand = t + (-1.0 / lam * math.log(uniform()))
            if cand <= timepoints[ci]:
                prop, fired = cand, True
        move = q.nqt < prop
        if move:
            t, fired = q.nqt, False
        else:
            t = prop
        while ci < n and timepoints[ci] <= t:
            res[ci, :] = x
            ci += 1
        if move:
            amts = q.pop()
            for r, amt in enumerate(amts):
                x = x + amt * D[:, r]
        elif fired:
            j = _choose(a, lam, uniform)
            delay = M.get_delays()[j].py_get_delay(x.copy(), params)
            x = x + U[:, j]
            if delay > 0:
                q.add(t + delay, j, 1.0)
            else:
                x = x + D[:, j]
    return res


def ref_volume(itf, S_net, vol, timepoints, uniform, dt, t0=0.0):
    """Volume SSA: a volume step happens exactly when the clock reaches the next volume-step time."""
    x = np.array(itf.py_get_initial_state(), dtype=float).copy()
    params = np.array(itf.py_get_param_values(), dtype=float)
    n = len(timepoints)
    res = np.zeros((n, len(x)))
    vtr = np.zeros(n)
    V = vol.py_get_volume()
    nvt = t0 + dt
    t, ci = t0, 0
    divided = False
    while ci < n:
        a = itf.py_compute_propensities(x.copy(), t, V, "stochastic_volume")
        lam = float(a.sum())
        fired = False
        prop = timepoints[ci]
        if lam > 0:
            prop, fired = t + (-1.0 / lam * math.log(uniform())), True
        # with no reaction pending, a volume step that coincides with the grid time is taken (growth is not skipped)
        move = nvt < prop or (lam == 0 and nvt <= prop)
        if move:
            t, fired = nvt, False
            nvt += dt
        else:
            t = prop
        while ci < n and timepoints[ci] <= t:
            res[ci, :] = x
            vtr[ci] = V
            ci += 1
        if move:
            V += vol.py_get_volume_step(x.copy(), params, t, V, dt)
            vol.py_set_volume(V)
            if vol.py_cell_divided(x.copy(), params, t, V, dt):
                divided = True
                break
        elif fired:
            j = _choose(a, lam, uniform)
            x = x + S_net[:, j]
    if divided:
        return res[:ci], vtr[:ci], timepoints[:ci], True
    return res, vtr, timepoints, False


def ref_delay_volume(itf, M, U, D, vol, timepoints, uniform, dt, qdt, t0=0.0):
    x = np.array(itf.py_get_initial_state(), dtype=float).copy()
    params = np.array(M.get_parameter_values(), dtype=float)
    n = len(timepoints)
    res = np.zeros((n, len(x)))
    vtr = np.zeros(n)
    V = vol.py_get_volume()
    q = RefQueue(U.shape[1], n, qdt, 0.0)      # py_simulate_model never re-times the queue in this mode
    nvt = t0 + dt
    t, ci = t0, 0
    divided = False
    while ci < n:
        a = itf.py_compute_propensities(x.copy(), t, V, "stochastic_volume")
        lam = float(a.sum())
        prop = None
        if lam > 0:
            prop = t + (-1.0 / lam * math.log(uniform()))
        if prop is not None and prop < nvt and prop < q.nqt:
            kind, t = "reaction", prop
        elif nvt < q.nqt:
            kind, t = "volume", nvt
            nvt += dt
        else:
            kind, t = "queue", q.nqt
        while ci < n and timepoints[ci] <= t:
            res[ci, :] = x
            vtr[ci] = V
            ci += 1
        if kind == "reaction":
            j = _choose(a, lam, uniform)
            delay = M.get_delays()[j].py_get_delay(x.copy(), params)
            x = x + U[:, j]
            if delay > 0:
                q.add(t + delay, j, 1.0)
            else:
                x = x + D[:, j]
        elif kind == "volume":
            V += vol.py_get_volume_step(x.copy(), params, t, V, dt)
            vol.py_set_volume(V)
            if vol.py_cell_divided(x.copy(), params, t, V, dt):
                divided = True
                break
        else:
            for r, amt in enumerate(q.pop()):
                x = x + amt * D[:, r]
    if divided:
        return res[:ci], vtr[:ci], timepoints[:ci], True
    return res, vtr, timepoints, False


def _mkvol(growing):
    from bioscrape.types import Volume, StochasticTimeThresholdVolume
    if growing:
        v = StochasticTimeThresholdVolume(2.0, 2.0, 0.0)
        v.py_initialize(np.zeros(1), np.zeros(1), 0.0, 1.0)
        return v
    v = Volume()
    v.py_set_volume(1.5)
    return v


def _scaled(spec):
    """A model on the counterexample's own scale: total propensity Lam and interface step dt taken from the solver's
    counterexample (a conversion A -> B whose initial total propensity is Lam, observed over a few mean waiting times)."""
    v = spec.get("values") or {}
    try:
        from .util import unfrac
        v = unfrac(v)
        lam, dt = float(v.get("Lam", 0)), float(v.get("dt", 0))
    except Exception:
        return None
    if not (lam > 0 and dt > 0 and math.isfinite(lam) and math.isfinite(dt)) or lam < 1e-200 or lam > 1e200:
        return None
    k = lam / 5.0
    if spec.get("kind", "ssa") != "ssa" and 3.0 / k / dt > 2e5:
        return None                      # the queue / volume clocks step by dt: keep the replay finite
    grid = np.linspace(0, 3.0 / k, 7)
    return ((["A", "B"], [(["A"], ["B"], "massaction", {"k": k})], [], {"A": 5, "B": 0}), grid, dt, dt)


def replay_reuse(spec):
    """initialisation / aliasing obligations: a run starts from the interface's initial state, works on a copy of it and
    leaves interface and model as they were - observable by running twice on the same objects"""
    import warnings
    warnings.simplefilter("ignore")
    from bioscrape.types import Model
    from bioscrape.simulator import (ModelCSimInterface, SafeModelCSimInterface, SSASimulator, DelaySSASimulator, VolumeSSASimulator,
                                     DelayVolumeSSASimulator, ArrayDelayQueue, py_simulate_model)
    from bioscrape.random import py_seed_random
    kind = spec.get("kind", "ssa")
    grid = np.linspace(0, 2, 9)
    dt = grid[1] - grid[0]
    problems = []
    species, rxns, params, init = _models("delay")[4]
    for safe in (False, True):
        M = Model(species=species, reactions=rxns, parameters=params, initial_condition_dict=init)
        itf = (SafeModelCSimInterface if safe else ModelCSimInterface)(M)
        itf.py_set_initial_time(0.0)
        itf.py_set_dt(dt)
        want0 = [float(init[s_]) for s_ in M.get_species_list()]
        before = (dict(M.get_species_dictionary()), dict(M.get_parameter_dictionary()))
        outs = []
        for rep in range(2):
            py_seed_random(5)
            if kind == "ssa":
                r = SSASimulator().py_simulate(itf, grid.copy())
            elif kind == "delay":
                r = DelaySSASimulator().py_delay_simulate(itf, ArrayDelayQueue.setup_queue(len(rxns), len(grid), dt), grid.copy())
            elif kind == "volume":
                r = VolumeSSASimulator().py_volume_simulate(itf, _mkvol(False), grid.copy())
            else:
                r = DelayVolumeSSASimulator().py_delay_volume_simulate(itf, ArrayDelayQueue.setup_queue(len(rxns), len(grid), dt), _mkvol(False), grid.copy())
            outs.append(np.asarray(r.py_get_result(), dtype=float))
            x_now = [float(v) for v in itf.py_get_initial_state()]
            if x_now != want0:
                problems.append("%s%s run %d changed the interface's initial state: %s -> %s" % (kind, " (safe)" if safe else "", rep + 1, want0, x_now))
                break
            if list(outs[-1][0]) != want0:
                problems.append("%s%s run %d does not start at the initial condition: first row %s, initial condition %s" % (kind, " (safe)" if safe else "", rep + 1, list(outs[-1][0]), want0))
                break
        if len(outs) == 2 and not problems and (outs[0].shape != outs[1].shape or not np.array_equal(outs[0], outs[1])):
            problems.append("%s%s: the same seed on the same interface gives a different second run" % (kind, " (safe)" if safe else ""))
        after = (dict(M.get_species_dictionary()), dict(M.get_parameter_dictionary()))
        if before != after:
            problems.append("%s%s: the run changed the model: %s -> %s" % (kind, " (safe)" if safe else "", before, after))
        # through the entry point, re-using the model
        kw = dict(stochastic=True, delay=kind in ("delay", "delay_volume"), safe=safe)
        if kind in ("volume", "delay_volume"):
            kw["volume"] = 1.5
        M2 = Model(species=species, reactions=rxns, parameters=params, initial_condition_dict=init)
        firsts = []
        for rep in range(2):
            py_seed_random(5)
            df = py_simulate_model(grid.copy(), Model=M2, **kw)
            firsts.append([float(df[s_].iloc[0]) for s_ in M2.get_species_list()])
        if firsts[0] != want0 or firsts[1] != want0:
            problems.append("py_simulate_model(%s) called twice on one model: first rows %s, initial condition %s" % (kw, firsts, want0))
        if problems:
            break
    if not problems:
        # first row = the initial condition with the assignment rules applied (rules of every frequency act at the first instant)
        for safe in (False, True):
            Mr = Model(species=["A", "B", "C"], reactions=[(["A"], [], "massaction", {"k": 0.5}, "fixed", [], ["A"], {"delay": 0.5})],
                       rules=[("assignment", {"equation": "B = 2*A + 3"}, "dt"), ("assignment", {"equation": "C = A + 7"}, "repeated")],
                       initial_condition_dict={"A": 4, "B": 0, "C": 0})
            kw = dict(stochastic=True, delay=kind in ("delay", "delay_volume"), safe=safe)
            if kind in ("volume", "delay_volume"):
                kw["volume"] = 1.5
            py_seed_random(5)
            df = py_simulate_model(grid.copy(), Model=Mr, **kw)
            row = {s_: float(df[s_].iloc[0]) for s_ in ("A", "B", "C")}
            if row != {"A": 4.0, "B": 11.0, "C": 11.0}:
                problems.append("py_simulate_model(%s): first row %s, the initial condition with the assignment rules applied is "
                                "{'A': 4, 'B': 11, 'C': 11}" % (kw, row))
                break
    return {"reproduced": bool(problems), "observed": problems[:3], "expected": "runs start from, and leave alone, the initial condition"}


def replay(spec):
    import warnings
    warnings.simplefilter("ignore")
    if spec.get("facet") == "reuse":
        r = replay_reuse(spec)
        if r.get("reproduced"):
            return r                     # otherwise: the initialisation may still show in the differential battery below
    from bioscrape.types import Model
    from bioscrape.simulator import (ModelCSimInterface, SSASimulator, DelaySSASimulator, VolumeSSASimulator,
                                     DelayVolumeSSASimulator, ArrayDelayQueue)
    from bioscrape.random import py_seed_random, py_uniform_rv
    kind = spec.get("kind", "ssa")
    seeds = spec.get("seeds", 40)
    found = []

    def differ(a, b):
        a, b = np.asarray(a, dtype=float), np.asarray(b, dtype=float)
        return a.shape != b.shape or not np.allclose(a, b, rtol=1e-9, atol=1e-9)

    configs = []
    sc = _scaled(spec)
    if sc is not None:
        configs.append(("scaled",) + sc)
    for mi, mdl in enumerate(_models(kind)):
        for grid in (np.linspace(0, 3, 7), np.linspace(0, 2, 9), np.linspace(1.0, 3.0, 5)) + \
                ((np.array([0.0, 0.1, 0.5, 0.6, 2.0, 4.0]),) if kind == "ssa" else ()):        # one grid starts after the initial time 0
            dt = grid[1] - grid[0]
            qdt = dt
            if kind == "delay_volume" and spec.get("misaligned", True) and len(grid) == 9:
                dt, qdt = 0.37, 0.41        # volume / queue clocks not aligned with the reporting grid
            configs.append((mi, mdl, grid, dt, qdt))
    for mi, (species, rxns, params, init), grid, dt, qdt in configs:
        if True:
            for growing in ((False, True) if kind in ("volume", "delay_volume") else (False,)):
                for seed in range(1, seeds + 1):
                    def fresh():
                        M = Model(species=species, reactions=rxns, parameters=params, initial_condition_dict=init)
                        itf = ModelCSimInterface(M)
                        itf.py_set_initial_time(0.0)
                        itf.py_set_dt(dt)
                        return M, itf
                    M, itf = fresh()
                    U, D = _net(M)
                    why = None
                    try:
                        if kind == "ssa":
                            py_seed_random(seed)
                            real = SSASimulator().py_simulate(itf, grid.copy())
                            py_seed_random(seed)
                            ref = ref_ssa(fresh()[1], U + D, grid, py_uniform_rv)
                            if differ(real.py_get_result(), ref):
                                why = "states differ"
                        elif kind == "delay":
                            py_seed_random(seed)
                            q = ArrayDelayQueue.setup_queue(U.shape[1], len(grid), dt)
                            real = DelaySSASimulator().py_delay_simulate(itf, q, grid.copy())
                            py_seed_random(seed)
                            M2, itf2 = fresh()
                            ref = ref_delay(itf2, M2, U, D, grid, py_uniform_rv, dt)
                            tp = real.py_get_timepoints()
                            if tp is None or differ(tp, grid):
                                why = "result time axis is %r, requested %s" % (tp, list(grid))
                            elif differ(real.py_get_result(), ref):
                                why = "states differ"
                        elif kind == "volume":
                            py_seed_random(seed)
                            v = _mkvol(growing)
                            real = VolumeSSASimulator().py_volume_simulate(itf, v, grid.copy())
                            py_seed_random(seed)
                            v2 = _mkvol(growing)
                            rres, rvol, rt, rdiv = ref_volume(fresh()[1], U + D, v2, grid, py_uniform_rv, dt)
                            if differ(real.py_get_result(), rres):
                                why = "states differ"
                            elif differ(real.py_get_volume(), rvol):
                                why = "volume trace %s, growth law gives %s" % (list(real.py_get_volume())[:6], list(rvol)[:6])
                            elif differ(real.py_get_timepoints(), rt) or bool(real.py_cell_divided()) != rdiv:
                                why = "time axis / divided flag differ"
                        else:
                            py_seed_random(seed)
                            v = _mkvol(growing)
                            q = ArrayDelayQueue.setup_queue(U.shape[1], len(grid), qdt)
                            real = DelayVolumeSSASimulator().py_delay_volume_simulate(itf, q, v, grid.copy())
                            py_seed_random(seed)
                            v2 = _mkvol(growing)
                            M2, itf2 = fresh()
                            rres, rvol, rt, rdiv = ref_delay_volume(itf2, M2, U, D, v2, grid, py_uniform_rv, dt, qdt)
                            if differ(real.py_get_result(), rres):
                                why = "states differ"
                            elif differ(real.py_get_volume(), rvol):
                                why = "volume traces differ"
                    except Exception as e:
                        why = "real build raised %s: %s" % (type(e).__name__, e)
                    if why:
                        found.append({"model": mi, "seed": seed, "grid": [float(g) for g in grid], "growing": growing,
                                      "why": why})
                        break
                if found:
                    break
        if found:
            break
    return {"reproduced": bool(found), "observed": found[:1],
            "expected": "result of the reference %s algorithm on the same random stream" % kind}
