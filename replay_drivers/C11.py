"""Replay driver for C11: loop-level findings by seed search (ssa.replay), rate-law findings by C01's driver,
findings in the growth/division model itself against the real StochasticTimeThresholdVolume."""
import math
import numpy as np
from . import ssa, C01


def _division_time(v, lo, hi):
    """the real object's sampled division time, located through py_cell_divided: division is reported for the step
    (T - dt, T] containing it, so with a step longer than the bracket the answer changes exactly at the division time"""
    z = np.zeros(1)
    big = 4 * (hi - lo) + 1.0
    if not v.py_cell_divided(z, z, hi, 1.0, big):
        return None
    for _ in range(200):
        mid = 0.5 * (lo + hi)
        if v.py_cell_divided(z, z, mid, 1.0, big):
            hi = mid
        else:
            lo = mid
    return hi


def replay_sttv(spec):
    from bioscrape.types import StochasticTimeThresholdVolume
    from bioscrape.random import py_seed_random, py_normal_rv
    z = np.zeros(1)
    problems = []
    for cyc, Vd, noise in ((2.0, 2.0, 0.0), (1.5, 3.0, 0.2), (0.7, 2.5, 0.05)):
        g = 0.69314718056 / cyc
        for t0, V in ((0.0, 1.0), (3.0, 1.0), (7.25, 1.6), (-2.0, 0.8)):
            for seed in (1, 2, 3):
                v = StochasticTimeThresholdVolume(cyc, Vd, noise)
                py_seed_random(seed)
                v.py_initialize(z, z, t0, V)
                py_seed_random(seed)
                want = t0 + py_normal_rv(1.0, noise) * math.log(Vd / V) / g
                if abs(v.py_get_volume() - V) > 0:
                    problems.append("initialize(time=%s, volume=%s) recorded volume %s" % (t0, V, v.py_get_volume()))
                got = _division_time(v, min(t0, want, 0.0) - 50.0, max(t0, want, 0.0) + 50.0)
                if got is None or abs(got - want) > 1e-6:
                    problems.append("cycle=%s Vdiv=%s noise=%s: initialize(time=%s, volume=%s) sampled division time %s, "
                                    "time + Normal(1, noise)*ln(Vdiv/V)/g on the same stream is %s" % (cyc, Vd, noise, t0, V, got, want))
                k = v.py_copy() if hasattr(v, "py_copy") else None
                if k is not None:
                    gk = _division_time(k, min(t0, want, 0.0) - 50.0, max(t0, want, 0.0) + 50.0)
                    if gk is None or got is None or abs(gk - got) > 1e-9 or k.py_get_volume() != v.py_get_volume():
                        problems.append("copy has division time %s / volume %s, original %s / %s" % (gk, k.py_get_volume(), got, v.py_get_volume()))
                for dt in (0.01, 0.25):
                    d = v.py_get_volume_step(z, z, t0, V, dt)
                    if abs((V + d) - V * math.exp(g * dt)) > 1e-12:
                        problems.append("volume step from %s over dt=%s gives %s, V*exp(g*dt) is %s" % (V, dt, V + d, V * math.exp(g * dt)))
                if v.py_get_volume_step(z, z, t0, V, 0.0) != 0:
                    problems.append("a zero-length volume step changes the volume")
                # the reporting window is exactly (T - dt, T]
                if got is not None:
                    for T, dt, exp_ in ((got + 0.05, 0.1, True), (got + 0.2, 0.1, False), (got - 0.05, 0.1, False)):
                        if bool(v.py_cell_divided(z, z, T, V, dt)) != exp_:
                            problems.append("division time %s: cell_divided(time=%s, dt=%s) is %s" % (got, T, dt, not exp_))
            if problems:
                break
        if problems:
            break
    return {"reproduced": bool(problems), "observed": problems[:3],
            "expected": "growth by exp(g*dt) per step, division time = time + Normal(1, noise)*ln(Vdiv/V)/g, reported once in the step containing it"}


def replay_general_volume(spec):
    import numpy as np
    from bioscrape.types import Model
    text = spec["text"]
    bad = []
    for (k, K, A, B, V, t) in ((0.8, 1.5, 6.0, 5.0, 0.25, 0.0), (0.8, 1.5, 6.0, 5.0, 2.5, 1.0), (2.0, 0.5, 1.0, 3.0, 4.0, 0.5)):
        M = Model(species=["A", "B"], parameters=[("k", k), ("K", K)], reactions=[(["A", "B"], [], "general", {"rate": text})])
        p = M.get_propensities()[0]
        idx = M.get_species2index()
        st = np.zeros(2)
        st[idx["A"]], st[idx["B"]] = A, B
        pv = np.array(M.get_parameter_values(), dtype=float)
        got = dict(deterministic=p.py_get_propensity(st.copy(), pv, t), stochastic=p.py_get_stochastic_propensity(st.copy(), pv, t),
                   volume=p.py_get_volume_propensity(st.copy(), pv, V, t), stochastic_volume=p.py_get_stochastic_volume_propensity(st.copy(), pv, V, t))
        for mode, val in got.items():
            want = eval(text.replace("^", "**"), {"__builtins__": {}}, dict(k=k, K=K, A=A, B=B, t=t, volume=V if mode.endswith("volume") else 1.0))
            if not abs(val - want) <= 1e-9 * max(1.0, abs(want)):
                bad.append("rate '%s' at A=%s B=%s V=%s in %s mode: %r, the written formula gives %r" % (text, A, B, V, mode, val, want))
    return {"reproduced": bool(bad), "observed": bad[:3], "expected": "'volume' reads the current volume in the volume-aware modes and 1 otherwise"}


def replay(spec):
    if spec.get("kind") == "general_volume":
        return replay_general_volume(spec)
    if "text" in spec:
        from . import C02
        return C02.replay(spec)
    if spec.get("kind") in ("massaction", "hill"):
        return C01.replay(spec)
    if spec.get("kind") == "sttv":
        r = replay_sttv(spec)
        if r["reproduced"]:
            return r
        spec = dict(spec, kind="volume")
    return ssa.replay(spec)
