"""Replay driver for C06."""
import signal

import numpy as np

from .util import unfrac
from . import ssa


class _Timeout(Exception):
    pass


def _alarm(*a):
    raise _Timeout()


def replay(spec):
    kind = spec.get("kind")
    if kind in ("ssa", "delay", "volume", "delay_volume"):
        return ssa.replay(spec)
    import warnings
    warnings.simplefilter("ignore")
    from bioscrape.types import Model
    from bioscrape.simulator import py_simulate_model
    from bioscrape.random import py_seed_random
    v = unfrac(spec["values"])
    species = ["A", "B", "C"]
    k = max(float(v["k"]), 2.0)      # the rate constant is free (> 0): use one at which reactions actually fire
    init = {s: float(v.get("s_" + s, 0)) for s in species}
    if spec["dre"] or spec["dpr"]:
        rx = (spec["reactants"], spec["products"], "massaction", {"k": k}, "fixed", spec["dre"], spec["dpr"], {"delay": 0.5})
    else:
        rx = (spec["reactants"], spec["products"], "massaction", {"k": k})
    tp = np.linspace(0, 5, 11)
    use_delay = spec.get("sim") == "delay"
    vol = 1.0 if spec.get("mode") == "stochastic_volume" else False
    signal.signal(signal.SIGALRM, _alarm)
    for seed in range(1, 30):
        M = Model(species=species, reactions=[rx], initial_condition_dict=init)
        py_seed_random(seed)
        signal.alarm(8)
        try:
            if use_delay and vol:
                continue
            df = py_simulate_model(tp, Model=M, stochastic=True, delay=use_delay, volume=vol)
            signal.alarm(0)
        except _Timeout:
            return {"reproduced": True, "observed": "simulation of %r from %r did not return within 8 s (seed %d)" % (rx, init, seed),
                    "expected": "a trajectory with non-negative counts"}
        finally:
            signal.alarm(0)
        arr = df[species].to_numpy()
        if (arr < 0).any():
            return {"reproduced": True, "observed": "negative count in trajectory (seed %d): %s" % (seed, arr.min(axis=0).tolist()),
                    "expected": "non-negative counts"}
    return {"reproduced": False, "observed": "no negative count in 29 seeds", "expected": "non-negative counts"}
