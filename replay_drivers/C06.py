"""Replay driver for C06."""
import multiprocessing as mp

import numpy as np

from .util import unfrac
from . import ssa


def _run(q, rx, init, species, use_delay, vol, seed):
    import warnings
    warnings.simplefilter("ignore")
    from bioscrape.types import Model
    from bioscrape.simulator import py_simulate_model
    from bioscrape.random import py_seed_random
    tp = np.linspace(0, 5, 11)
    M = Model(species=species, reactions=[rx], initial_condition_dict=init)
    py_seed_random(seed)
    df = py_simulate_model(tp, Model=M, stochastic=True, delay=use_delay, volume=vol)
    q.put(df[species].to_numpy().min(axis=0).tolist())


def replay_param_rules(spec):
    """a conversion network A + B <-> C, C -> A + B whose rules assign to parameters only: every mode's rows must stay non-negative
    integers with A + C and B + C constant, every step an integer combination of the reaction vectors"""
    import warnings
    warnings.simplefilter("ignore")
    import itertools
    from bioscrape.types import Model
    from bioscrape.simulator import py_simulate_model
    from bioscrape.random import py_seed_random
    rules = []
    for typ, tgt in spec["rules"]:
        if typ == "assignment":
            rules.append(("assignment", {"equation": "%s = 0.05 + 0.01*t + 0.001*volume" % tgt}, "repeated"))
        elif typ == "assignment-dt":
            rules.append(("assignment", {"equation": "%s = 0.05 + 0.001*B" % tgt}, "dt"))
        else:
            rules.append(("ode", {"equation": "0.01 + 0.001*volume", "target": tgt}, "dt"))
    bad = []
    tp = np.linspace(0, 4, 17)
    for stochastic, delay, safe, vol in itertools.product((True,), (False, True), (False, True), (None, 2.0)):
        for seed in (1, 2, 3):
            M = Model(species=["A", "B", "C"], parameters=[("q", 0.3), ("r", 0.2), ("k", 0.1)],
                      reactions=[(["A", "B"], ["C"], "massaction", {"k": "k"}), (["C"], ["A", "B"], "massaction", {"k": "q"}),
                                 (["C"], ["A", "B"], "massaction", {"k": "r"})],
                      rules=rules, initial_condition_dict={"A": 12, "B": 9, "C": 4})
            py_seed_random(seed)
            try:
                df = py_simulate_model(tp, Model=M, stochastic=stochastic, delay=delay, safe=safe, volume=vol)
            except Exception as e:
                bad.append("py_simulate_model(delay=%s, safe=%s, volume=%s) raised %s: %s" % (delay, safe, vol, type(e).__name__, e))
                break
            X = df[["A", "B", "C"]].to_numpy()
            if (X < 0).any() or (X != np.round(X)).any():
                bad.append("delay=%s safe=%s volume=%s seed=%d: non-integer or negative counts, e.g. row %s" % (delay, safe, vol, seed, X[np.argmax((X != np.round(X)).any(axis=1) | (X < 0).any(axis=1))].tolist()))
            elif (X[:, 0] + X[:, 2] != 16).any() or (X[:, 1] + X[:, 2] != 13).any():
                bad.append("delay=%s safe=%s volume=%s seed=%d: A + C or B + C not conserved although no rule targets a species" % (delay, safe, vol, seed))
            if bad:
                break
        if bad:
            break
    return {"reproduced": bool(bad), "observed": bad[:3], "expected": "rules with parameter targets never write species"}


def replay(spec):
    kind = spec.get("kind")
    if kind in ("ssa", "delay", "volume", "delay_volume"):
        return ssa.replay(spec)
    if kind == "param_rules":
        return replay_param_rules(spec)
    if kind == "safe_block":
        # the counterexample's stoichiometry with constant positive (non mass-action) rates: the safe interface must give
        # propensity 0 to every reaction whose immediate or total consumption exceeds the state
        import warnings
        warnings.simplefilter("ignore")
        from bioscrape.types import Model
        from bioscrape.simulator import SafeModelCSimInterface
        v = unfrac(spec["values"])
        S, R = spec["S"], spec["R"]
        names = ["S%d" % i for i in range(S)]
        U = [[int(v.get("U_%d_%d" % (i, j), 0)) for j in range(R)] for i in range(S)]
        D = [[int(v.get("D_%d_%d" % (i, j), 0)) for j in range(R)] for i in range(S)]
        x = [float(int(v.get("x_%d" % i, 0))) for i in range(S)]
        rxs = []
        for j in range(R):
            def side(M_, sign):
                out = []
                for i in range(S):
                    if M_[i][j] * sign > 0:
                        out += [names[i]] * abs(M_[i][j])
                return out
            rxs.append((side(U, -1), side(U, 1), "general", {"rate": "2.5"}, "fixed", side(D, -1), side(D, 1), {"delay": 1.0}))
        M = Model(species=names, reactions=rxs, initial_condition_dict={n: x[i] for i, n in enumerate(names)})
        itf = SafeModelCSimInterface(M)
        idx = M.get_species2index()
        st = np.zeros(S)
        for i, n in enumerate(names):
            st[idx[n]] = x[i]
        a = itf.py_compute_propensities(st, 0.0, float(v.get("V", 1.0)) or 1.0, spec.get("mode", "stochastic"))
        bad = []
        if spec.get("liveness"):
            for j in range(R):
                enough = all(x[i] >= max(-U[i][j], 0) + max(-D[i][j], 0) for i in range(S))
                if enough and abs(a[j] - 2.5) > 1e-12 and not (spec.get("mode") == "stochastic_volume" and abs(a[j] - 2.5) > 1e-12 and False):
                    bad.append("reaction %d (immediate %s, delayed %s) gets propensity %s at state %s although every consumed species is present; "
                               "its rate law gives 2.5" % (j, [U[i][j] for i in range(S)], [D[i][j] for i in range(S)], a[j], x))
            return {"reproduced": bool(bad), "observed": bad[:2], "expected": "the rate law's value when the reactants are present"}
        for j in range(R):
            short = [names[i] for i in range(S) if x[i] + U[i][j] < 0 or x[i] + U[i][j] + D[i][j] < 0]
            if a[j] > 0 and short:
                bad.append("reaction %d (immediate %s, delayed %s) gets propensity %s at state %s although %s is short" %
                           (j, [U[i][j] for i in range(S)], [D[i][j] for i in range(S)], a[j], x, short))
        return {"reproduced": bool(bad), "observed": bad[:2], "expected": "propensity 0 for a reaction without its full complement of reactants"}
    v = unfrac(spec["values"])
    species = ["A", "B", "C"]
    k = max(float(v["k"]), 2.0)      # the rate constant is free (> 0): use one at which reactions actually fire
    init = {s: float(v.get("s_" + s, 0)) for s in species}
    if spec["dre"] or spec["dpr"]:
        rx = (spec["reactants"], spec["products"], "massaction", {"k": k}, "fixed", spec["dre"], spec["dpr"], {"delay": 0.5})
    else:
        rx = (spec["reactants"], spec["products"], "massaction", {"k": k})
    use_delay = spec.get("sim") == "delay"
    vol = 1.0 if spec.get("mode") == "stochastic_volume" else False
    ctx = mp.get_context("fork")
    for seed in range(1, 9):
        q = ctx.Queue()
        p = ctx.Process(target=_run, args=(q, rx, init, species, use_delay, vol, seed))
        p.start()
        p.join(6)
        if p.is_alive():
            p.kill()
            p.join()
            return {"reproduced": True, "observed": "simulation of %r from %r did not return within 6 s (seed %d); the number of "
                                                    "possible firings is bounded" % (rx, init, seed),
                    "expected": "a trajectory with non-negative counts"}
        if p.exitcode != 0:
            return {"reproduced": True, "observed": "simulation of %r from %r died with exit code %s (seed %d)" % (rx, init, p.exitcode, seed),
                    "expected": "a trajectory with non-negative counts"}
        mins = q.get()
        if min(mins) < 0:
            return {"reproduced": True, "observed": "negative count in trajectory (seed %d): minima %s" % (seed, mins),
                    "expected": "non-negative counts"}
    return {"reproduced": False, "observed": "no negative count in 8 seeds", "expected": "non-negative counts"}
