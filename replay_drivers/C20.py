"""Replay driver for C20: differential run of the real ArrayDelayQueue against a dict-of-slots
reference through the public py_* API."""
import numpy as np

from .util import unfrac


def replay(spec):
    from bioscrape.simulator import ArrayDelayQueue
    from bioscrape.random import py_seed_random
    v = unfrac(spec["values"])
    R, C, start, op = spec["R"], spec["C"], spec.get("start", 0), spec["op"]
    dt = float(v["dt"])
    nqt = float(v.get("nqt", dt))
    q = ArrayDelayQueue.setup_queue(R, C, dt)
    if op == "init":
        ok = q.py_get_next_queue_time() == dt
        t0 = float(v.get("t0", 0.0))
        q.py_set_current_time(t0)
        ok = ok and abs(q.py_get_next_queue_time() - (t0 + dt)) < 1e-12
        return {"reproduced": not ok, "observed": q.py_get_next_queue_time(), "expected": t0 + dt}
    if op == "construct":
        bad = []
        for dt_, t0_ in ((dt, float(v.get("t0", 0.25))), (0.5, 0.25), (0.5, -0.75), (0.3, 1.0), (0.25, 1.0)):
            q_ = ArrayDelayQueue(np.zeros((R, C)), dt_, t0_)
            if abs(q_.py_get_next_queue_time() - (t0_ + dt_)) > 1e-12 * max(1.0, abs(t0_ + dt_)):
                bad.append("ArrayDelayQueue(array, dt=%s, current_time=%s): first slot at %r, expected %r" % (dt_, t0_, q_.py_get_next_queue_time(), t0_ + dt_))
        return {"reproduced": bool(bad), "observed": bad[:3], "expected": "first slot one step after the construction time"}
    if op == "retime":
        # an advanced queue with pending entries is given a new clock: the entries must come out at the same distances
        q.py_set_current_time(0.0)
        for _ in range(start):
            q.py_advance_time()
        pend = {}
        for i in range(R):
            for k in range(C):
                amt = float(int(abs(float(v.get("q[%d,%d]" % (i, (k + start) % C), 0.0))) % 5) + (1 if (i + k) % 2 == 0 else 0))
                if amt:
                    q.py_add_reaction(q.py_get_next_queue_time() + k * dt, i, amt)
                    pend[(i, k)] = amt
        t1 = float(v.get("t1", 10.0))
        q.py_set_current_time(t1)
        bad = []
        for k in range(C):
            a = np.zeros(R)
            tq = q.py_get_next_queue_time()
            q.py_get_next_reactions(a)
            for i in range(R):
                if abs(a[i] - pend.get((i, k), 0.0)) > 1e-12:
                    bad.append("after set_current_time(%s) on a queue advanced %d time(s), slot %d (t=%s) delivers %s of reaction %d; %s were pending "
                               "there" % (t1, start, k, tq, a[i], i, pend.get((i, k), 0.0)))
            if abs(tq - (t1 + (k + 1) * dt)) > 1e-9 * max(1.0, abs(tq)):
                bad.append("slot %d is labelled t=%s, expected %s" % (k, tq, t1 + (k + 1) * dt))
            q.py_advance_time()
        return {"reproduced": bool(bad), "observed": bad[:3], "expected": "pending entries keep their distance from the read position"}
    q.py_set_current_time(nqt - dt - start * dt)
    for _ in range(start):
        q.py_advance_time()
    ref = [[0.0] * R for _ in range(C + 2)]
    for i in range(R):
        for j in range(C):
            amt = float(v.get("q[%d,%d]" % (i, j), 0.0))
            k = (j - start) % C
            if amt:
                q.py_add_reaction(nqt + k * dt, i, amt)
                ref[k][i] += amt
    log = []
    others = []
    if op == "add":
        t, a, r = float(v["t"]), float(v["a"]), spec["r"]
        q.py_add_reaction(t, r, a)
        j = min(range(C), key=lambda k: abs(t - (nqt + k * dt)))
        ref[j][r] += a
    elif op == "copy":
        k = q.py_copy()
        k.py_add_reaction(nqt, 0, 1.0)
        k.py_add_reaction(nqt + dt, 0, 3.0)          # stays pending in the copy: must not show up in the original
        k.py_advance_time()
        e = q.py_clear_copy()
        others.append(("clear_copy", e, [[0.0] * R for _ in range(C + 2)]))
    elif op == "partition":
        py_seed_random(12345)
        parts = q.py_binomial_partition(float(v.get("p", 0.5)))
        tot = [[0.0] * R for _ in range(C + 2)]
        for h in parts:
            for s in range(C):
                out = np.zeros(R)
                h.py_get_next_reactions(out)
                if (out < 0).any():
                    log.append("negative count in a part")
                for i in range(R):
                    tot[s][i] += out[i]
                h.py_advance_time()
        for s in range(C):
            for i in range(R):
                if abs(tot[s][i] - ref[s][i]) > 1e-9:
                    log.append("parts sum to %r, original %r at slot %d" % (tot[s][i], ref[s][i], s))
    for name, obj, rf in [("queue", q, ref)] + others:
        out = np.full(R, 99.0)               # one buffer reused for every read, as the simulators do
        for s in range(C + 1):
            want_t = nqt + s * dt
            got_t = obj.py_get_next_queue_time()
            if abs(got_t - want_t) > 1e-9 * max(1.0, abs(want_t)):
                log.append("%s: slot %d is due at %r, expected %r" % (name, s, got_t, want_t))
            obj.py_get_next_reactions(out)
            want = rf[s] if s < C else [0.0] * R
            if any(abs(out[i] - want[i]) > 1e-9 * max(1.0, abs(want[i])) for i in range(R)):
                log.append("%s: slot %d delivers %s, expected %s" % (name, s, list(out), want))
            obj.py_advance_time()
    return {"reproduced": bool(log), "observed": log[:4], "expected": "deliveries equal to the reference schedule"}
