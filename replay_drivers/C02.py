"""Replay driver for C02: the real parse + evaluate against Python's own evaluation of the written formula."""
import math

import numpy as np

from .util import unfrac

SPECIES = ["A", "B_1", "x2", "C", "S", "I"]
PARAMS = ["p", "k", "O", "Q", "N", "E"]


def replay(spec):
    import warnings
    warnings.simplefilter("ignore")
    from bioscrape.types import Model
    if spec.get("kind") == "modes":
        # users of the evaluator: a general rate law in its four modes, a general assignment rule with and without a volume
        Mm = Model(species=["A", "B"], parameters=[("k", 1.5)],
                   reactions=[(["A"], ["B"], "general", {"rate": "k*A*volume + t"})],
                   rules=[("assignment", {"equation": "B = k*A + volume"}, "repeated")])
        p = Mm.get_propensities()[0]
        idx = Mm.get_species2index()
        pv = np.array(Mm.get_parameter_values(), dtype=float)
        bad = []
        for (A, B, t, V) in ((2.0, 1.0, 0.5, 3.0), (7.0, 0.0, 0.0, 0.4), (1.0, 4.0, 2.5, 6.0)):
            st = np.zeros(2)
            st[idx["A"]], st[idx["B"]] = A, B
            got = dict(plain=p.py_get_propensity(st.copy(), pv, t), stochastic=p.py_get_stochastic_propensity(st.copy(), pv, t),
                       volume=p.py_get_volume_propensity(st.copy(), pv, V, t), stochastic_volume=p.py_get_stochastic_volume_propensity(st.copy(), pv, V, t))
            want = dict(plain=1.5 * A + t, stochastic=1.5 * A + t, volume=1.5 * A * V + t, stochastic_volume=1.5 * A * V + t)
            for m_ in want:
                if abs(got[m_] - want[m_]) > 1e-9:
                    bad.append("rate 'k*A*volume + t' at A=%s t=%s V=%s in %s mode: %r, the written law gives %r" % (A, t, V, m_, got[m_], want[m_]))
            from bioscrape.simulator import ModelCSimInterface
            itf = ModelCSimInterface(Mm)
            s1, s2 = st.copy(), st.copy()
            itf.py_apply_repeated_rules(s1, t, True)
            itf.py_apply_repeated_volume_rules(s2, V, t, True)
            if abs(s1[idx["B"]] - (1.5 * A + 1)) > 1e-9 or abs(s2[idx["B"]] - (1.5 * A + V)) > 1e-9 or s1[idx["A"]] != A or s2[idx["A"]] != A:
                bad.append("rule 'B = k*A + volume' at A=%s V=%s: without volume %s, with volume %s" % (A, V, s1.tolist(), s2.tolist()))
        return {"reproduced": bool(bad), "observed": bad[:3], "expected": "'volume' reads 1 without a volume and V with one"}
    text = spec["text"]
    if spec.get("kind") == "growth":
        # state-dependent growth law: one volume step = V*(exp(rate(state, t)*dt) - 1) with the written rate
        from bioscrape.types import StateDependentVolume
        Mg = Model(species=["A", "B"], parameters=[("k", 1.5)])
        v = StateDependentVolume()
        v.setup(10.0, 0.0, text, Mg)
        idx = Mg.get_species2index()
        bad = []
        for (A, B, t, V, dt) in ((2.0, 1.0, 0.5, 3.0, 0.1), (4.0, 0.5, 2.0, 1.5, 0.25), (1.0, 3.0, 7.0, 0.7, 0.05)):
            st = np.zeros(2)
            st[idx["A"]], st[idx["B"]] = A, B
            got = v.py_get_volume_step(st, np.array(Mg.get_parameter_values(), dtype=float), t, V, dt)
            rate = eval(text.replace("^", "**"), {"__builtins__": {}}, dict(A=A, B=B, k=1.5, t=t, exp=math.exp, log=math.log))
            want = V * (math.exp(rate * dt) - 1)
            if not abs(got - want) <= 1e-9 * max(1.0, abs(want)):
                bad.append("growth step %r at A=%s B=%s t=%s V=%s dt=%s, the written law gives %r" % (got, A, B, t, V, dt, want))
        return {"reproduced": bool(bad), "observed": bad[:2], "expected": "V*(exp(rate*dt) - 1)"}
    M = Model(species=SPECIES, parameters=[(p, 1.0) for p in PARAMS])
    if spec.get("kind") == "reject":
        try:
            if spec.get("which") == "model":
                kw = dict(species=["A", "B"], parameters=[("k", 1.0)])
                if spec.get("via") == "rule":
                    kw["rules"] = [("assignment", {"equation": "B = " + text}, "repeated")]
                else:
                    kw["reactions"] = [(["A"], ["B"], "general", {"rate": text})]
                Model(**kw)
            else:
                Model(species=["A", "B"], parameters=[("k", 1.0)]).parse_general_expression(text)
            return {"reproduced": True, "observed": "'%s' accepted" % text, "expected": "rejection"}
        except (ValueError, SyntaxError) as e:
            return {"reproduced": False, "observed": "rejected: %s" % e, "expected": "rejection"}
    v = unfrac(spec["values"])
    sv = np.array([float(v["s_" + s]) for s in M.get_species_list()])
    pd = {p: float(v["p_" + p]) for p in PARAMS}
    pv = np.array([pd[p] for p in M.get_param_list()])
    t, V = float(v["t"]), float(v["V"])
    vol = spec.get("mode") == "volume"
    if spec.get("mode") == "reparse":
        # first a model with the usual species order, then one that declares the species in reverse: same text, same values
        try:
            M.parse_general_expression(text)
            M2 = Model(species=SPECIES[::-1], parameters=[(p, 1.0) for p in PARAMS])
            term = M2.parse_general_expression(text)
        except Exception as e:
            return {"reproduced": True, "observed": "rejected: %s: %s" % (type(e).__name__, e), "expected": "a value"}
        sv = np.array([float(v["s_" + s]) for s in M2.get_species_list()])
        pv = np.array([pd[p] for p in M2.get_param_list()])
    else:
        try:
            term = M.parse_general_expression(text)
        except Exception as e:
            return {"reproduced": True, "observed": "rejected: %s: %s" % (type(e).__name__, e), "expected": "a value"}
    if spec.get("mode") == "step-consistency":
        a_, b_ = term.py_evaluate(sv, pv, t), term.py_volume_evaluate(sv, pv, V, t)
        return {"reproduced": bool(a_ != b_), "observed": "'%s' with every step argument exactly 0: plain evaluation %r, volume-aware evaluation (V = %s) %r" % (text, a_, V, b_),
                "expected": "the same value"}
    got = term.py_volume_evaluate(sv, pv, V, t) if vol else term.py_evaluate(sv, pv, t)
    env = {s: float(v["s_" + s]) for s in SPECIES}
    env.update({("_p" if p == "p" else p): pd[p] for p in PARAMS})
    env.update(t=t, volume=(V if vol else 1.0), exp=math.exp, log=math.log, abs=abs, min=min, max=max,
               Heaviside=lambda x: 1.0 if x > 0 else 0.0, heaviside=lambda x: 1.0 if x > 0 else 0.0)
    try:
        want = eval(text.replace("^", "**").replace("|", "_"), {"__builtins__": {}}, env)
    except (ZeroDivisionError, ValueError, OverflowError) as e:
        return {"reproduced": False, "observed": got, "expected": "formula not finite here (%s)" % e}
    bad = not (math.isfinite(got) and abs(got - want) <= 1e-9 * max(1.0, abs(want)))
    if not bad:
        # the counterexample's own point agrees: look at nearby points whose coordinates are no "nice" binary numbers as well (a loss of
        # precision inside one node does not show at values like 0, 1.5 or 2**-k), with a tolerance of a few units in the last place
        for shift in (0.1234567891, 1.7182818285, 33554433.3):
            sv2, pv2 = sv + shift, pv + shift
            env2 = dict(env)
            for nm_ in list(env2):
                if isinstance(env2[nm_], float) and nm_ not in ("t", "volume"):
                    env2[nm_] = env2[nm_] + shift
            try:
                w2 = eval(text.replace("^", "**").replace("|", "_"), {"__builtins__": {}}, env2)
                g2 = term.py_volume_evaluate(sv2, pv2, V, t) if vol else term.py_evaluate(sv2, pv2, t)
            except (ZeroDivisionError, ValueError, OverflowError):
                continue
            if isinstance(w2, complex) or not math.isfinite(w2) or not math.isfinite(g2):
                continue
            scale = abs(w2) + sum(abs(x) for x in env2.values() if isinstance(x, float))          # allows for cancellation between large operands
            if abs(g2 - w2) > 1e-13 * max(abs(w2), abs(g2)) and abs(g2 - w2) > 2e-16 * scale:
                return {"reproduced": True, "observed": "%r at the point shifted by %s" % (g2, shift), "expected": w2}
    return {"reproduced": bool(bad), "observed": got, "expected": want}
