"""Replay driver for C15: real InferenceSetup on concrete frames; alignment and cost value against a direct computation
with py_simulate_model."""
import numpy as np


def replay(spec):
    import warnings
    warnings.simplefilter("ignore")
    import pandas as pd
    from bioscrape.types import Model
    from bioscrape.inference_setup import InferenceSetup
    from bioscrape.simulator import py_simulate_model
    N, Mm, T, p = spec["N"], spec["M"], spec["T"], spec["p"]
    species = ["X", "Y", "Z"]
    meas = ["Y", "X", "Z"][:Mm]

    with_rule = bool(spec.get("rule"))

    def mk():
        if with_rule:
            # a rule, and a parameter condition that matters: cnd scales the second rate through the general rate law
            return Model(species=species + ["W"],
                         reactions=[(["X"], ["Y"], "massaction", {"k": "k1"}), (["Y"], ["Z"], "general", {"rate": "k2*cnd*Y"})],
                         parameters=[("k1", 0.7), ("k2", 0.3), ("cnd", 1.0)], rules=[("assignment", {"equation": "W = X + cnd*Y"}, "repeated")],
                         initial_condition_dict={"X": 10, "Y": 0, "Z": 0, "W": 0})
        return Model(species=species, reactions=[(["X"], ["Y"], "massaction", {"k": "k1"}), (["Y"], ["Z"], "general", {"rate": "k2*cnd*Y"})],
                     parameters=[("k1", 0.7), ("k2", 0.3), ("cnd", 1.0)], initial_condition_dict={"X": 10, "Y": 0, "Z": 0})
    frames, ics = [], []
    for n in range(N):
        t = np.linspace(0, 1 + n, T)
        cols = {"junk": 900 + np.arange(T), "time": t}
        for j, s in enumerate(species):
            cols[s] = 100 * (n + 1) + 10 * (j + 1) + np.arange(T)
        order = (["junk", "Z", "time", "X", "Y"], ["Y", "time", "junk", "X", "Z"], ["X", "Y", "Z", "junk", "time"])[n % 3]
        frames.append(pd.DataFrame({c: cols[c] for c in order}))
        # the same key sets as the harness: trajectories give different subsets of the species
        full = {"X": 10.0 + n, "Y": 2.0 + n, "Z": 1.0 + n}
        ics.append({k_: full[k_] for k_ in (("X", "Z"), ("Y",), ("Z",), ("X", "Y", "Z"))[n % 4]})
    single = spec.get("single") and N == 1
    cond = spec.get("cond", "none")
    cnds = [1.0 + 0.5 * n for n in range(N)] if cond == "list" else [1.7] * N if cond == "dict" else [1.0] * N
    k2s = [0.3] * N
    kw = {}
    if cond == "list":
        # as in the harness: dictionaries with different keys (0 sets cnd, 1 k2, 2 nothing, 3 both)
        pcl = []
        for n in range(N):
            d_ = {}
            if n % 4 in (0, 3):
                cnds[n] = 1.5 + 0.5 * n
                d_["cnd"] = cnds[n]
            else:
                cnds[n] = 1.0
            if n % 4 in (1, 3):
                k2s[n] = 0.3 + 0.1 * n
                d_["k2"] = k2s[n]
            pcl.append(d_)
        kw["parameter_conditions"] = pcl
    elif cond == "dict":
        kw["parameter_conditions"] = {"cnd": 1.7}
    setup = InferenceSetup(Model=mk(), exp_data=(frames[0] if single else frames), measurements=list(meas), time_column="time",
                           params_to_estimate=["k1"], prior={"k1": ["uniform", 0, 10]},
                           initial_conditions=(ics[0] if single else ics), norm_order=p, sim_type="deterministic", **kw)
    problems = []
    LL = np.asarray(setup.LL_data)
    want = np.array([[[frames[n][meas[m]].iloc[t] for m in range(Mm)] for t in range(T)] for n in range(N)], dtype=float)
    if LL.shape != want.shape or not np.allclose(LL, want):
        problems.append("data array misaligned: LL_data[0] = %s, frame 0 gives %s" % (LL[0].tolist() if LL.ndim == 3 else LL.tolist(), want[0].tolist()))
    theta = 1.3
    got = None
    for th in (theta, 0.0, 10.0):            # an interior point and the two ends of the (closed) support of the uniform prior
        g_ = setup.cost_function([th])
        if got is None:
            got = g_
        tot = 0.0
        for n in range(N):
            M = mk()
            M.set_species(ics[n])
            M.set_params({"k1": th, "cnd": cnds[n], "k2": k2s[n]})
            df = py_simulate_model(frames[n]["time"].to_numpy(), Model=M)
            for m in meas:
                tot += np.sum(np.abs(frames[n][m].to_numpy() - df[m].to_numpy()) ** p)
        exp = np.log(1 / 10.0) - tot ** (1.0 / p)
        if not abs(g_ - exp) <= 1e-6 * max(1.0, abs(exp)):
            problems.append("cost(theta = %s) = %r, stated posterior %r (uniform prior on [0, 10])" % (th, g_, exp))
    got2 = setup.cost_function([0.4])
    got3 = setup.cost_function([theta])
    if abs(got3 - got) > 1e-9 * max(1.0, abs(got)):
        problems.append("cost depends on evaluation history: %r then %r" % (got, got3))
    return {"reproduced": bool(problems), "observed": problems[:3], "expected": "aligned data and stated posterior"}
