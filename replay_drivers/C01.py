"""Replay driver for C01: runs under /venv/bin/python against the real compiled bioscrape built
from the current tree (no z3 / pyxsym imports here)."""
from .util import unfrac

SPECIES = ["A", "B", "C"]


def replay(spec):
    """Runs under /venv/bin/python with the real compiled bioscrape (built from the current tree)."""
    import numpy as np
    if spec.get("kind") == "safe_block":
        from . import C06
        return C06.replay(spec)
    from bioscrape.types import Model
    from bioscrape.simulator import ModelCSimInterface, SafeModelCSimInterface
    vals = unfrac(spec["values"])
    if spec.get("kind") == "massaction_class":
        from bioscrape.types import MassActionPropensity
        reactants = spec["reactants"]
        P = MassActionPropensity()
        P.initialize({"k": "kp", "species": "*".join(reactants)}, {sp: i for i, sp in enumerate(SPECIES)}, {"kp": 0})
        bad = []
        points = [(float(vals["k0"]), float(vals["V"]), [float(vals["s_" + sp]) for sp in SPECIES])]
        points += [(0.37, 0.25, [3.0, 2.0, 5.0]), (0.37, 1.7, [3.0, 2.0, 5.0]), (2.0, 4.0, [1.0, 6.0, 2.0])]
        for k, V, st in points:
            state = dict(zip(SPECIES, st))
            mult = {}
            for r in reactants:
                mult[r] = mult.get(r, 0) + 1
            for mode in ("deterministic", "volume", "stochastic", "stochastic_volume"):
                exp = k
                for sp, m in mult.items():
                    if mode.startswith("stochastic"):
                        for j in range(m):
                            exp *= max(state[sp] - j, 0.0)
                    else:
                        exp *= state[sp] ** m
                if mode.endswith("volume"):
                    exp = exp * V if len(reactants) == 0 else exp / V ** (len(reactants) - 1)
                sv, pv = np.array(st, dtype=float), np.array([k], dtype=float)
                obs = {"deterministic": lambda: P.py_get_propensity(sv, pv, 0.0), "volume": lambda: P.py_get_volume_propensity(sv, pv, V, 0.0),
                       "stochastic": lambda: P.py_get_stochastic_propensity(sv, pv, 0.0),
                       "stochastic_volume": lambda: P.py_get_stochastic_volume_propensity(sv, pv, V, 0.0)}[mode]()
                if not abs(obs - exp) <= 1e-9 * max(1.0, abs(exp)):
                    bad.append("MassActionPropensity[%s] %s at k=%s V=%s state=%s: %r, closed form %r" % ("*".join(reactants) or "0", mode, k, V, st, obs, exp))
        return {"reproduced": bool(bad), "observed": bad[:3], "expected": "closed form"}
    V, t = float(vals["V"]), float(vals["t"])
    mode, route = spec["mode"], spec["route"]
    ri = 0
    if spec["kind"] == "massaction":
        species = spec["species"]
        state = {sp: float(vals["s_" + sp]) for sp in species}
        rxns = spec["rxns"]
        ks = [float(vals["k%d" % i]) for i in range(len(rxns))]
        reactions, params = [], []
        one = {"k": "kp0"}
        if spec.get("shared"):
            ks = [ks[0]] * len(rxns)
        for i, r in enumerate(rxns):
            reactions.append((list(r), [], "massaction", one if spec.get("shared") else {"k": "kp%d" % i} if spec["named"] else {"k": ks[i]}))
            if spec["named"] and not (spec.get("shared") and i):
                params.append(("kp%d" % i, ks[i]))
        try:
            M = Model(species=list(species), reactions=reactions, parameters=params)
        except Exception as e:        # a legal mass-action model must build
            return {"reproduced": True, "observed": "Model(...) raised %s: %s" % (type(e).__name__, e), "expected": "a model"}
        ri = spec["rxn"]
        reactants = rxns[ri]
        k = ks[ri]
        mult = {}
        for r in reactants:
            mult[r] = mult.get(r, 0) + 1
        exp = k
        for sp, m in mult.items():
            if mode.startswith("stochastic"):
                f = 1.0
                for j in range(m):
                    f *= max(state[sp] - j, 0.0)
                exp *= f
            else:
                exp *= state[sp] ** m
        if mode.endswith("volume"):
            exp = exp * V if len(reactants) == 0 else exp / V ** (len(reactants) - 1)
        if route == "safe" and mode.startswith("stochastic") and any(state[s] < m for s, m in mult.items()):
            exp = 0.0
    else:
        k = float(vals["k"])
        state = {sp: float(vals["s_" + sp]) for sp in SPECIES}
        K = float(vals["K"])
        n = float(vals["n"]) if spec["n"] == "sym" else float(spec["n"])
        ptype = spec["ptype"]
        named = spec["named"]
        pd = {"k": "kk" if named else k, "K": "KK" if named else K, "n": "nn" if named else n, "s1": spec["s1"]}
        if "proportional" in ptype:
            pd["d"] = spec["d"]
        M = Model(species=list(SPECIES), reactions=[([spec["consumed"]] if spec["consumed"] else [], ["C"], ptype, pd)],
                  parameters=[("kk", k), ("KK", K), ("nn", n)] if named else [])
        x = state[spec["s1"]] / V if mode.endswith("volume") else state[spec["s1"]]
        h = (x / K) ** n
        exp = k * h / (1 + h) if "positive" in ptype else k / (1 + h)
        if "proportional" in ptype:
            exp *= state[spec["d"]]
        if route == "safe" and mode.startswith("stochastic") and spec["consumed"] and state[spec["consumed"]] < 1:
            exp = 0.0
    sv = np.array([state[s] for s in M.get_species_list()], dtype=float)
    if route == "bare":
        p = M.get_propensities()[ri]
        pv = np.array(M.get_parameter_values(), dtype=float)
        if mode == "deterministic":
            obs = p.py_get_propensity(sv, pv, t)
        elif mode == "volume":
            obs = p.py_get_volume_propensity(sv, pv, V, t)
        elif mode == "stochastic":
            obs = p.py_get_stochastic_propensity(sv, pv, t)
        else:
            obs = p.py_get_stochastic_volume_propensity(sv, pv, V, t)
    else:
        itf = (SafeModelCSimInterface if route == "safe" else ModelCSimInterface)(M)
        obs = float(itf.py_compute_propensities(sv, t, V, mode)[ri])
    bad = not (abs(obs - exp) <= 1e-9 * max(1.0, abs(exp)))
    return {"reproduced": bool(bad), "observed": obs, "expected": exp}
