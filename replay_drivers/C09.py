"""Replay driver for C09: obligation-specific concrete scenarios on the real build (exactly representable
steps).  kind = kernel | interface | scenario | ssa | delay | volume | delay_volume."""
import numpy as np

from .util import unfrac

RULESETS = [
    (["A", "B", "C"], ["k", "q"],
     [("assignment", {"equation": "B = k*A + 1"}, "repeated"), ("additive", {"equation": "C = A + B"}, "repeated"),
      ("assignment", {"equation": "q = C^2"}, "repeated")]),
    (["A", "B", "C"], ["k", "q"],
     [("additive", {"equation": "C = A + B"}, "repeated"), ("assignment", {"equation": "B = k*A + 1"}, "repeated"),
      ("ode", {"equation": "k*C", "target": "A"}, "dt")]),
    (["A", "B", "C"], ["k", "q"],
     [("assignment", {"equation": "A = q + t"}, "dt"), ("assignment", {"equation": "B = A*volume"}, "repeated"),
      ("assignment", {"equation": "_q = B - 1"}, "start")]),
    (["A", "B", "C"], ["k", "q"],
     [("additive", {"equation": "C = A + B"}, None), ("ode", {"equation": "k*C", "target": "A"}, None)]),
    # a parameter target whose right-hand side mentions the volume and the time; a species rule that reads it
    (["A", "B", "C"], {"k": None, "q": None},
     [("assignment", {"equation": "q = k*volume + t"}, "repeated"), ("assignment", {"equation": "B = q + A"}, "repeated"),
      ("assignment", {"equation": "k = A*volume"}, "dt")]),
    # additive rules whose target is one of their own sources (accumulators)
    (["A", "B", "C"], {"k": None, "q": None},
     [("additive", {"equation": "C = C + A"}, "dt"), ("additive", {"equation": "B = A + B"}, "repeated"), ("additive", {"equation": "A = B + A + A"}, "dt")]),
]


def _oracle(rules, sp, pa, t, dt, rs, V):
    sp, pa = dict(sp), dict(pa)
    for typ, d, freq in rules:
        if freq is None:
            freq = "dt" if typ == "ode" else "repeated"
        fires = freq in ("repeated", "repeat") or (freq == "dt" and rs) or (freq == "start" and t == 0)
        env = dict(sp)
        env.update(pa)
        env.update(t=t, volume=(V if V is not None else 1.0))
        if typ == "ode":
            tgt = d["target"]
            new = (sp[tgt] if tgt in sp else pa[tgt]) + eval(d["equation"].replace("^", "**"), {}, env) * dt
        else:
            lhs, rhs = [x.strip() for x in d["equation"].split("=")]
            tgt = lhs.lstrip("_")
            new = eval(rhs.replace("^", "**"), {}, env)
        if fires:
            if tgt in sp:
                sp[tgt] = new
            else:
                pa[tgt] = new
    return sp, pa


def _check_rows(df, dt, log, tag, ode=True, counter=True, assign=True):
    X = df["X"].to_numpy()
    if ode:
        inc = np.diff(X)[1:]
        if len(inc) and not np.allclose(inc, dt, rtol=0, atol=1e-12):
            log.append("%s: ode rule dX/dt=1 advances X by %s per reported step, expected %s" % (tag, sorted(set(np.round(inc, 12)))[:4], dt))
    if counter and "N" in df:
        inc = np.diff(df["N"].to_numpy())[1:]
        if len(inc) and not np.allclose(inc, 1.0, rtol=0, atol=1e-12):
            log.append("%s: dt rule N = N + 1 ran %s times per reported step, expected once" % (tag, sorted(set(np.round(inc, 12)))[:4]))
    if assign and "Y" in df:
        if not np.allclose(df["Y"].to_numpy(), 2 * df["A"].to_numpy() + 1, rtol=0, atol=1e-9):
            log.append("%s: repeated assignment Y = 2*A + 1 violated on a reported row" % tag)
    if "Z" in df:
        Z, t = df["Z"].to_numpy(), df["time"].to_numpy()
        want = np.where(t > 1.5, 7.0, 0.0)
        if not np.allclose(Z, want):
            log.append("%s: rule scheduled for t=1.5 must leave rows up to t=1.5 untouched and govern later rows; Z=%s" % (tag, Z.tolist()))


def _scenarios(modes, n_init=1):
    import warnings
    warnings.simplefilter("ignore")
    from bioscrape.types import Model
    from bioscrape.simulator import py_simulate_model
    from bioscrape.random import py_seed_random
    log = []
    dt = 0.5
    tp = np.arange(0, 6, dt)
    rules = [("ode", {"equation": "1", "target": "X"}), ("assignment", {"equation": "N = N + 1"}, "dt"),
             ("assignment", {"equation": "Y = 2*A + 1"}, "repeated"), ("assignment", {"equation": "Z = 7"}, 1.5)]

    def mk(cls, with_rxn):
        rx = [([], ["A"], "massaction", {"k": 3.0}), (["A"], [], "massaction", {"k": 1.0})] if with_rxn is True else []
        if with_rxn == "decay":          # the network runs out of reactions after a few firings: total propensity exactly 0 from then on
            rx = [(["A"], [], "massaction", {"k": 3.0})]
        M = cls(species=["A", "X", "N", "Y", "Z"], reactions=rx, rules=[tuple(r) for r in rules],
                initial_condition_dict={"A": 2 if with_rxn else 0, "X": 0, "N": 0, "Y": 0, "Z": 0})
        for _ in range(n_init - 1):
            M.py_initialize()
        return M
    kws = {"stochastic": dict(stochastic=True), "safe": dict(stochastic=True, safe=True),
           "volume": dict(stochastic=True, volume=1.0), "delay": dict(stochastic=True, delay=True)}
    for name in modes:
        if name in kws:
            for with_rxn in (False, True, "decay"):
                for seed in (1, 2, 3):
                    py_seed_random(seed)
                    try:
                        df = py_simulate_model(tp, Model=mk(Model, with_rxn), **kws[name])
                    except Exception as e:
                        log.append("%s: raised %s: %s" % (name, type(e).__name__, e))
                        break
                    _check_rows(df, dt, log, "%s%s" % (name, " (decay to exhaustion)" if with_rxn == "decay" else "" if with_rxn else " (no reactions)"))
                    if log:
                        return log
        elif name == "deterministic":
            df = py_simulate_model(tp, Model=mk(Model, True), stochastic=False)
            _check_rows(df, dt, log, "deterministic", ode=False, counter=False)
        elif name == "lineage":
            from bioscrape.lineage import LineageModel, py_SimulateSingleCell
            for with_rxn in (False, True, "decay"):
                py_seed_random(5)
                df = py_SimulateSingleCell(tp, Model=mk(LineageModel, with_rxn))
                _check_rows(df, dt, log, "lineage single cell%s" % (" (decay to exhaustion)" if with_rxn == "decay" else "" if with_rxn else " (no reactions)"))
        if log:
            return log
    return log


def replay(spec):
    import warnings
    warnings.simplefilter("ignore")
    kind = spec.get("kind", "scenario")
    if kind == "kernel":
        from bioscrape.types import Model
        v = unfrac(spec["values"])
        which, flag = spec["which"], spec["flag"]
        freq = {"repeat": "repeated", "dt": "dt", "time": v.get("tfire", 1.0)}[flag]
        eqs = {"additive": ("additive", {"equation": "C = A + B + A"}), "assign_s": ("assignment", {"equation": "B = A*p0 + 2"}),
               "assign_p": ("assignment", {"equation": "p1 = A*p0 + 2"}), "ode_s": ("ode", {"equation": "A*p0 + 2", "target": "B"}),
               "ode_p": ("ode", {"equation": "A*p0 + 2", "target": "p1"})}
        typ, d = eqs[which]
        M = Model(species=["A", "B", "C"], parameters=[("p0", 1.0), ("p1", 1.0)], rules=[(typ, d, freq)])
        st = np.array([float(v["x0"]), float(v["x1"]), float(v["x2"])])
        pv = np.array([float(v["p0"]), float(v["p1"])])
        t, dt, rs = float(v["t"]), float(v["dt"]), bool(v["rs"])
        fires = flag == "repeat" or (flag == "dt" and rs) or (flag == "time" and t == float(freq)) or which.startswith("ode") and rs
        es, ep = st.copy(), pv.copy()
        rhs = st[0] * pv[0] + 2
        if fires:
            if which == "additive":
                es[2] = st[0] + st[1] + st[0]
            elif which == "assign_s":
                es[1] = rhs
            elif which == "assign_p":
                ep[1] = rhs
            elif which == "ode_s":
                es[1] = st[1] + rhs * dt
            else:
                ep[1] = pv[1] + rhs * dt
        itf_rule = M.get_params2index()
        from bioscrape.simulator import ModelCSimInterface
        itf = ModelCSimInterface(M)
        itf.py_set_dt(dt)
        itf.py_set_param_values(pv)
        if spec.get("vol"):
            itf.py_apply_repeated_volume_rules(st, float(v["V"]), t, rs)
        else:
            itf.py_apply_repeated_rules(st, t, rs)
        bad = not (np.allclose(st, es) and np.allclose(pv, ep))
        return {"reproduced": bool(bad), "observed": [st.tolist(), pv.tolist()], "expected": [es.tolist(), ep.tolist()]}
    if kind == "interface":
        from bioscrape.types import Model
        from bioscrape.simulator import ModelCSimInterface
        v = unfrac(spec["values"])
        species, params, rules = RULESETS[spec["idx"]]
        sp = {s: float(v["s_" + s]) for s in species}
        pa = {p: float(v["p_" + p]) for p in params}
        if spec["model"] == "lineage":
            from bioscrape.lineage import LineageModel as Cls
        else:
            Cls = Model
        M = Cls(species=species, parameters=list(pa.items()), rules=[(a, dict(b), c) if c is not None else (a, dict(b)) for a, b, c in rules], initial_condition_dict=sp)
        for _ in range(spec.get("n_init", 1) - 1):
            M.py_initialize()
        itf = ModelCSimInterface(M)
        t, dt, rs, V = float(v["t"]), float(v["dt"]), bool(v["rs"]), float(v["V"])
        itf.py_set_dt(dt)
        st = np.array([sp[s] for s in M.get_species_list()])
        if spec.get("vol"):
            itf.py_apply_repeated_volume_rules(st, V, t, rs)
        else:
            itf.py_apply_repeated_rules(st, t, rs)
        es, ep = _oracle(rules, sp, pa, t, dt, rs, V if spec.get("vol") else None)
        got_p = dict(zip(M.get_param_list(), itf.py_get_param_values()))
        bad = not (np.allclose(st, [es[s] for s in M.get_species_list()]) and all(abs(got_p[p] - ep[p]) < 1e-9 * max(1, abs(ep[p])) for p in params))
        return {"reproduced": bool(bad), "observed": [st.tolist(), got_p], "expected": [es, ep]}
    modes = spec.get("modes")
    if modes is None:
        modes = {"ssa": ["stochastic", "safe"], "delay": ["delay"], "volume": ["volume"], "delay_volume": []}.get(kind, ["stochastic"])
    log = _scenarios(modes, spec.get("n_init", 1))
    return {"reproduced": bool(log), "observed": log[:3], "expected": "rules hold on every row / fire once per reported step"}
