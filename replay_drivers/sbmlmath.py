"""Independent evaluator of libsbml math ASTs ("plain SBML mathematics").  Works on floats and, through
operator overloading plus the `ops` table, on symbolic values.  No bioscrape code is used here."""
import math


class FloatOps:
    @staticmethod
    def pow(a, b):
        return a ** b

    exp = staticmethod(math.exp)
    log = staticmethod(math.log)
    abs = staticmethod(abs)
    min = staticmethod(min)
    max = staticmethod(max)

    @staticmethod
    def const(x):
        return float(x)


class UndefinedIdentifier(Exception):
    pass


def evaluate(ast, env, ops=FloatOps):
    import libsbml as L
    t = ast.getType()
    kids = [ast.getChild(i) for i in range(ast.getNumChildren())]
    if t == L.AST_NAME:
        n = ast.getName()
        if n not in env:
            raise UndefinedIdentifier(n)
        return env[n]
    if t == L.AST_NAME_TIME:
        return env["__time__"]
    if t == L.AST_INTEGER:
        return ast.getInteger()
    if t == L.AST_REAL or t == L.AST_REAL_E:
        return ops.const(ast.getReal())
    if t == L.AST_RATIONAL:
        return ops.const(ast.getNumerator()) / ast.getDenominator()
    vals = [evaluate(k, env, ops) for k in kids]
    if t == L.AST_PLUS:
        tot = 0
        for v in vals:
            tot = tot + v
        return tot
    if t == L.AST_TIMES:
        tot = 1
        for v in vals:
            tot = tot * v
        return tot
    if t == L.AST_MINUS:
        return -vals[0] if len(vals) == 1 else vals[0] - vals[1]
    if t == L.AST_DIVIDE:
        return vals[0] / vals[1]
    if t in (L.AST_POWER, L.AST_FUNCTION_POWER):
        return ops.pow(vals[0], vals[1])
    if t == L.AST_FUNCTION_EXP:
        return ops.exp(vals[0])
    if t == L.AST_FUNCTION_LN:
        return ops.log(vals[0])
    if t == L.AST_FUNCTION_ABS:
        return ops.abs(vals[0])
    if t == L.AST_FUNCTION_MIN:
        return ops.min(*vals)
    if t == L.AST_FUNCTION_MAX:
        return ops.max(*vals)
    if t == L.AST_FUNCTION_ROOT and len(vals) == 2:
        return ops.pow(vals[1], 1 / vals[0])
    raise ValueError("unsupported SBML math node type %s (%s)" % (t, L.formulaToL3String(ast)))


def names_in(ast, out=None):
    import libsbml as L
    out = set() if out is None else out
    if ast.getType() == L.AST_NAME:
        out.add(ast.getName())
    for i in range(ast.getNumChildren()):
        names_in(ast.getChild(i), out)
    return out
