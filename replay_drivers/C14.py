"""Replay driver for C14: real export, law evaluated numerically by the independent AST evaluator."""
import math

import numpy as np

from .util import unfrac
from .sbmlmath import evaluate, names_in, UndefinedIdentifier

SPECIES = ["A", "B", "C"]


def replay(spec):
    import warnings
    warnings.simplefilter("ignore")
    from bioscrape.types import Model
    ptype, sp, stochastic = spec["ptype"], spec["spec"], spec["stochastic"]
    values = {"k": 0.000123456789012, "K": 2.5000001234567, "n": 2.0}
    params = []
    if ptype == "massaction":
        pd = {"k": "kf"} if sp["named"] else {"k": values["k"]}
        if sp["named"]:
            params.append(("kf", values["k"]))
    elif ptype == "general":
        pd = {"rate": sp["rate"]}
        params.append(("kg", values["k"]))
    else:
        if sp["named"] == "roles":
            pd = {"k": "kf", "K": "KH", "n": "nH"}
            params += [("kf", values["k"]), ("KH", values["K"]), ("nH", values["n"])]
        elif sp["named"] == "n":
            pd = {"k": "k", "K": "K", "n": "n"}
            params += [("k", values["k"]), ("K", values["K"]), ("n", values["n"])]
        else:
            pd = {"k": values["k"], "K": values["K"], "n": values["n"]}
        pd["s1"] = sp["s1"]
        if "proportional" in ptype:
            pd["d"] = sp["d"]
    rx = (sp["reactants"], sp["products"], ptype, pd)
    if sp.get("delay"):
        fam, dre, dpr = sp["delay"]
        rx = rx + (fam, list(dre), list(dpr), {"fixed": {"delay": 0.5}, "gaussian": {"mean": 2.0, "std": 0.25}, "gamma": {"k": 3.0, "theta": 0.5}}[fam])
    ri, rxs = 0, [rx]
    if sp.get("shared_first") is not None:
        rxs, ri = [(list(sp["shared_first"]), ["C"], ptype, rx[3]), rx], 1
    M = Model(species=SPECIES, reactions=rxs, parameters=params,
              initial_condition_dict={"A": 3, "B": 4, "C": 0})
    import libsbml
    if spec.get("via") == "file":
        # the written file, not the in-memory document
        import os
        import tempfile
        fd, path = tempfile.mkstemp(suffix=".xml")
        os.close(fd)
        try:
            M.write_sbml_model(path, stochastic_model=stochastic)
            doc = libsbml.readSBMLFromFile(path)
        finally:
            os.unlink(path)
        sm = doc.getModel()
    else:
        doc, sm = M.generate_sbml_model(stochastic_model=stochastic)
    if spec.get("aspect") == "parameter-values":
        mp = M.get_parameter_dictionary()
        bad = []
        for p_ in sm.getListOfParameters():
            nm_ = p_.getId() if p_.getId() in mp else "_" + p_.getId()
            if nm_ in mp and float(p_.getValue()) != float(mp[nm_]):
                bad.append("parameter %s is exported as %r, the model has %r" % (p_.getId(), p_.getValue(), float(mp[nm_])))
        return {"reproduced": bool(bad), "observed": bad[:3], "expected": "the model's parameter values"}
    law = sm.getReaction(ri).getKineticLaw().getMath()
    text = libsbml.formulaToL3String(law)
    env = {}
    v = unfrac(spec.get("values", {}))
    state = {s: float(v.get("s_" + s, 2.0 + i)) for i, s in enumerate(SPECIES)}
    env.update(state)
    for p in sm.getListOfParameters():
        env[p.getId()] = p.getValue()
    pv = np.array(M.get_parameter_values(), dtype=float)
    prop = M.get_propensities()[ri]
    bad = False
    # the counterexample's state first, then a few ordinary states (the rate constant is small: compare relatively)
    for state in [state, dict(zip(SPECIES, (3.0, 4.0, 1.0))), dict(zip(SPECIES, (1.0, 1.0, 0.0))), dict(zip(SPECIES, (7.0, 2.0, 5.0)))]:
        env.update(state)
        try:
            got = evaluate(law, env)
        except UndefinedIdentifier as e:
            return {"reproduced": True, "observed": "kinetic law '%s' refers to undefined identifier %s" % (text, e), "expected": "defined identifiers"}
        sv = np.array([state[s] for s in M.get_species_list()], dtype=float)
        want = prop.py_get_stochastic_propensity(sv, pv, 0.0) if stochastic else prop.py_get_propensity(sv, pv, 0.0)
        bad = not (abs(got - want) <= 1e-9 * max(abs(got), abs(want)) + 1e-300)
        if bad:
            break
    r = sm.getReaction(ri)
    st_ok = {x.getSpecies(): x.getStoichiometry() for x in r.getListOfReactants()} == {s: sp["reactants"].count(s) for s in set(sp["reactants"])} \
        and {x.getSpecies(): x.getStoichiometry() for x in r.getListOfProducts()} == {s: sp["products"].count(s) for s in set(sp["products"])}
    return {"reproduced": bool(bad or not st_ok), "observed": "law '%s' = %r at %s; stoichiometry ok=%s" % (text, got, state, st_ok),
            "expected": "model rate %r" % want}
