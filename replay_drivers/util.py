def unfrac(v):
    """inverse of harness.common.jsonable for numbers."""
    if isinstance(v, dict) and "frac" in v:
        return v["frac"][0] / v["frac"][1]
    if isinstance(v, list):
        return [unfrac(x) for x in v]
    if isinstance(v, dict):
        return {k: unfrac(x) for k, x in v.items()}
    return v


def close(a, b, rtol=1e-9, atol=1e-12):
    return abs(a - b) <= atol + rtol * max(abs(a), abs(b))
