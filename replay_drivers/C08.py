"""Replay driver for C08: concrete histories on the real build, compared with a freshly built model."""
import numpy as np


def _args():
    return dict(species=["A", "B", "C"],
                reactions=[(["A", "A"], ["B"], "massaction", {"k": "k1"}),
                           (["B"], [], "massaction", {"k": 0.5}, "fixed", [], ["C"], {"delay": "tau"}),
                           (["C"], ["A"], "general", {"rate": "k1*C/(1 + A)"})],
                parameters=[("k1", 1.5), ("tau", 0.25)],
                rules=[("assignment", {"equation": "C = A + B"}, "repeated")], initial_condition_dict={"A": 30, "B": 4})


def replay(spec):
    import warnings
    warnings.simplefilter("ignore")
    from bioscrape.types import Model
    from bioscrape.simulator import py_simulate_model, ModelCSimInterface, SSASimulator
    from bioscrape.random import py_seed_random
    problems = []
    tp = np.arange(0, 3, 0.25)
    kind = spec.get("kind")
    if spec.get("facet") == "reuse":
        from .ssa import replay_reuse
        return replay_reuse(spec)
    if kind == "interface_reuse":
        # one interface object handed to several simulations in a row (every mode): each run equals the first one on the same seed
        from bioscrape.simulator import SafeModelCSimInterface
        a = _args()
        for cls in (ModelCSimInterface, SafeModelCSimInterface):
            for kw in (dict(stochastic=False), dict(stochastic=True), dict(stochastic=True, delay=True), dict(stochastic=True, volume=1.5)):
                M = Model(**a)
                itf = cls(M)
                outs = []
                for rep in range(3):
                    py_seed_random(3)
                    outs.append(py_simulate_model(tp, Interface=itf, **kw).to_numpy())
                for rep in (1, 2):
                    if outs[rep].shape != outs[0].shape or not np.allclose(outs[rep], outs[0], equal_nan=True):
                        problems.append("py_simulate_model(%s, Interface=one %s) run %d differs from run 1 (row at t=%s: %s vs %s)"
                                        % (kw, cls.__name__, rep + 1, tp[5], outs[rep][5].tolist(), outs[0][5].tolist()))
                        break
        return {"reproduced": bool(problems), "observed": problems[:2], "expected": "the same output every time"}
    if kind == "twice":
        # the same model simulated twice (every mode): the second run equals the first and equals a fresh model's
        a = dict(_args(), rules=_args()["rules"] + [("assignment", {"equation": "A = 40"}, 1.0), ("additive", {"equation": "B = A + A"}, "start")])
        for kw in (dict(stochastic=True), dict(stochastic=False), dict(stochastic=True, safe=True), dict(stochastic=True, volume=1.5),
                   dict(stochastic=True, delay=True)):
            M = Model(**a)
            outs = []
            for rep in range(2):
                py_seed_random(3)
                outs.append(py_simulate_model(tp, Model=M, **kw).to_numpy())
            py_seed_random(3)
            fresh = py_simulate_model(tp, Model=Model(**a), **kw).to_numpy()
            if outs[0].shape != outs[1].shape or not np.allclose(outs[0], outs[1], equal_nan=True):
                problems.append("py_simulate_model(%s) twice on one model: the second result differs from the first (row at t=%s: %s vs %s)"
                                % (kw, tp[5], outs[1][5].tolist(), outs[0][5].tolist()))
            elif not np.allclose(outs[0], fresh, equal_nan=True):
                problems.append("py_simulate_model(%s): a fresh model gives a different result" % kw)
        return {"reproduced": bool(problems), "observed": problems[:2], "expected": "the same output every time"}
    if kind == "follow":
        # an interface built earlier, the model's values edited afterwards: simulating through the old interface must equal a
        # fresh model with the new values
        from bioscrape.simulator import SafeModelCSimInterface, DeterministicSimulator
        for safe in (bool(spec.get("safe")),):
            M = Model(**_args())
            itf = (SafeModelCSimInterface if safe else ModelCSimInterface)(M)
            if spec.get("reinit"):
                M.py_initialize()
            if spec.get("what") == "species":
                M.set_species({"A": 12.0})
                ref_kw = dict(_args(), initial_condition_dict={"A": 12.0, "B": 4})
                F = Model(**ref_kw)
            else:
                M.set_params({"k1": 0.4})
                F = Model(**_args())
                F.set_params({"k1": 0.4})
            py_seed_random(3)
            got = py_simulate_model(tp, Interface=itf, stochastic=True).to_numpy()
            py_seed_random(3)
            want = py_simulate_model(tp, Model=F, stochastic=True).to_numpy()
            if got.shape != want.shape or not np.allclose(got, want):
                problems.append("simulating through an interface built before the edit: first row %s, a fresh model with the same values gives %s"
                                % (got[0].tolist(), want[0].tolist()))
        return {"reproduced": bool(problems), "observed": problems[:2], "expected": "the interface follows the model"}
    if kind == "rng_history":
        import bioscrape.random as R
        seed = int(spec.get("seed", 12345))
        draws = {"uniform": lambda: R.py_uniform_rv(), "normal": lambda: R.py_normal_rv(0.0, 1.0),
                 "exponential": lambda: R.py_exponential_rv(2.0), "erlang": lambda: R.py_erlang_rv(2, 1.0),
                 "gamma": lambda: R.py_gamma_rv(2.0, 1.0), "binomial": lambda: R.py_binom_rnd(3, 1.0 / 3),
                 "rand_int": lambda: R.py_rand_int(), "approx_binomial": lambda: R.py_approx_binom_rnd(40, 0.3)}
        histories = [[], ["normal"], ["uniform"], ["normal", "normal", "normal"], ["gamma"], ["approx_binomial"],
                     ["binomial", "normal"], ["erlang", "exponential", "normal", "uniform", "rand_int"]]
        ref = None
        for h in histories:
            py_seed_random(seed + 1)
            for nm in h:
                draws[nm]()
            py_seed_random(seed)
            got = {nm: [] for nm in draws}
            for nm in sorted(draws):
                py_seed_random(seed)
                got[nm] = [draws[nm]() for _ in range(3)]
            if ref is None:
                ref = got
            else:
                for nm in sorted(draws):
                    if got[nm] != ref[nm]:
                        problems.append("seed %d then 3 x %s gives %s after the history %s, but %s with no history" % (seed, nm, got[nm], h, ref[nm]))
            if problems:
                break
        return {"reproduced": bool(problems), "observed": problems[:3], "expected": "seeded draws independent of earlier draws"}
    if kind == "rng":
        from bioscrape.random import py_rand_int
        seed = int(spec["seed"])
        M64 = (1 << 64) - 1
        mt = [seed & M64]
        for i in range(1, 312):
            mt.append((6364136223846793005 * (mt[i - 1] ^ (mt[i - 1] >> 62)) + i) & M64)
        idx = 312
        py_seed_random(seed)
        for k in range(700):
            if idx >= 312:
                for i in range(312):
                    x = (mt[i] & 0xFFFFFFFF80000000) | (mt[(i + 1) % 312] & 0x7FFFFFFF)
                    mt[i] = mt[(i + 156) % 312] ^ (x >> 1) ^ (0xB5026F5AA96619E9 if x & 1 else 0)
                idx = 0
            x = mt[idx]
            idx += 1
            x ^= (x >> 29) & 0x5555555555555555
            x ^= (x << 17) & 0x71D67FFFEDA60000
            x ^= (x << 37) & 0xFFF7EEE000000000
            x ^= (x >> 43)
            got = py_rand_int()
            if got != (x & M64):
                problems.append("output %d for seed %d is %d, MT19937-64 gives %d" % (k, seed, got, x & M64))
                break
        return {"reproduced": bool(problems), "observed": problems, "expected": "MT19937-64 stream"}
    if kind == "reinit" and spec.get("which") == "lineage":
        from bioscrape.lineage import LineageModel, LineageVolumeSplitter, py_SimulateSingleCell

        def mk(staged=False):
            M = LineageModel(species=["A", "X"], reactions=[([], ["A"], "massaction", {"k": 3.0}), (["A"], [], "massaction", {"k": 1.0})],
                             rules=[("ode", {"equation": "1", "target": "X"})], initial_condition_dict={"A": 5, "X": 0}, initialize_model=False)
            M.create_volume_rule("ode", {"equation": "volume*0.5"})
            M.create_volume_event("linear volume", {"growth_rate": 0.5}, "massaction", {"k": 2.0, "species": ""})
            if staged:
                M.py_initialize()
            M.create_death_event("death", {}, "massaction", {"k": 0.3, "species": ""})
            return M
        outs = []
        if spec.get("how") == "staged":
            variants = [dict(staged=False, n=1), dict(staged=True, n=1)]
        else:
            variants = [dict(staged=False, n=1), dict(staged=False, n=3)]
        for v_ in variants:
            M = mk(v_["staged"])
            for _ in range(v_["n"]):
                M.py_initialize()
            rows = []
            for seed in (7, 8, 9):
                py_seed_random(seed)
                df = py_SimulateSingleCell(tp, Model=M)
                rows.append(df[["A", "X", "volume"]].to_numpy())
            outs.append(rows)
        for a, b in zip(outs[0], outs[1]):
            if a.shape != b.shape or not np.allclose(a, b):
                problems.append("lineage model reached through %s simulates differently from the model built and initialised once: "
                                "last rows %s vs %s" % ("two stages around an initialisation" if spec.get("how") == "staged" else "three initialisations",
                                                        b[-1].tolist(), a[-1].tolist()))
                break
        return {"reproduced": bool(problems), "observed": problems, "expected": "same output"}

    def sim(M, stochastic, **kw):
        py_seed_random(3)
        return py_simulate_model(tp, Model=M, stochastic=stochastic, **kw).to_numpy()
    fresh = Model(**_args())
    ref_s, ref_d = sim(fresh, True), sim(fresh, False)
    # history: incremental edits, repeated initialisation, earlier simulations, interfaces
    a = _args()
    H = Model(species=["A"], initialize_model=False)
    H.py_initialize()
    for s in ("B", "C"):
        H._add_species(s)
    H.create_parameter("k1", 9.0)
    H.create_reaction(*a["reactions"][0])
    H.py_initialize()
    H.set_species({"A": 30, "B": 4})
    sim(H, True)
    H.create_reaction(*a["reactions"][1])
    H.set_parameter("tau", 0.25)
    ModelCSimInterface(H)
    H.create_reaction(*a["reactions"][2])
    H.create_rule(*a["rules"][0])
    H.py_initialize()
    H.py_initialize()
    sim(H, False)
    sim(H, True, safe=True)
    H.set_parameter("k1", 1.5)
    before = (dict(H.get_species_dictionary()), dict(H.get_parameter_dictionary()))
    got_s, got_d = sim(H, True), sim(H, False)
    after = (dict(H.get_species_dictionary()), dict(H.get_parameter_dictionary()))
    if got_s.shape != ref_s.shape or not np.allclose(got_s, ref_s):
        problems.append("stochastic output after an edit history differs from the freshly built model")
    if not np.allclose(got_d, ref_d, rtol=1e-6, atol=1e-9):
        problems.append("deterministic output after an edit history differs")
    if before != after:
        problems.append("simulating changed the model: %s -> %s" % (before, after))
    if not np.allclose(sim(H, True), got_s):
        problems.append("seeded stochastic simulation is not repeatable")
    return {"reproduced": bool(problems), "observed": problems[:3], "expected": "same results as a freshly built model"}
