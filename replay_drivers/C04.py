"""Replay driver for C04: real deterministic simulation against an independent high-accuracy integration of the
rate equations written by hand."""
import numpy as np


def replay(spec):
    import warnings
    warnings.simplefilter("ignore")
    if spec.get("kind") == "scenario":          # obligations on the rule passes around the integrator (shared with C09 / C07)
        from .C07 import replay as replay_c07
        return replay_c07(spec)
    if spec.get("kind") == "derivative":
        from .C03 import replay as replay_c03
        return replay_c03(spec)
    from scipy.integrate import solve_ivp
    from bioscrape.types import Model
    from bioscrape.simulator import py_simulate_model
    problems = []
    k1, k2, k3 = 0.8, 0.5, 1.2
    cases = {
        "massaction": (["B", "A", "C"],
                       [(["A", "A"], ["B"], "massaction", {"k": k1}), (["A", "B"], ["A"], "massaction", {"k": k2}, "fixed", [], ["C", "C"], {"delay": 1.0}),
                        ([], ["A"], "massaction", {"k": k3})],
                       lambda t, s: {"A": -2 * k1 * s["A"] ** 2 + k3, "B": k1 * s["A"] ** 2 - k2 * s["A"] * s["B"], "C": 2 * k2 * s["A"] * s["B"]}),
        "hill_general": (["A", "B", "C"],
                         [([], ["B"], "hillpositive", {"k": k1, "K": k2, "n": 2, "s1": "A"}), (["B"], [], "general", {"rate": "%r*B*(1 + t)" % k3}),
                          (["C"], ["A"], "proportionalhillnegative", {"k": k1, "K": k2, "n": 1, "s1": "B", "d": "C"})],
                         lambda t, s: {"A": k1 * s["C"] / (1 + s["B"] / k2),
                                       "B": k1 * (s["A"] / k2) ** 2 / (1 + (s["A"] / k2) ** 2) - k3 * s["B"] * (1 + t),
                                       "C": -k1 * s["C"] / (1 + s["B"] / k2)}),
    }
    cases["general_names"] = (["S", "E", "I"],
                              [(["S"], ["E"], "general", {"rate": "N*S*E/(1 + I)"}), (["E"], ["I"], "general", {"rate": "Q*E + O*t"})],
                              lambda t, s: {"S": -(k1 * s["S"] * s["E"] / (1 + s["I"])), "E": k1 * s["S"] * s["E"] / (1 + s["I"]) - (k2 * s["E"] + k3 * t),
                                            "I": k2 * s["E"] + k3 * t})
    deg = {"k": k2}
    cases["shared_dict"] = (["A", "B", "C"],
                            [([], ["A"], "massaction", {"k": k1}), (["A"], ["B"], "massaction", deg), (["B"], ["C"], "massaction", deg),
                             (["C", "C"], [], "massaction", deg)],
                            lambda t, s: {"A": k1 - k2 * s["A"], "B": k2 * s["A"] - k2 * s["B"], "C": k2 * s["B"] - 2 * k2 * s["C"] ** 2})
    cases["general_minmax"] = (["A", "B", "C"],
                               [(["A"], ["B"], "general", {"rate": "%r*min(A, B, C)" % k1}), (["B"], ["C"], "general", {"rate": "%r*max(C, max(A, B))" % k2}),
                                (["C"], [], "general", {"rate": "%r*abs(A - B)" % k3})],
                               lambda t, s: {"A": -k1 * min(s["A"], s["B"], s["C"]), "B": k1 * min(s["A"], s["B"], s["C"]) - k2 * max(s["A"], s["B"], s["C"]),
                                             "C": k2 * max(s["A"], s["B"], s["C"]) - k3 * abs(s["A"] - s["B"])})
    cases["massaction_order3"] = (["A", "B", "C"],
                                  [(["A", "B", "A"], ["C"], "massaction", {"k": k1}), (["C"], ["A"], "massaction", {"k": k2}),
                                   (["B", "C", "A", "B"], ["A"], "massaction", {"k": k3})],
                                  lambda t, s: {"A": -2 * k1 * s["A"] ** 2 * s["B"] + k2 * s["C"],
                                                "B": -k1 * s["A"] ** 2 * s["B"] - 2 * k3 * s["A"] * s["B"] ** 2 * s["C"],
                                                "C": k1 * s["A"] ** 2 * s["B"] - k2 * s["C"] - k3 * s["A"] * s["B"] ** 2 * s["C"]})
    names = [spec["model"]] if spec.get("model") in cases else list(cases)
    for name in names:
        species, rx, rhs = cases[name]
        inits = [{"A": 2.0, "B": 1.0, "C": 3.0}] if name != "general_names" else [{"S": 2.0, "E": 1.0, "I": 3.0}]
        if name == "general_minmax":
            inits += [{"A": 1.0, "B": 3.0, "C": 2.0}, {"A": 3.0, "B": 2.0, "C": 1.0}, {"A": 5.0, "B": 4.0, "C": 0.5}]
        pkw = dict(parameters=[("N", k1), ("Q", k2), ("O", k3)]) if name == "general_names" else {}
        for init, tp in [(i_, t_) for i_ in inits for t_ in (np.linspace(0, 2, 9), np.array([0.0, 0.1, 0.15, 0.9, 2.0]))]:
            try:
                M = Model(species=species, reactions=rx, initial_condition_dict=init, **pkw)
            except Exception as e:
                problems.append("%s: Model(...) raised %s: %s" % (name, type(e).__name__, str(e)[:100]))
                break
            df = py_simulate_model(tp, Model=M, stochastic=False, safe=bool(spec.get("safe")))
            order = M.get_species_list()
            sol = solve_ivp(lambda t, y: [rhs(t, dict(zip(order, y)))[s] for s in order], (tp[0], tp[-1]),
                            [init[s] for s in order], t_eval=tp, rtol=1e-11, atol=1e-12, method="LSODA")
            got = df[order].to_numpy()
            if got.shape != sol.y.T.shape or not np.allclose(got, sol.y.T, rtol=1e-5, atol=1e-6):
                problems.append("%s: trajectory deviates from the rate equations (max diff %.3g)" % (name, np.abs(got - sol.y.T).max()))
            if not np.allclose(df["time"].to_numpy(), tp):
                problems.append("%s: time axis differs" % name)
            if not np.allclose(got[0], [init[s] for s in order]):
                problems.append("%s: first row is not the initial condition" % name)
    return {"reproduced": bool(problems), "observed": problems[:3], "expected": "solution of dx/dt = S*rate(x,t)"}
