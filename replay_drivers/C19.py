"""Replay driver for C19: concrete lineage / splitter scenarios on the real build.
kind = splitter | single_cell | lineage_dt | lineage"""
import numpy as np

from .util import unfrac


def _lineage_model(with_rxn, growth=True, division=True, death=False):
    from bioscrape.lineage import LineageModel, LineageVolumeSplitter
    rx = [([], ["A"], "massaction", {"k": 5.0}), (["A"], [], "massaction", {"k": 1.0})] if with_rxn else [(["A"], [], "massaction", {"k": 3.0})]
    M = LineageModel(species=["A", "B"], reactions=rx, initial_condition_dict={"A": 6, "B": 4})
    if growth:
        M.create_volume_rule("ode", {"equation": "volume*0.6931"})
    if division:
        vs = LineageVolumeSplitter(M, options={"B": "duplicate"}, partition_noise=0.1)
        M.create_division_rule("deltaV", {"threshold": 1.0}, vs)
    if death:
        M.create_death_event("death", {}, "massaction", {"k": 0.25, "species": ""})
    M.py_initialize()
    return M


def replay_lineage_reuse():
    """two lineage simulations on ONE LineageSSASimulator object"""
    import warnings
    warnings.simplefilter("ignore")
    from bioscrape.lineage import LineageSSASimulator, LineageCSimInterface, LineageVolumeCellState
    from bioscrape.random import py_seed_random
    bad = []
    M = _lineage_model(True)
    sim = LineageSSASimulator()
    tp = np.arange(0, 4, 0.25)
    lins, sizes = [], []
    for k in range(2):
        itf = LineageCSimInterface(M)
        itf.py_set_initial_time(tp[0])
        py_seed_random(4 + k)
        cells = [LineageVolumeCellState(v0=1, t0=0, state=itf.py_get_initial_state())]
        lin = sim.py_SimulateCellLineage(tp, interface=itf, initial_cell_states=cells)
        lins.append(lin)
        sizes.append(lin.py_size())
        founders = [i for i in range(lin.py_size()) if lin.py_get_schnitz(i).py_get_parent() is None]
        if len(founders) != 1:
            bad.append("call %d on the same simulator: the returned lineage has %d founder cells for one initial cell" % (k + 1, len(founders)))
        for i in range(lin.py_size()):
            s_ = lin.py_get_schnitz(i)
            for d in s_.py_get_daughters():
                if d is not None and d.py_get_parent() is not s_:
                    bad.append("call %d: a daughter's parent link does not point back to its mother" % (k + 1))
                    break
    if lins[0] is lins[1]:
        bad.append("both calls returned the same Lineage object")
    if lins[0].py_size() != sizes[0]:
        bad.append("the first call's lineage grew from %d to %d cells during the second call" % (sizes[0], lins[0].py_size()))
    return {"reproduced": bool(bad), "observed": bad[:3], "expected": "every call returns a lineage of its own simulation only"}


def replay(spec):
    import warnings
    warnings.simplefilter("ignore")
    if spec.get("kind") == "lineage_reuse":
        return replay_lineage_reuse()
    from bioscrape.random import py_seed_random
    kind = spec.get("kind", "single_cell")
    problems = []
    if kind == "splitter":
        from bioscrape.types import Model
        from bioscrape.simulator import PerfectBinomialVolumeSplitter, GeneralVolumeSplitter, VolumeCellState
        v = unfrac(spec.get("values", {}))
        modes = spec["modes"]
        names = ["S%d" % i for i in range(len(modes))]
        M = Model(species=names, initial_condition_dict={n: 0 for n in names})
        counts = {n: float(v.get("n%d" % i, 3)) for i, n in enumerate(names)}
        st = np.array([counts[s] for s in M.get_species_list()])
        V = float(v.get("V", 2.0)) or 2.0
        for seed in range(1, 40):
            py_seed_random(seed)
            if spec["splitter"] == "lineage":
                from bioscrape.lineage import LineageVolumeSplitter, LineageVolumeCellState
                opts = dict(zip(names, modes))
                opts["volume"] = spec["vmode"]
                sp = LineageVolumeSplitter(M, options=opts, partition_noise=float(v.get("noise", 0.3)))
                parent = LineageVolumeCellState(v0=V, t0=1.0, state=st.copy())
            else:
                parent = VolumeCellState(time=1.0, state=st.copy(), volume=V)
                if spec["splitter"] == "general":
                    sp = GeneralVolumeSplitter()
                    o = {}
                    for n, m in zip(names, modes):
                        if m != "binomial" or spec.get("vmode") == "explicit":
                            o.setdefault(m, []).append(n)
                    sp.py_set_partitioning(o, M)
                    sp.py_set_partition_noise(float(v.get("noise", 0.2)))
                else:
                    sp = PerfectBinomialVolumeSplitter()
            d, e = sp.py_partition(parent)
            ds, es = d.py_get_state(), e.py_get_state()
            idx = M.get_species2index()
            for n, m in zip(names, modes):
                i = idx[n]
                if m == "duplicate":
                    if ds[i] != counts[n] or es[i] != counts[n]:
                        problems.append("duplicated species %s: %s / %s from %s" % (n, ds[i], es[i], counts[n]))
                elif ds[i] + es[i] != counts[n] or ds[i] < 0 or es[i] < 0 or ds[i] != int(ds[i]):
                    problems.append("%s species %s: %s + %s from %s" % (m, n, ds[i], es[i], counts[n]))
            dup = spec["splitter"] == "lineage" and spec["vmode"] == "duplicate"
            if dup:
                if d.py_get_volume() != V or e.py_get_volume() != V:
                    problems.append("duplicated volume not copied")
            elif abs(d.py_get_volume() + e.py_get_volume() - V) > 1e-12 or d.py_get_volume() <= 0 or e.py_get_volume() <= 0:
                problems.append("daughter volumes %s + %s from %s" % (d.py_get_volume(), e.py_get_volume(), V))
            if d.py_get_time() != 1.0 or e.py_get_time() != 1.0:
                problems.append("daughter time")
            if spec["splitter"] == "general" and not problems:
                # the same random stream through the documented partition: p = 1/2 - u*noise is the daughter's volume
                # fraction; a perfect species gets round(p*n) (one more draw decides a half); a binomial species gets
                # the number of its n own draws below p
                from bioscrape.random import py_uniform_rv
                py_seed_random(seed)
                pfrac = 0.5 - py_uniform_rv() * float(v.get("noise", 0.2))
                want = {}
                for n, m in zip(names, modes):
                    if m == "perfect":
                        dv = pfrac * counts[n]
                        am = int(dv + 0.5)
                        want[n] = float(am) if abs(dv - am) <= 1e-8 else float(int(dv) + (1 if py_uniform_rv() <= pfrac else 0))
                for i_sp in sorted(idx[n] for n, m in zip(names, modes) if m == "binomial"):
                    n = [k for k in names if idx[k] == i_sp][0]
                    want[n] = float(sum(1 for _ in range(int(counts[n])) if py_uniform_rv() < pfrac))
                if abs(d.py_get_volume() - V * pfrac) > 1e-12:
                    problems.append("daughter volume %s is not (1/2 - u*noise) * V = %s" % (d.py_get_volume(), V * pfrac))
                for n, w in want.items():
                    if ds[idx[n]] != w:
                        problems.append("%s species %s: daughter holding the volume fraction %.4f gets %s of %s molecules; the molecules whose own "
                                        "draw is below that fraction are %s" % (dict(zip(names, modes))[n], n, pfrac, ds[idx[n]], counts[n], w))
            if problems:
                break
        return {"reproduced": bool(problems), "observed": problems[:3], "expected": "conserving partition"}
    if kind == "lineage_dt":
        from bioscrape.lineage import LineageModel, py_SimulateSingleCell
        for dt in (0.5, 0.25):
            tp = np.arange(0, 4, dt)
            LM = LineageModel(species=["X"], rules=[("ode", {"equation": "1", "target": "X"})], initial_condition_dict={"X": 0})
            df = py_SimulateSingleCell(tp, Model=LM)
            inc = np.diff(df["X"].to_numpy())[1:]
            if len(inc) == 0 or not np.allclose(inc, dt, atol=1e-12):
                problems.append("ode rule dX/dt = 1 on a grid of step %s advances X by %s per row" % (dt, sorted(set(np.round(inc, 12)))[:3]))
        return {"reproduced": bool(problems), "observed": problems[:2], "expected": "rate * grid step per row"}
    # single cell / lineage scenarios
    from bioscrape.lineage import py_SimulateSingleCell, py_SimulateCellLineage
    tp = np.arange(0, 6, 0.5)
    for with_rxn in (False, True):
        for seed in (1, 2, 3, 4):
            py_seed_random(seed)
            M = _lineage_model(with_rxn, growth=True, division=False)
            df = py_SimulateSingleCell(tp, Model=M)
            vol = df["volume"].to_numpy()
            if len(df) != len(tp):
                problems.append("single cell without division/death rules: %d rows for %d time points (seed %d, reactions %s)" % (len(df), len(tp), seed, "continuing" if with_rxn else "die out"))
            elif (vol <= 0).any():
                problems.append("reported rows with non-positive volume: %s" % vol.tolist())
            elif not np.allclose(df["time"].to_numpy(), tp):
                problems.append("time axis differs")
            elif (np.diff(vol) < -1e-12).any():
                problems.append("volume decreases under pure growth: %s" % vol.tolist())
            if problems:
                return {"reproduced": True, "observed": problems[:2], "expected": "every row simulated, positive volume"}
    if kind == "lineage":
        for seed in ((1, 2, 3, 4, 5, 6, 7, 8) if spec.get("death") else (1, 2, 3)):
            py_seed_random(seed)
            M = _lineage_model(True, death=bool(spec.get("death")))
            lin = py_SimulateCellLineage(np.arange(0, 5, 0.25), Model=M)
            n = lin.py_size()
            for i in range(n):
                s = lin.py_get_schnitz(i)
                d1, d2 = s.py_get_daughters()
                t, vol, data = s.py_get_time(), s.py_get_volume(), s.py_get_data()
                if not (len(t) == len(vol) == len(data)) or len(t) == 0:
                    problems.append("schnitz %d: time/volume/data lengths %d/%d/%d" % (i, len(t), len(vol), len(data)))
                if (np.asarray(vol) <= 0).any():
                    problems.append("schnitz %d has non-positive volume rows" % i)
                for d in (d1, d2):
                    if d is not None:
                        if d.py_get_parent() is not s:
                            problems.append("daughter's parent link is not mutual")
                        if abs(d.py_get_time()[0] - t[-1]) > 1e-9:
                            problems.append("daughter starts at %s, mother ended at %s" % (d.py_get_time()[0], t[-1]))
                if d1 is not None and d2 is not None:
                    a = M.get_species_index("A")
                    b = M.get_species_index("B")
                    if d1.py_get_data()[0][a] + d2.py_get_data()[0][a] != data[-1][a]:
                        problems.append("binomial species not conserved at division: %s + %s from %s" % (d1.py_get_data()[0][a], d2.py_get_data()[0][a], data[-1][a]))
                    if d1.py_get_data()[0][b] != data[-1][b] or d2.py_get_data()[0][b] != data[-1][b]:
                        problems.append("duplicated species not copied at division")
                    if abs(d1.py_get_volume()[0] + d2.py_get_volume()[0] - vol[-1]) > 1e-9:
                        problems.append("daughter volumes %s + %s from %s" % (d1.py_get_volume()[0], d2.py_get_volume()[0], vol[-1]))
                if problems:
                    break
            if problems:
                break
    if not problems:
        # a division RULE (volume threshold, species split perfectly) and a division EVENT (constant rate, species duplicated) in
        # one model: each division must be partitioned by the splitter of whatever triggered it
        from bioscrape.lineage import LineageModel, LineageVolumeSplitter
        for seed in (1, 2, 3):
            M = LineageModel(species=["X"], reactions=[([], ["X"], "massaction", {"k": 40.0})], initial_condition_dict={"X": 60})
            M.create_volume_rule("ode", {"equation": "volume*0.5"})
            vr = LineageVolumeSplitter(M, options={"default": "perfect", "volume": "perfect"}, partition_noise=0.0)
            ve = LineageVolumeSplitter(M, options={"default": "duplicate", "volume": "perfect"}, partition_noise=0.0)
            M.create_division_rule("volume", {"threshold": 2.0}, vr)
            M.create_division_event("division", {}, "massaction", {"k": 0.6, "species": ""}, ve)
            M.py_initialize()
            py_seed_random(seed)
            lin = py_SimulateCellLineage(np.arange(0, 4, 0.05), Model=M)
            for i in range(lin.py_size()):
                s_ = lin.py_get_schnitz(i)
                d1, d2 = s_.py_get_daughters()
                if d1 is None or d2 is None:
                    continue
                x_m, v_m = s_.py_get_data()[-1][0], s_.py_get_volume()[-1]
                x1, x2 = d1.py_get_data()[0][0], d2.py_get_data()[0][0]
                by_rule = v_m >= 2.0
                ok = (x1 + x2 == x_m and abs(x1 - x2) <= 1) if by_rule else (x1 == x_m and x2 == x_m)
                if not ok:
                    problems.append("a division triggered by the %s (mother volume %.3f, X = %s) gave daughters X = %s / %s; that trigger's splitter %s"
                                    % ("rule" if by_rule else "event", v_m, x_m, x1, x2, "halves X" if by_rule else "copies X to both"))
                    break
            if problems:
                break
    if not problems:
        # divisions anywhere on the grid, including inside its last interval: the end of the grid is swept over a whole generation
        # time of a time-division rule; all species binomial, so daughters' first rows must sum to the mother's last row
        from bioscrape.lineage import LineageModel, LineageVolumeSplitter
        for end in np.arange(2.0, 3.3, 0.05):
            M = LineageModel(species=["S", "X"], reactions=[([], ["S"], "massaction", {"k": 8.0}), (["S"], [], "massaction", {"k": 0.3}),
                                                            ([], ["X"], "massaction", {"k": 3.0})], initial_condition_dict={"S": 12, "X": 30})
            M.create_division_rule("time", {"threshold": 1.0}, LineageVolumeSplitter(M))
            M.create_volume_rule("linear", {"growth_rate": 0.7})
            M.py_initialize()
            py_seed_random(11)
            lin = py_SimulateCellLineage(np.arange(0, end + 1e-9, 0.05), Model=M)
            for i in range(lin.py_size()):
                s_ = lin.py_get_schnitz(i)
                d1, d2 = s_.py_get_daughters()
                t, vol, data = np.asarray(s_.py_get_time()), np.asarray(s_.py_get_volume()), np.asarray(s_.py_get_data())
                if not (len(t) == len(vol) == len(data)) or len(t) == 0 or (vol <= 0).any():
                    problems.append("grid to %.2f: schnitz %d has an empty / ragged / non-positive-volume record" % (end, i))
                if (d1 is None) != (d2 is None):
                    problems.append("grid to %.2f: schnitz %d has exactly one daughter" % (end, i))
                if d1 is None or d2 is None:
                    continue
                for d in (d1, d2):
                    if d.py_get_parent() is not s_ or abs(d.py_get_time()[0] - t[-1]) > 1e-9:
                        problems.append("grid to %.2f: daughter of schnitz %d: parent link / start time %s vs mother's end %s" % (end, i, d.py_get_time()[0], t[-1]))
                x1, x2 = np.asarray(d1.py_get_data())[0], np.asarray(d2.py_get_data())[0]
                if not np.array_equal(x1 + x2, data[-1]):
                    problems.append("grid to %.2f: mother (divides at t=%.4g) ends with %s, daughters start with %s and %s: binomial species not conserved"
                                    % (end, t[-1], data[-1].tolist(), x1.tolist(), x2.tolist()))
                if abs(d1.py_get_volume()[0] + d2.py_get_volume()[0] - vol[-1]) > 1e-9:
                    problems.append("grid to %.2f: daughter volumes %s + %s from %s" % (end, d1.py_get_volume()[0], d2.py_get_volume()[0], vol[-1]))
                if problems:
                    break
            if problems:
                break
    return {"reproduced": bool(problems), "observed": problems[:3], "expected": "consistent lineage records"}
