"""Replay driver for C13: the same generated document imported by the real bioscrape; derivative compared numerically
with the document's reference semantics."""
import os
import tempfile

import numpy as np

from .util import unfrac
from . import C13gen


def replay(spec):
    import warnings
    warnings.simplefilter("ignore")
    import libsbml
    from bioscrape.sbmlutil import import_sbml
    from bioscrape.simulator import ModelCSimInterface
    sp = C13gen.spec_for(spec["index"], spec.get("seed", 0))
    d = tempfile.mkdtemp(prefix="bioscrape-verif-c13r-", dir="/var/tmp")
    path = os.path.join(d, "m.xml")
    problems = []
    try:
        C13gen.write_document(sp, path)
        try:
            M = import_sbml(path, sbml_warnings=False)
        except Exception as e:
            return {"reproduced": True, "observed": "import raises %s: %s" % (type(e).__name__, e), "expected": "a model"}
    finally:
        try:
            os.remove(path)
            os.rmdir(d)
        except OSError:
            pass
    aspect = spec.get("aspect", "")
    init = C13gen.initial_values(sp)
    got = M.get_species_dictionary()
    for s in (C13gen.SPECIES if aspect in ("", "initial values") else []):
        if s not in got or abs(got[s] - init[s]) > 1e-12:
            problems.append("initial value of %s is %r, document says %r" % (s, got.get(s), init[s]))
    n_assign = sum(1 for r in sp["rules"] if r["kind"] == "assign")
    if aspect in ("", "rule list") and [r[0] for r in M.get_rules()] != ["assignment"] * n_assign:
        problems.append("imported rules %s for document rules %s" % ([(r[0], r[1].get("equation")) for r in M.get_rules()],
                                                                     [(r["kind"], r["var"]) for r in sp["rules"]]))
    v = unfrac(spec.get("values", {}))
    state = {s: float(v.get("s_" + s, 1.5 + i)) for i, s in enumerate(C13gen.SPECIES)}
    glob = {g: float(v.get("g_" + g, sp["globals"][g])) for g in sp["globals"]}
    missing = [g for g in glob if g not in M.get_parameter_dictionary()]
    if missing:
        return {"reproduced": True, "observed": "global parameters %s of the document are missing from the imported model" % missing, "expected": "document semantics"}
    M.set_params(glob)
    itf = ModelCSimInterface(M)
    itf.py_prep_deterministic_simulation()
    order = M.get_species_list()
    x = np.array([state[s] for s in order], dtype=float)
    dx = np.zeros(len(order))
    itf.py_apply_repeated_rules(x, 0.0, True)
    itf.py_calculate_deterministic_derivative(x, dx, 0.0)
    want, st2, gl2, dp = C13gen.reference_derivative(sp, state, glob)
    assigned = {r["var"] for r in sp["rules"] if r["kind"] == "assign"}
    for i, s in enumerate(order if aspect in ("", "imported rate equations", "parameter assignment rule") else []):
        if s in assigned:
            if abs(x[i] - st2[s]) > 1e-9 * max(1, abs(st2[s])):
                problems.append("assigned species %s = %r, document gives %r" % (s, x[i], st2[s]))
        elif abs(dx[i] - want[s]) > 1e-9 * max(1, abs(want[s])):
            problems.append("d%s/dt = %r, document gives %r" % (s, dx[i], want[s]))
    return {"reproduced": bool(problems), "observed": problems[:4], "expected": "document semantics"}
