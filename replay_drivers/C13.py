"""Replay driver for C13: the same generated document imported by the real bioscrape; derivative compared numerically
with the document's reference semantics."""
import os
import tempfile

import numpy as np

from .util import unfrac
from . import C13gen


def replay(spec):
    import warnings
    warnings.simplefilter("ignore")
    import libsbml
    from bioscrape.sbmlutil import import_sbml
    from bioscrape.simulator import ModelCSimInterface
    sp = C13gen.spec_for(spec["index"], spec.get("seed", 0))
    d = tempfile.mkdtemp(prefix="bioscrape-verif-c13r-", dir="/var/tmp")
    path = os.path.join(d, "m.xml")
    problems = []
    if spec.get("aspect") == "module-level state kept between imports":
        # many documents read one after the other in ONE process: documents that share formula texts but declare their species and
        # parameters in other orders; every imported model is checked against its own document
        import gc
        import random as _rnd
        rng = _rnd.Random(5)
        base = [C13gen.spec_for(spec["index"] + k_, spec.get("seed", 0)) for k_ in range(3)]
        bad = []
        try:
            for it in range(240):
                sp_ = dict(base[it % 3])
                ks = list(sp_["species"])
                gs = list(sp_["globals"])
                rng.shuffle(ks)
                rng.shuffle(gs)
                sp_["species"] = {k_: sp_["species"][k_] for k_ in ks}
                sp_["globals"] = {g_: sp_["globals"][g_] for g_ in gs}
                C13gen.write_document(sp_, path)
                M_ = import_sbml(path, sbml_warnings=False)
                state = {s_: 1.5 + i_ for i_, s_ in enumerate(C13gen.SPECIES)}
                glob = dict(sp_["globals"])
                if any(g_ not in M_.get_parameter_dictionary() for g_ in glob):
                    bad.append("import %d: a global parameter is missing" % it)
                    break
                itf_ = ModelCSimInterface(M_)
                itf_.py_prep_deterministic_simulation()
                order = M_.get_species_list()
                x = np.array([state[s_] for s_ in order], dtype=float)
                dx = np.zeros(len(order))
                itf_.py_apply_repeated_rules(x, 0.0, True)
                itf_.py_calculate_deterministic_derivative(x, dx, 0.0)
                want, st2, gl2, dp = C13gen.reference_derivative(sp_, state, glob)
                assigned = {r_["var"] for r_ in sp_["rules"] if r_["kind"] == "assign"}
                for i_, s_ in enumerate(order):
                    if s_ not in assigned and abs(dx[i_] - want[s_]) > 1e-9 * max(1, abs(want[s_])):
                        bad.append("import %d in one process: d%s/dt = %r, the document read just now gives %r" % (it + 1, s_, dx[i_], want[s_]))
                if bad:
                    break
                del M_, itf_
                if it % 7 == 0:
                    gc.collect()
        finally:
            try:
                os.remove(path)
                os.rmdir(d)
            except OSError:
                pass
        return {"reproduced": bool(bad), "observed": bad[:3], "expected": "every import has the semantics of its own document, whatever was read before"}
    try:
        C13gen.write_document(sp, path)
        try:
            M = import_sbml(path, sbml_warnings=False)
        except Exception as e:
            return {"reproduced": True, "observed": "import raises %s: %s" % (type(e).__name__, e), "expected": "a model"}
    finally:
        try:
            os.remove(path)
            os.rmdir(d)
        except OSError:
            pass
    aspect = spec.get("aspect", "")
    init = C13gen.initial_values(sp)
    got = M.get_species_dictionary()
    for s in (C13gen.SPECIES if aspect in ("", "initial values") else []):
        if s not in got or abs(got[s] - init[s]) > 1e-12:
            problems.append("initial value of %s is %r, document says %r" % (s, got.get(s), init[s]))
    n_assign = sum(1 for r in sp["rules"] if r["kind"] == "assign")
    if aspect in ("", "rule list") and [r[0] for r in M.get_rules()] != ["assignment"] * n_assign:
        problems.append("imported rules %s for document rules %s" % ([(r[0], r[1].get("equation")) for r in M.get_rules()],
                                                                     [(r["kind"], r["var"]) for r in sp["rules"]]))
    v = unfrac(spec.get("values", {}))
    state = {s: float(v.get("s_" + s, 1.5 + i)) for i, s in enumerate(C13gen.SPECIES)}
    glob = {g: float(v.get("g_" + g, sp["globals"][g])) for g in sp["globals"]}
    missing = [g for g in glob if g not in M.get_parameter_dictionary()]
    if missing:
        return {"reproduced": True, "observed": "global parameters %s of the document are missing from the imported model" % missing, "expected": "document semantics"}
    M.set_params(glob)
    itf = ModelCSimInterface(M)
    itf.py_prep_deterministic_simulation()
    order = M.get_species_list()
    x = np.array([state[s] for s in order], dtype=float)
    dx = np.zeros(len(order))
    itf.py_apply_repeated_rules(x, 0.0, True)
    itf.py_calculate_deterministic_derivative(x, dx, 0.0)
    want, st2, gl2, dp = C13gen.reference_derivative(sp, state, glob)
    assigned = {r["var"] for r in sp["rules"] if r["kind"] == "assign"}
    for i, s in enumerate(order if aspect in ("", "imported rate equations", "parameter assignment rule") else []):
        if s in assigned:
            if abs(x[i] - st2[s]) > 1e-9 * max(1, abs(st2[s])):
                problems.append("assigned species %s = %r, document gives %r" % (s, x[i], st2[s]))
        elif abs(dx[i] - want[s]) > 1e-9 * max(1, abs(want[s])):
            problems.append("d%s/dt = %r, document gives %r" % (s, dx[i], want[s]))
    return {"reproduced": bool(problems), "observed": problems[:4], "expected": "document semantics"}
