"""Replay driver for C12: real write + read, compared numerically on the aspect the solver flagged."""
import os
import re
import tempfile

import numpy as np

from .util import unfrac

SPECIES = ["A", "B_x", "C1"]


def build_args(p):
    """several reactions / rules in one model: the parts' constructor arguments merged in order (shared parameters declared once)"""
    if p.get("names"):
        # the same program over other species names (short ones: substrings of longer identifiers and of the reserved words)
        import re as _re
        q = dict(p)
        names = q.pop("names")
        a = build_args(q)

        def ren(x):
            if isinstance(x, str):
                return _re.sub(r"\b(%s)\b" % "|".join(_re.escape(k) for k in names), lambda m_: names[m_.group(1)], x)
            if isinstance(x, list):
                return [ren(y) for y in x]
            if isinstance(x, tuple):
                return tuple(ren(y) for y in x)
            if isinstance(x, dict):
                return {ren(k): ren(v) for k, v in x.items()}
            return x
        return dict(species=ren(a["species"]), parameters=a["parameters"], reactions=ren(a["reactions"]), rules=ren(a["rules"]),
                    initial_condition_dict=ren(a["initial_condition_dict"]))
    if p["kind"] != "multi":
        return _build_one(p)
    out = None
    for q in p["parts"]:
        a = _build_one(q)
        if out is None:
            out = a
            continue
        out["reactions"] += a["reactions"]
        out["rules"] += a["rules"]
        for nm, val in a["parameters"]:
            if nm not in [x[0] for x in out["parameters"]]:
                out["parameters"].append((nm, val))
    return out


def _build_one(p):
    species = list(SPECIES)
    params = [("kq", 0.75)]
    reactions, rules = [], []
    if p["kind"] == "rx":
        pt = p["ptype"]
        if pt == "massaction":
            pd = {"k": "kf"} if p["named"] else {"k": 1.25}
            if p["named"]:
                params.append(("kf", 1.25))
        elif pt == "general":
            pd = {"rate": p["rate"]}
        else:
            if p["named"]:
                pd = {"k": "kf", "K": "KH", "n": "nH", "s1": "A"}
                params += [("kf", 1.25), ("KH", 3.5), ("nH", 2.0)]
            else:
                pd = {"k": 1.25, "K": 3.5, "n": 2.0, "s1": "A"}
            if "proportional" in pt:
                pd["d"] = "B_x"
        if p.get("delay"):
            d = p["delay"]
            if d == "fixed":
                dp = {"delay": "tau"} if p["named"] else {"delay": 0.5}
                if p["named"]:
                    params.append(("tau", 0.5))
            elif d == "gaussian":
                dp = {"mean": "mu", "std": "sd"} if p["named"] else {"mean": 2.0, "std": 0.25}
                if p["named"]:
                    params += [("mu", 2.0), ("sd", 0.25)]
            else:
                dp = {"k": "gk", "theta": "gth"} if p["named"] else {"k": 3.0, "theta": 0.5}
                if p["named"]:
                    params += [("gk", 3.0), ("gth", 0.5)]
            reactions.append((p["reactants"], p["products"], pt, pd, d, p["dre"], p["dpr"], dp))
        else:
            reactions.append((p["reactants"], p["products"], pt, pd))
    else:
        reactions.append((["A"], ["B_x"], "massaction", {"k": "kq"}))
        if p["rtype"] == "ode":
            rules.append(("ode", {"equation": p["eq"], "target": "C1"}))
        else:
            rules.append((p["rtype"], {"equation": p["eq"]}, p["freq"]))
    return dict(species=species, parameters=params, reactions=reactions, rules=rules,
                initial_condition_dict={"A": 5, "B_x": 2.5, "C1": 0})


def replay(spec):
    import warnings
    warnings.simplefilter("ignore")
    from bioscrape.types import Model
    from bioscrape.sbmlutil import import_sbml
    from bioscrape.simulator import ModelCSimInterface
    p, stochastic = spec["program"], spec["stochastic"]
    aspect = spec.get("aspect", "")
    M1 = Model(**build_args(p))
    d = tempfile.mkdtemp(prefix="bioscrape-verif-c12r-", dir="/var/tmp")
    f1, f2 = os.path.join(d, "a.xml"), os.path.join(d, "b.xml")
    problems = []
    try:
        try:
            M1.write_sbml_model(f1, stochastic_model=stochastic)
            M1.write_sbml_model(f2, stochastic_model=stochastic)
        except Exception as e:
            return {"reproduced": True, "observed": "writing fails with %s: %s" % (type(e).__name__, e), "expected": "an SBML file"}
        m = lambda t: re.sub(r"bioscrape_generated_model_\d+", "X", t)
        if m(open(f1).read()) != m(open(f2).read()):
            problems.append("two writes differ")
        try:
            M2 = import_sbml(f1)
        except Exception as e:
            return {"reproduced": True, "observed": "re-import fails with %s: %s" % (type(e).__name__, e), "expected": "a model"}
    finally:
        for f in (f1, f2):
            try:
                os.remove(f)
            except OSError:
                pass
        try:
            os.rmdir(d)
        except OSError:
            pass
    s1, s2 = M1.get_species_dictionary(), M2.get_species_dictionary()
    if set(s1) != set(s2) or any(abs(s1[k] - s2[k]) > 1e-12 for k in s1):
        problems.append("species %s vs %s" % (s1, s2))
    p1, p2 = M1.get_parameter_dictionary(), M2.get_parameter_dictionary()
    if set(p1) != set(p2) or any(abs(p1[k] - p2[k]) > 1e-12 for k in p1):
        problems.append("parameters %s vs %s" % (p1, p2))
    if not problems:
        i1, i2 = M1.get_species2index(), M2.get_species2index()
        U1, U2, D1, D2 = M1.py_get_update_array(), M2.py_get_update_array(), M1.py_get_delay_update_array(), M2.py_get_delay_update_array()
        if U1.shape != U2.shape or any(U1[i1[s], r] != U2[i2[s], r] or D1[i1[s], r] != D2[i2[s], r] for s in s1 for r in range(U1.shape[1])):
            problems.append("stoichiometry differs")
        v = unfrac(spec.get("values", {}))
        state = {s: float(v.get("s_" + s, 2.0 + i)) for i, s in enumerate(SPECIES)}
        V, t = float(v.get("V", 1.5)), float(v.get("t", 0.5))
        for M in (M1, M2):
            M.set_params({k: float(v.get("p:" + k, p1[k])) for k in p1})
        out = []
        for M in (M1, M2):
            itf = ModelCSimInterface(M)
            sv = np.array([state[s] for s in M.get_species_list()])
            out.append([itf.py_compute_propensities(sv.copy(), t, V, mode).tolist()
                        for mode in ("deterministic", "volume", "stochastic", "stochastic_volume")])
        if not np.allclose(out[0], out[1], rtol=1e-9, atol=1e-12):
            problems.append("rates differ: %s vs %s" % (out[0], out[1]))
        c1 = [type(x).__name__ for x in M1.get_delays()]
        c2 = [type(x).__name__ for x in M2.get_delays()]
        if c1 != c2:
            problems.append("delay classes %s vs %s" % (c1, c2))
        r1 = [(a, b.get("equation"), str(c)) for a, b, c in M1.get_rules()]
        r2 = [(a, b.get("equation"), str(c)) for a, b, c in M2.get_rules()]
        if len(r1) != len(r2):
            problems.append("rules %s vs %s" % (r1, r2))
        else:
            dt, rs = float(v.get("dt", 0.5)), bool(v.get("rs", 1))
            res = []
            for M in (M1, M2):
                itf = ModelCSimInterface(M)
                itf.py_set_dt(dt)
                sv = np.array([state[s] for s in M.get_species_list()])
                itf.py_apply_repeated_volume_rules(sv, V, t, rs)
                res.append(({s: sv[M.get_species2index()[s]] for s in s1}, dict(zip(M.get_param_list(), itf.py_get_param_values()))))
            if any(abs(res[0][0][s] - res[1][0][s]) > 1e-9 for s in s1) or any(abs(res[0][1][k] - res[1][1][k]) > 1e-9 for k in p1):
                problems.append("rule effects differ: %s vs %s" % (res[0], res[1]))
    return {"reproduced": bool(problems), "observed": problems[:3], "expected": "reloaded model behaves like the original"}
