"""Generator of plain (un-annotated) SBML Level 3 documents built DIRECTLY with libsbml (never through bioscrape),
plus the document-level reference semantics used as oracle for C13.  Shared by the solver harness and the replay
driver; deterministic in (index, seed)."""
import random

from .sbmlmath import evaluate, FloatOps

SPECIES = ["X", "Y", "Z"]
GLOBALS = ["kg", "q", "k"]          # 'k' collides with local parameters named k


def spec_for(index, seed=0):
    rng = random.Random(7919 * (seed + 1) + index)
    sp = {}
    for s in SPECIES:
        # (SBML allows only one of initialAmount / initialConcentration on a species: libsbml drops the other)
        mode = rng.choice(["amount", "conc", "zero_amount", "zero_conc", "none"])
        sp[s] = dict(mode=mode, amount=float(rng.randint(1, 9)), conc=float(rng.randint(11, 19)))
    glob = {g: float(rng.randint(2, 7)) for g in GLOBALS}
    nrx = rng.randint(1, 3)
    rxs = []
    for r in range(nrx):
        reactants = {s: rng.randint(1, 3) for s in rng.sample(SPECIES, rng.randint(0, 2))}
        products = {s: rng.randint(1, 3) for s in rng.sample(SPECIES, rng.randint(0, 2))}
        locals_ = {}
        if rng.random() < 0.7:
            # collides with the global k (and other locals); sometimes with the very same value
            locals_["k"] = glob["k"] if rng.random() < 0.3 else float(rng.choice([11, 13, 17, 19]))
        if rng.random() < 0.4:
            locals_["loc%d" % r] = float(rng.choice([23, 29]))
        a, b = rng.choice(SPECIES), rng.choice(SPECIES)
        names = list(locals_) + ["kg", "q"] + ([] if "k" in locals_ else ["k"])
        p1, p2 = rng.choice(names), rng.choice(names)
        form = rng.choice(["{p1} * {a}", "{p1} * {a} * {b}", "{p1} * {a}^2 / ({p2} + {a})", "{p1} + {p2} * {b}",
                           "{p1} * {a} / (1 + {b} / {p2})", "{p1} * max({a}, {b})", "{p1} * abs({a} - {b}) + {p2}",
                           "{p1} * {a} - {p2} * {b}", "{p1} * min({a}, 2) * {b}"]).format(p1=p1, p2=p2, a=a, b=b)
        rxs.append(dict(id="r%d" % r, reactants=reactants, products=products, locals=locals_, formula=form))
    rules = []
    nassign, nrate = rng.randint(0, 2), rng.randint(0, 2)
    kinds = ["assign"] * nassign + ["rate"] * nrate
    rng.shuffle(kinds)
    used = set()
    for kind in kinds:
        cand = [v for v in (SPECIES + (["q", "k"] if kind == "assign" else [])) if v not in used]
        if not cand:
            break
        var = rng.choice(cand)
        used.add(var)
        others = [s for s in SPECIES if s != var]
        f = rng.choice(["kg * {a}", "{a} + {b}", "kg * {a} / (1 + {b})", "2 * {a} + kg"]).format(a=rng.choice(others), b=rng.choice(others))
        rules.append(dict(kind=kind, var=var, formula=f))
    # a species may carry BOTH attributes (libsbml's setters drop the other one, its reader keeps both: write_document puts the second
    # attribute into the text); drawn from a separate stream so that the documents above stay as they were
    rng2 = random.Random(104729 * (seed + 1) + index)
    for s in SPECIES:
        if rng2.random() < 0.4:
            sp[s]["mode"] = rng2.choice(["both", "both", "both_zero_amount"])
    hosu = rng2.choice([False, False, True])
    # exact fractions in kinetic laws and rule formulas (division by an integer literal; sympy keeps them as rationals)
    for item in rxs + rules:
        if rng2.random() < 0.45:
            item["formula"] = rng2.choice(["(%s) / 2", "3 * (%s) / 4", "(%s) / 3 + kg / 2", "5 / 2 * (%s)"]) % item["formula"]
    # a global parameter may be called `t` or `volume` (legal SBML ids; in a bioscrape formula an identifier is looked up among the
    # species, then the parameters, and only then read as the time / volume keyword)
    if rng2.random() < 0.2:
        import re as _re
        nm = rng2.choice(["t", "volume"])
        glob = {(nm if g == "q" else g): v for g, v in glob.items()}
        for item in rxs + rules:
            item["formula"] = _re.sub(r"\bq\b", nm, item["formula"])
            if item.get("var") == "q":
                item["var"] = nm
    return dict(species=sp, globals=glob, reactions=rxs, rules=rules, index=index, seed=seed, hosu=hosu)


def write_document(spec, path):
    """the document as a file; species in a 'both' mode get initialAmount next to their initialConcentration"""
    import re
    import libsbml as L
    text = L.writeSBMLToString(build_document(spec))
    for s, d in spec["species"].items():
        if d["mode"] in ("both", "both_zero_amount"):
            amt = d["amount"] if d["mode"] == "both" else 0.0
            text, n = re.subn(r'(<species\b[^>]*\bid="%s"[^>]*?)(\s*/?>)' % re.escape(s), lambda m_: '%s initialAmount="%r"%s' % (m_.group(1), amt, m_.group(2)), text, count=1)
            assert n == 1 and "initialConcentration" in text
    with open(path, "w") as f:
        f.write(text)


def build_document(spec):
    import libsbml as L
    doc = L.SBMLDocument(3, 2)
    m = doc.createModel()
    m.setId("plain_model_%d" % spec["index"])
    c = m.createCompartment()
    c.setId("cell")
    c.setSize(1.0)
    c.setConstant(True)
    c.setSpatialDimensions(3)
    for s, d in spec["species"].items():
        sp = m.createSpecies()
        sp.setId(s)
        sp.setCompartment("cell")
        sp.setConstant(False)
        sp.setBoundaryCondition(False)
        sp.setHasOnlySubstanceUnits(bool(spec.get("hosu", False)))
        if d["mode"] in ("both", "both_zero_amount"):
            sp.setInitialConcentration(d["conc"])
        elif d["mode"] == "amount":
            sp.setInitialAmount(d["amount"])
        elif d["mode"] == "zero_amount":
            sp.setInitialAmount(0.0)
        elif d["mode"] == "conc":
            sp.setInitialConcentration(d["conc"])
        elif d["mode"] == "zero_conc":
            sp.setInitialConcentration(0.0)
    ruled = {r["var"] for r in spec["rules"]}
    for g, v in spec["globals"].items():
        p = m.createParameter()
        p.setId(g)
        p.setValue(v)
        p.setConstant(g not in ruled)
    for rx in spec["reactions"]:
        r = m.createReaction()
        r.setId(rx["id"])
        r.setReversible(False)
        for s, st in rx["reactants"].items():
            x = r.createReactant()
            x.setSpecies(s)
            x.setStoichiometry(float(st))
            x.setConstant(True)
        for s, st in rx["products"].items():
            x = r.createProduct()
            x.setSpecies(s)
            x.setStoichiometry(float(st))
            x.setConstant(True)
        kl = r.createKineticLaw()
        for n, v in rx["locals"].items():
            lp = kl.createLocalParameter()
            lp.setId(n)
            lp.setValue(v)
        ast = L.parseL3Formula(rx["formula"])
        kl.setMath(ast)
        used = set()
        _names(ast, used)
        for s in SPECIES:
            if s in used and s not in rx["reactants"] and s not in rx["products"]:
                mod = r.createModifier()
                mod.setSpecies(s)
    for i, ru in enumerate(spec["rules"]):
        rule = m.createAssignmentRule() if ru["kind"] == "assign" else m.createRateRule()
        rule.setVariable(ru["var"])
        rule.setMath(L.parseL3Formula(ru["formula"]))
    return doc


def _names(ast, out):
    import libsbml as L
    if ast.getType() == L.AST_NAME:
        out.add(ast.getName())
    for i in range(ast.getNumChildren()):
        _names(ast.getChild(i), out)


def initial_values(spec):
    out = {}
    for s, d in spec["species"].items():
        if d["mode"] in ("amount", "both"):                  # a non-zero initial amount takes precedence over the concentration
            out[s] = d["amount"]
        elif d["mode"] in ("conc", "both_zero_amount"):
            out[s] = d["conc"]
        else:
            out[s] = 0.0
    return out


def reference_derivative(spec, state, glob, ops=FloatOps, time=0.0):
    """Document semantics: assignment rules as repeated substitutions (document order), then
    dx/dt = sum_r nu_r * law_r (locals bound per reaction) + rate rules.  Returns (dx, state', globals')."""
    import libsbml as L
    state, glob = dict(state), dict(glob)
    for ru in spec["rules"]:
        if ru["kind"] == "assign":
            env = dict(state)
            env.update(glob)
            env["__time__"] = time
            v = evaluate(L.parseL3Formula(ru["formula"]), env, ops)
            if ru["var"] in state:
                state[ru["var"]] = v
            else:
                glob[ru["var"]] = v
    dx = {s: 0 for s in SPECIES}
    dp = {}
    for rx in spec["reactions"]:
        env = dict(state)
        env.update(glob)
        env.update({n: ops.const(v) for n, v in rx["locals"].items()})
        env["__time__"] = time
        law = evaluate(L.parseL3Formula(rx["formula"]), env, ops)
        for s, st in rx["reactants"].items():
            dx[s] = dx[s] - st * law
        for s, st in rx["products"].items():
            dx[s] = dx[s] + st * law
    for ru in spec["rules"]:
        if ru["kind"] == "rate":
            env = dict(state)
            env.update(glob)
            env["__time__"] = time
            v = evaluate(L.parseL3Formula(ru["formula"]), env, ops)
            if ru["var"] in dx:
                dx[ru["var"]] = dx[ru["var"]] + v
            else:
                dp[ru["var"]] = v
    return dx, state, glob, dp
