"""Replay driver for C07: the same option combination on the real build."""
import numpy as np

from .util import unfrac


def replay_first_row():
    """first reported row = initial condition with the assignment rules applied (at the initial time and the run's volume), every mode"""
    import itertools
    from bioscrape.types import Model, Volume
    from bioscrape.simulator import py_simulate_model
    from bioscrape.random import py_seed_random
    problems = []
    for t0 in (0.0,):          # the grid starts at the initial time
        tp = t0 + np.linspace(0, 1, 5)
        for stochastic, delay, safe, vol in itertools.product((False, True), (False, True), (False, True), (None, 2.5, "obj")):
            M = Model(species=["A", "B", "X", "Y", "Z"],
                      reactions=[(["A"], ["B"], "massaction", {"k": 0.3})] if not delay else
                      [(["A"], [], "massaction", {"k": 0.3}, "fixed", [], ["B"], {"delay": 0.2})],
                      rules=[("assignment", {"equation": "X = 2*A + t"}, "repeated"), ("assignment", {"equation": "Y = 3*volume + B"}, "repeated"),
                             ("assignment", {"equation": "Z = X + Y"}, "repeated")],
                      initial_condition_dict={"A": 10, "B": 1})
            v = vol
            if vol == "obj":
                v = Volume()
                v.py_set_volume(2.5)
            py_seed_random(5)
            try:
                df = py_simulate_model(tp, Model=M, stochastic=stochastic, delay=delay, safe=safe, volume=v)
            except Exception as e:
                problems.append("py_simulate_model(stochastic=%s, delay=%s, safe=%s, volume=%s) raised %s: %s" % (stochastic, delay, safe, vol, type(e).__name__, e))
                continue
            uses_volume = vol is not None and (stochastic or delay)
            V = 2.5 if uses_volume else 1.0
            want = {"A": 10.0, "B": 1.0, "X": 20.0 + t0, "Y": 3 * V + 1.0}
            want["Z"] = want["X"] + want["Y"]
            got = {s_: float(df[s_].iloc[0]) for s_ in want}
            if any(abs(got[s_] - want[s_]) > 1e-9 for s_ in want):
                problems.append("py_simulate_model(stochastic=%s, delay=%s, safe=%s, volume=%s) from t=%s: first row %s, initial condition with rules applied %s"
                                % (stochastic, delay, safe, vol, t0, got, want))
    # deterministic mode, rules for which a second pass is not the same as one pass (self-reference; a rule that reads a later rule's target)
    for safe, vol in itertools.product((False, True), (None, 2.5)):
        M = Model(species=["A", "X", "T"], reactions=[(["A"], [], "massaction", {"k": 0.3})],
                  rules=[("assignment", {"equation": "T = A + X"}, "repeated"), ("assignment", {"equation": "X = X + 2*A"}, "repeated")],
                  initial_condition_dict={"A": 4, "X": 10, "T": 0})
        try:
            df = py_simulate_model(np.linspace(0, 1, 5), Model=M, stochastic=False, safe=safe, volume=vol)
        except Exception as e:
            problems.append("deterministic py_simulate_model(safe=%s, volume=%s) raised %s: %s" % (safe, vol, type(e).__name__, e))
            continue
        got = {s_: float(df[s_].iloc[0]) for s_ in ("A", "X", "T")}
        want = {"A": 4.0, "T": 14.0, "X": 18.0}
        if any(abs(got[s_] - want[s_]) > 1e-9 for s_ in want):
            problems.append("deterministic py_simulate_model(safe=%s, volume=%s): first row %s, initial condition with the rules applied once (in order) %s" % (safe, vol, got, want))
    return {"reproduced": bool(problems), "observed": problems[:3], "expected": "first row = initial condition with assignment rules applied"}


def replay(spec):
    import warnings
    warnings.simplefilter("ignore")
    if spec.get("kind") == "scenario":
        r = replay_first_row()
        if r["reproduced"]:
            return r
        from . import C09
        return C09.replay(spec)
    if spec.get("kind") == "interface":
        r = replay_first_row()
        if r["reproduced"]:
            return r
        from . import C09
        return C09.replay(spec)
    if "with_delay" not in spec:
        from . import ssa
        return ssa.replay(spec)          # obligations of the event loops (init / exit / record facets)
    from bioscrape.types import Model, Volume
    from bioscrape.simulator import py_simulate_model, ModelCSimInterface, SafeModelCSimInterface
    from bioscrape.random import py_seed_random
    v = unfrac(spec.get("values", {}))
    h = float(v.get("h", 0.5)) or 0.5
    n = spec.get("npts", 3)
    tp = np.array([i * h for i in range(n)], dtype=float)
    if spec["with_delay"]:
        rx = [(["A"], [], "massaction", {"k": 1.0}, "fixed", [], ["B"], {"delay": 0.3})]
    else:
        rx = [(["A"], ["B"], "massaction", {"k": 1.0})]
    rules = [("assignment", {"equation": "C = A + B"}, "repeated")] if spec["with_rule"] else []
    M = Model(species=["B", "A", "C"], reactions=rx, rules=rules, initial_condition_dict={"B": 1, "A": 5, "C": 0})
    vol = spec["volume"]
    if vol == "num":
        vol = float(v.get("V", 1.5)) or 1.5
    elif vol == "obj":
        vol = Volume()
        vol.py_set_volume(1.5)
    kw = dict(stochastic=spec["stochastic"], delay=spec["delay"], safe=spec["safe"], volume=vol,
              return_dataframe=spec["frame"])
    if spec["via"] == "interface":
        kw["Interface"] = (SafeModelCSimInterface if spec["safe"] else ModelCSimInterface)(M)
    else:
        kw["Model"] = M
    py_seed_random(3)
    problems = []
    try:
        res = py_simulate_model(tp, **kw)
    except ValueError as e:
        return {"reproduced": True, "observed": "ValueError on a legal combination: %s" % e, "expected": "a result"}
    except Exception as e:
        return {"reproduced": True, "observed": "fails from inside with %s: %s" % (type(e).__name__, e), "expected": "a result or an option error"}
    species = M.get_species_list()
    if spec["frame"]:
        try:
            t = res["time"].to_numpy()
            if t.dtype == object or len(t) != n or not np.allclose(t.astype(float), tp):
                problems.append("time column is %r" % (list(t)[:4],))
        except Exception as e:
            problems.append("time column unusable: %s" % e)
        cols = [c for c in res.columns if c not in ("time", "volume")]
        if spec["via"] == "model" and cols != species:
            problems.append("columns %s, species order %s" % (cols, species))
        if len(res) != n:
            problems.append("%d rows for %d time points" % (len(res), n))
        wants_vol = (spec["stochastic"] or spec["delay"]) and spec["volume"] is not False
        if wants_vol and "volume" not in res.columns:
            problems.append("no volume column")
    else:
        t = res.py_get_timepoints()
        if t is None or len(t) != n or not np.allclose(np.asarray(t, dtype=float), tp):
            problems.append("result time axis is %r" % (t,))
        if res.py_get_result().shape != (n, len(species)):
            problems.append("result shape %s" % (res.py_get_result().shape,))
    if not problems and (spec["stochastic"] or spec["delay"]):
        # a grid that begins after the system's initial time 0: the decay (rate 1 per molecule, 5 molecules) goes on before the first
        # requested time, so the first row is the untouched initial condition with probability exp(-7.5) only - not for every seed
        tp2 = 1.5 + tp
        untouched = 0
        for seed in range(1, 21):
            M2 = Model(species=["B", "A", "C"], reactions=rx, rules=rules, initial_condition_dict={"B": 1, "A": 5, "C": 0})
            kw2 = dict(kw)
            if spec["via"] == "interface":
                kw2["Interface"] = (SafeModelCSimInterface if spec["safe"] else ModelCSimInterface)(M2)
            else:
                kw2["Model"] = M2
            kw2["return_dataframe"] = True
            py_seed_random(seed)
            df2 = py_simulate_model(tp2, **kw2)
            if float(df2["A"].iloc[0]) == 5.0:
                untouched += 1
        if untouched == 20:
            problems.append("grid starting at t=1.5 (initial time 0): the first row is the untouched initial condition for all 20 seeds; what happens before the first "
                            "requested time is not simulated")
    return {"reproduced": bool(problems), "observed": problems, "expected": "complete, correctly labelled result"}
