"""Replay driver for C07: the same option combination on the real build."""
import numpy as np

from .util import unfrac


def replay(spec):
    import warnings
    warnings.simplefilter("ignore")
    if "with_delay" not in spec:
        from . import ssa
        return ssa.replay(spec)          # obligations of the event loops (init / exit / record facets)
    from bioscrape.types import Model, Volume
    from bioscrape.simulator import py_simulate_model, ModelCSimInterface, SafeModelCSimInterface
    from bioscrape.random import py_seed_random
    v = unfrac(spec.get("values", {}))
    h = float(v.get("h", 0.5)) or 0.5
    n = spec.get("npts", 3)
    tp = np.array([i * h for i in range(n)], dtype=float)
    if spec["with_delay"]:
        rx = [(["A"], [], "massaction", {"k": 1.0}, "fixed", [], ["B"], {"delay": 0.3})]
    else:
        rx = [(["A"], ["B"], "massaction", {"k": 1.0})]
    rules = [("assignment", {"equation": "C = A + B"}, "repeated")] if spec["with_rule"] else []
    M = Model(species=["B", "A", "C"], reactions=rx, rules=rules, initial_condition_dict={"B": 1, "A": 5, "C": 0})
    vol = spec["volume"]
    if vol == "num":
        vol = float(v.get("V", 1.5)) or 1.5
    elif vol == "obj":
        vol = Volume()
        vol.py_set_volume(1.5)
    kw = dict(stochastic=spec["stochastic"], delay=spec["delay"], safe=spec["safe"], volume=vol,
              return_dataframe=spec["frame"])
    if spec["via"] == "interface":
        kw["Interface"] = (SafeModelCSimInterface if spec["safe"] else ModelCSimInterface)(M)
    else:
        kw["Model"] = M
    py_seed_random(3)
    problems = []
    try:
        res = py_simulate_model(tp, **kw)
    except ValueError as e:
        return {"reproduced": True, "observed": "ValueError on a legal combination: %s" % e, "expected": "a result"}
    except Exception as e:
        return {"reproduced": True, "observed": "fails from inside with %s: %s" % (type(e).__name__, e), "expected": "a result or an option error"}
    species = M.get_species_list()
    if spec["frame"]:
        try:
            t = res["time"].to_numpy()
            if t.dtype == object or len(t) != n or not np.allclose(t.astype(float), tp):
                problems.append("time column is %r" % (list(t)[:4],))
        except Exception as e:
            problems.append("time column unusable: %s" % e)
        cols = [c for c in res.columns if c not in ("time", "volume")]
        if spec["via"] == "model" and cols != species:
            problems.append("columns %s, species order %s" % (cols, species))
        if len(res) != n:
            problems.append("%d rows for %d time points" % (len(res), n))
        wants_vol = (spec["stochastic"] or spec["delay"]) and spec["volume"] is not False
        if wants_vol and "volume" not in res.columns:
            problems.append("no volume column")
    else:
        t = res.py_get_timepoints()
        if t is None or len(t) != n or not np.allclose(np.asarray(t, dtype=float), tp):
            problems.append("result time axis is %r" % (t,))
        if res.py_get_result().shape != (n, len(species)):
            problems.append("result shape %s" % (res.py_get_result().shape,))
    return {"reproduced": bool(problems), "observed": problems, "expected": "complete, correctly labelled result"}
