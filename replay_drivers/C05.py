"""Replay driver for C05: loop-level findings by seed search (ssa.replay), propensity findings by C01's driver."""
from . import ssa, C01, C08


def replay(spec):
    if spec.get("kind") in ("massaction", "hill"):
        return C01.replay(spec)
    if spec.get("kind") == "follow":
        return C08.replay(spec)
    return ssa.replay(spec)
