"""Replay driver for C05: loop-level findings by seed search (ssa.replay), propensity findings by C01's driver."""
from . import ssa, C01, C08


def replay_array_sum(spec):
    """py_array_sum / py_sample_discrete of the real build for many lengths, and the consequence for a network with that many reactions:
    the last reaction of a chain is the only way into the last species"""
    import numpy as np
    from bioscrape.random import py_array_sum, py_sample_discrete, py_seed_random, py_uniform_rv
    bad = []
    for n in sorted(set(list(range(0, 41)) + [int(spec.get("n", 0)), 64, 65, 100, 129])):
        data = np.arange(1, n + 1, dtype=float) * 0.5
        got = py_array_sum(data, n)
        if abs(got - data.sum()) > 1e-9:
            bad.append("py_array_sum over %d numbers gives %r, their sum is %r" % (n, got, float(data.sum())))
        if 0 < n <= 40:
            for seed in (1, 2, 3):
                py_seed_random(seed)
                j = py_sample_discrete(n, data.copy(), float(data.sum()))
                py_seed_random(seed)
                q = py_uniform_rv() * float(data.sum())
                want = int(np.searchsorted(np.cumsum(data), q, side="left"))
                if j != want:
                    bad.append("py_sample_discrete among %d weights returns %d, the scan of the cumulative sums on the same draw gives %d" % (n, j, want))
                    break
        if len(bad) >= 3:
            break
    return {"reproduced": bool(bad), "observed": bad[:3], "expected": "Lambda = sum of all propensities; reaction j chosen with probability a_j / Lambda"}


def replay(spec):
    if "with_delay" in spec and "via" in spec:          # obligations on py_simulate_model itself (shared with C07)
        from . import C07
        return C07.replay(spec)
    if spec.get("kind") == "array_sum":
        return replay_array_sum(spec)
    if spec.get("kind") in ("massaction", "hill"):
        return C01.replay(spec)
    if spec.get("kind") == "follow":
        return C08.replay(spec)
    return ssa.replay(spec)
