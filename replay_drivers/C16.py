"""Replay driver for C16 (real bioscrape.pid_interfaces against scipy.stats)."""
import math

from .util import unfrac


def _logpdf(fam, h, x):
    from scipy import stats
    if fam == "uniform":
        return stats.uniform(loc=h[0], scale=h[1] - h[0]).logpdf(x)
    if fam == "gaussian":
        return stats.norm(loc=h[0], scale=h[1]).logpdf(x)
    if fam == "exponential":
        return stats.expon(scale=1.0 / h[0]).logpdf(x)
    if fam == "gamma":
        return stats.gamma(a=h[0], scale=1.0 / h[1]).logpdf(x)
    if fam == "beta":
        return stats.beta(h[0], h[1]).logpdf(x)
    if fam == "log-uniform":
        return stats.loguniform(h[0], h[1]).logpdf(x)
    if fam == "log-gaussian":
        return stats.lognorm(s=h[1], scale=math.exp(h[0])).logpdf(x)
    raise ValueError(fam)


def replay(spec):
    import warnings
    warnings.simplefilter("ignore")
    import numpy as np
    from bioscrape.types import Model
    from bioscrape.pid_interfaces import PIDInterface
    vals = unfrac(spec["values"])
    fams, shapes, positives = spec["fams"], spec["shapes"], spec["positives"]
    names = ["p%d" % i for i in range(len(fams))]
    M = Model(species=["X"], parameters=[(n, 1.0) for n in names])
    prior, theta, want = {}, {}, 0.0
    for i, fam in enumerate(fams):
        nh = {"uniform": 2, "gaussian": 2, "exponential": 1, "gamma": 2, "beta": 2, "log-uniform": 2, "log-gaussian": 2}[fam]
        h = []
        for j in range(nh):
            key = "h%d_%d" % (i, j)
            if key in vals:
                h.append(float(vals[key]))
            else:
                h.append(float(shapes[i][j]))
        x = float(vals["x%d" % i])
        prior[names[i]] = [fam] + h + (["positive"] if positives[i] else [])
        theta[names[i]] = x
        lp = float(_logpdf(fam, h, x))
        if positives[i] and x < 0:
            lp = -math.inf
        want += lp
    if spec.get("kind") == "wrapper":
        # the posterior wrapper of the named interface, with a likelihood object that returns 0
        import bioscrape.pid_interfaces as PI

        class _LL:
            def set_init_params(self, d):
                pass

            def py_log_likelihood(self):
                return 0.0
        obj = getattr(PI, spec["cls"])(names, M, prior)
        setattr(obj, "LL_det" if spec["cls"] == "DeterministicInference" else "LL_stoch", _LL())
        try:
            got = float(obj.get_likelihood_function([theta[n] for n in names]))
        except Exception as e:
            return {"reproduced": True, "observed": "raised %s: %s" % (type(e).__name__, e), "expected": "a posterior value"}
        if spec.get("region") == "inside":
            bad = not (math.isfinite(got) and abs(got - want) <= 1e-7 * max(1.0, abs(want)))
            return {"reproduced": bool(bad), "observed": got, "expected": want}
        bad = not (got == -math.inf)
        return {"reproduced": bool(bad), "observed": got, "expected": "-inf (scipy log-density %r)" % want}
    # an earlier interface over the same parameter names with other hyper-parameters must not matter (no shared state)
    try:
        warm = {}
        for i, fam in enumerate(fams):
            hw = [float(x) + 1.5 for x in prior[names[i]][1:] if not isinstance(x, str)]
            if fam in ("uniform", "log-uniform"):
                hw = [0.5, 50.0]
            warm[names[i]] = [fam] + hw
        PIDInterface(names, M, warm).check_prior({n: 0.75 for n in names})
    except Exception:
        pass
    prior = dict(reversed(list(prior.items())))      # as in the harness: the dictionary's order is not the vector's
    import copy as _copy
    before = _copy.deepcopy(prior)
    try:
        PIDInterface(names, M, prior).check_prior(dict(theta))     # an earlier interface over the same dictionary object
    except Exception:
        pass
    pid = PIDInterface(names, M, prior)
    if prior != before:
        return {"reproduced": True, "observed": "building an interface changed the caller's prior dictionary: %s -> %s" % (before, prior), "expected": "an unmodified dictionary"}
    try:
        got = pid.check_prior(theta)
        got = float(got)
    except Exception as e:      # an exception from inside is also not the documented behaviour
        return {"reproduced": True, "observed": "raised %s: %s" % (type(e).__name__, e), "expected": want}
    if math.isinf(want) or math.isnan(want):
        bad = math.isfinite(got)
        return {"reproduced": bool(bad), "observed": got, "expected": "rejected (non-finite); scipy log-density %r" % want}
    bad = not (math.isfinite(got) and abs(got - want) <= 1e-7 * max(1.0, abs(want)))
    return {"reproduced": bool(bad), "observed": got, "expected": want}
