"""Front end: parse /repo's current .pyx/.pxd/.py files with Cython's parser (no compilation)
and collect classes, functions and C types.  Nothing is cached between runs."""
import os
import re

from Cython.Compiler.TreeFragment import parse_from_strings
from Cython.Compiler import Nodes as N, ExprNodes as E

from .sym import Unsupported

REPO = os.environ.get("VERIF_REPO", "/repo")

# logical module name -> (pyx/py path, pxd path or None), relative to the repository root
MODULE_FILES = {
    "bioscrape.types": ("bioscrape/types.pyx", "bioscrape/types.pxd"),
    "bioscrape.simulator": ("bioscrape/simulator.pyx", "bioscrape/simulator.pxd"),
    "bioscrape.random": ("bioscrape/random.pyx", "bioscrape/random.pxd"),
    "bioscrape.inference": ("bioscrape/inference.pyx", "bioscrape/inference.pxd"),
    "bioscrape.lineage": ("lineage/lineage.pyx", "lineage/lineage.pxd"),
    "bioscrape.analysis": ("bioscrape/analysis.py", None),
    "bioscrape.pid_interfaces": ("bioscrape/pid_interfaces.py", None),
    "bioscrape.inference_setup": ("bioscrape/inference_setup.py", None),
    "bioscrape.sbmlutil": ("bioscrape/sbmlutil.py", None),
}
ALIASES = {
    "types": "bioscrape.types", "simulator": "bioscrape.simulator", "random": "bioscrape.random",
    "inference": "bioscrape.inference", "lineage": "bioscrape.lineage",
}


def parse_file(path, modname):
    with open(path, encoding="utf-8") as f:
        src = f.read()
    try:
        return parse_from_strings(modname, src), src
    except Exception as e:  # pragma: no cover
        raise Unsupported("cannot parse %s: %s" % (path, e))


# ---------------------------------------------------------------------------------------
# C types

def ctype_of_base(bt):
    """Translate a base-type node (+ no declarator) to a ctype descriptor."""
    if bt is None:
        return "obj"
    if isinstance(bt, N.CSimpleBaseTypeNode):
        name = bt.name
        if bt.is_basic_c_type:
            if name == "double":
                return "double"
            if name == "float":
                return "float32"          # a C float: values are rounded to single precision on assignment (see Interp.coerce)
            if name == "void":
                return "void"
            if name == "bint":
                return "bint"
            if name in ("int", "long", "short", "char", "size_t", "Py_ssize_t"):
                unsigned = (bt.signed == 0) or name == "size_t"
                if name == "long" or bt.longness >= 1 or name in ("size_t", "Py_ssize_t"):
                    return "ulong" if unsigned else "long"
                if bt.longness < 0 or name == "short":
                    return "ushort" if unsigned else "short"
                return "uint" if unsigned else "int"
            return "obj"
        if name in ("unsigned",):
            return "uint"
        if name is None or name in ("self", "object"):
            return "obj"
        return ("cls", name)
    if isinstance(bt, N.TemplatedTypeNode):
        base = bt.base_type_node
        bname = getattr(base, "name", None)
        if bname == "vector":
            arg = bt.positional_args[0]
            return ("vector", ctype_of_decl(arg.base_type, arg.declarator)
                    if isinstance(arg, N.CComplexBaseTypeNode) else "obj")
        return ("cls", bname)      # np.ndarray[...] buffers
    if isinstance(bt, N.MemoryViewSliceTypeNode):
        return ("memview", ctype_of_base(bt.base_type_node))
    if isinstance(bt, N.CComplexBaseTypeNode):
        return ctype_of_decl(bt.base_type, bt.declarator)
    if isinstance(bt, N.CNestedBaseTypeNode):
        return ("cls", bt.name)
    return "obj"


def ctype_of_decl(bt, decl):
    t = ctype_of_base(bt)
    d = decl
    while d is not None:
        if isinstance(d, N.CPtrDeclaratorNode):
            t = ("ptr", t)
            d = d.base
        elif isinstance(d, N.CArrayDeclaratorNode):
            dim = d.dimension
            n = int(dim.value, 0) if isinstance(dim, E.IntNode) else None
            t = ("array", t, n)
            d = d.base
        elif isinstance(d, N.CFuncDeclaratorNode):
            d = d.base
        elif isinstance(d, N.CReferenceDeclaratorNode):
            d = d.base
        else:
            break
    return t


def decl_name(decl):
    d = decl
    while not isinstance(d, N.CNameDeclaratorNode):
        d = d.base
    return d.name


def func_declarator(decl):
    d = decl
    while not isinstance(d, N.CFuncDeclaratorNode):
        d = d.base
    return d


class FuncInfo:
    def __init__(self, name, node, module, cls=None, kind="def"):
        self.name = name
        self.node = node
        self.module = module
        self.cls = cls
        self.kind = kind
        self.args = []          # (name, ctype, default_node, kw_only)
        self.star = None
        self.starstar = None
        self.ret = "obj"
        self.is_static = False
        self.is_classmethod = False
        self.is_property = False
        self.body = None
        self.native = None      # python callable replacing the body (stubs)
        self.line = node.pos[1] if node is not None else 0

    @property
    def qualname(self):
        return (self.cls.name + "." if self.cls else "") + self.name

    def __repr__(self):
        return "<FuncInfo %s.%s>" % (self.module.name if self.module else "?", self.qualname)


def _args_of(argnodes, is_method):
    out = []
    for i, a in enumerate(argnodes):
        nm = decl_name(a.declarator)
        bt = a.base_type
        if nm == "" and isinstance(bt, N.CSimpleBaseTypeNode):
            # "self" in cdef methods or untyped def arg: the *type name* is the arg name
            nm = bt.name
            ct = "obj"
        else:
            ct = ctype_of_decl(bt, a.declarator)
        out.append((nm, ct, a.default, bool(getattr(a, "kw_only", 0))))
    return out


def make_funcinfo(node, module, cls):
    if isinstance(node, N.DefNode):
        fi = FuncInfo(node.name, node, module, cls, "def")
        fi.args = _args_of(node.args, cls is not None)
        fi.star = node.star_arg.name if node.star_arg is not None else None
        fi.starstar = node.starstar_arg.name if node.starstar_arg is not None else None
        fi.body = node.body
        for d in (node.decorators or []):
            dn = d.decorator
            if isinstance(dn, E.NameNode) and dn.name == "staticmethod":
                fi.is_static = True
            if isinstance(dn, E.NameNode) and dn.name == "classmethod":
                fi.is_classmethod = True
            if isinstance(dn, E.NameNode) and dn.name == "property":
                fi.is_property = True
        return fi
    if isinstance(node, N.CFuncDefNode):
        fd = func_declarator(node.declarator)
        fi = FuncInfo(decl_name(node.declarator), node, module, cls, "cdef")
        fi.args = _args_of(fd.args, cls is not None)
        fi.ret = ctype_of_decl(node.base_type, node.declarator)
        fi.body = node.body
        return fi
    raise Unsupported("function node %s" % type(node).__name__)


class ClassInfo:
    def __init__(self, name, module, is_cdef):
        self.name = name
        self.module = module
        self.is_cdef = is_cdef
        self.base_exprs = []     # expression nodes or names
        self.bases = None        # resolved lazily: list of ClassInfo / native types
        self.attrs = {}          # cdef attribute -> ctype
        self.methods = {}        # name -> FuncInfo
        self.class_vars = {}     # python class-level attributes (evaluated at module exec)
        self.body = None
        self.line = 0
        self.interp = None

    def __repr__(self):
        return "<class %s.%s>" % (self.module.name, self.name)

    # constructor call from native code / interpreter
    def __call__(self, *args, **kw):
        return self.interp.instantiate(self, args, kw)

    def mro(self):
        out = [self]
        for b in (self.bases or []):
            if isinstance(b, ClassInfo):
                for c in b.mro():
                    if c not in out:
                        out.append(c)
        return out

    def find_method(self, name, after=None):
        seq = self.mro()
        if after is not None:
            seq = seq[seq.index(after) + 1:]
        for c in seq:
            if name in c.methods:
                return c.methods[name]
        return None

    def all_attrs(self):
        out = {}
        for c in reversed(self.mro()):
            out.update(c.attrs)
        return out

    def issubclass_of(self, other):
        return other in self.mro()

    def __getattr__(self, name):
        if name.startswith("__") and name.endswith("__") and name not in ("__name__", "__init__"):
            raise AttributeError(name)
        if name == "__name__":
            return self.__dict__["name"]
        d = self.__dict__
        for c in d["interp"].mro_of(self):
            if isinstance(c, ClassInfo):
                if name in c.methods:
                    fi = c.methods[name]
                    if getattr(fi, "is_classmethod", False):
                        from .values import BoundMethod
                        return BoundMethod(d["interp"], self, fi)
                    return d["interp"].make_function(fi)
                if name in c.class_vars:
                    return c.class_vars[name]
        raise AttributeError("class %s has no attribute %s" % (d["name"], name))


class ModuleInfo:
    def __init__(self, name, path):
        self.name = name
        self.path = path
        self.ns = {}
        self.gtypes = {}       # module-level cdef variable types
        self.classes = {}
        self.funcs = {}
        self.tree = None
        self.pxd_tree = None
        self.executed = False
        self.cdivision = True       # overwritten from the source's "# cython: cdivision" directive when it is parsed

    def __repr__(self):
        return "<module %s>" % self.name

    def __getattr__(self, name):
        ns = self.__dict__.get("ns", {})
        if name in ns:
            return ns[name]
        raise AttributeError("module %s has no attribute %s" % (self.__dict__.get("name"), name))


def collect_class_body(ci, body, module):
    """Register attributes / methods declared in a class body (pyx or pxd)."""
    stats = body.stats if isinstance(body, N.StatListNode) else [body]
    for st in stats:
        if isinstance(st, N.CVarDefNode):
            for d in st.declarators:
                if isinstance(func_or_none(d), N.CFuncDeclaratorNode):
                    continue       # method prototype in a pxd
                ci.attrs[decl_name(d)] = ctype_of_decl(st.base_type, d)
        elif isinstance(st, (N.DefNode, N.CFuncDefNode)):
            fi = make_funcinfo(st, module, ci)
            ci.methods[fi.name] = fi
        elif isinstance(st, N.StatListNode):
            collect_class_body(ci, st, module)


def func_or_none(d):
    while d is not None:
        if isinstance(d, N.CFuncDeclaratorNode):
            return d
        d = getattr(d, "base", None)
    return None
