"""Engine self-test: small pure-Python functions covering the language constructs a maintainer's refactoring may
introduce, run in the interpreter (concrete mode) and natively by CPython; results must be equal.
Run: .venv/bin/python -m pyxsym.selftest"""
import sys
import math

CORPUS = r'''
import math
import numpy as np

def t_genexpr(d, u):
    return ", ".join(s for s in d if u[d[s]])

def t_comprehensions(xs):
    return (sum(x * x for x in xs), any(x > 2 for x in xs), all(x > 0 for x in xs), sorted((x for x in xs), reverse=True),
            {k: v for k, v in zip("ab", xs)}, [y for x in xs for y in (x, -x) if y], {x % 2 for x in xs},
            max(x for x in xs), list(enumerate(xs, 1)), list(zip(xs, xs[1:])), tuple(reversed(xs)))

def t_loops(n):
    i = 0
    acc = []
    while True:
        i += 1
        if i % 2:
            continue
        acc.append(i)
        if i > n:
            break
    else:
        acc.append(-1)
    for k in range(3):
        pass
    else:
        acc.append(99)
    for a, (b, c) in [(1, (2, 3)), (4, (5, 6))]:
        acc.append(a + b * c)
    for j in range(10, 0, -3):
        acc.append(j)
    return acc

def t_lambda_star(xs):
    f = lambda a, b=2, *r, **k: (a * b, r, sorted(k))
    first, *rest = xs
    a, b = b, a = 1, 2
    return f(3), f(1, 2, 3, 4, z=1), [*xs, 5], {**{"a": 1}, "b": 2}, first, rest, (a, b)

def t_condexpr(x):
    y = 1 if x > 0 else -1 if x < 0 else 0
    z = x or 7
    w = x and 3
    return y, z, w, not x, (x if x else None) is None

def t_strings(name, v):
    return f"{name}:{v:.3f}|{v!r}|{name!s:>6}", "%s=%d %5.2f" % (name, 3, v), "{0}-{1}".format(name, v), name.upper()[1:-1], name * 2, "a,b".split(","), ",".join(["x", "y"])

def t_try(x):
    out = []
    try:
        out.append(10 // x)
    except ZeroDivisionError as e:
        out.append("zde")
    else:
        out.append("else")
    finally:
        out.append("fin")
    try:
        raise ValueError("bad %d" % x)
    except (KeyError, ValueError) as e:
        out.append(str(e))
    try:
        try:
            {}["k"]
        except KeyError:
            raise RuntimeError("wrapped")
    except RuntimeError as e:
        out.append(e.args[0])
    return out

def t_closure(n):
    total = [0]
    def add(k):
        total[0] += k
        return total[0]
    def make(m):
        def inner(q):
            nonlocal m
            m += q
            return m
        return inner
    g = make(10)
    return [add(i) for i in range(n)], g(1), g(2)

class Base:
    kind = "base"
    def __init__(self, v):
        self.v = v
    def double(self):
        return 2 * self.v
    @staticmethod
    def s(x):
        return x + 1
    @classmethod
    def make(cls, v):
        return cls(v)
    @property
    def prop(self):
        return self.v * 10
    def __eq__(self, o):
        return isinstance(o, Base) and o.v == self.v
    def __len__(self):
        return 3

class Child(Base):
    kind = "child"
    def __init__(self, v, w=5):
        super().__init__(v)
        self.w = w
    def double(self):
        return super().double() + self.w

def t_classes():
    c = Child(4)
    b = Base.make(4)
    return (c.double(), c.kind, b.kind, Base.s(1), c.prop, c == Child(4, 9), len(c), isinstance(c, Base), hasattr(c, "w"), getattr(c, "zz", None),
            type(c).__name__, [type(x).__name__ for x in (1, 1.5, "s", None, [], {}, ())])

def t_dicts_sets(keys):
    d = {}
    for k in keys:
        d[k] = d.get(k, 0) + 1
        d.setdefault("all", []).append(k)
    s = set(keys)
    s.discard("zz")
    e = dict(a=1)
    e.update(b=2)
    del e["a"]
    return sorted(d.items(), key=lambda kv: str(kv[0])), sorted(s), e, "a" in e, list(d.keys())[:2], e.pop("b"), len(e), dict(zip("xy", (1, 2))), sorted({1: 2}.values())

def t_numpy(n):
    a = np.zeros((2, n))
    a[0, :] = np.arange(n)
    a[1, 1:] += 2.5
    b = a.copy()
    b[0, 0] = 9
    m = a[:, 1:]
    v = np.array([1.0, 2.0, 3.0])
    w = np.where(v > 1.5, 0.0, v)
    return (a.tolist(), b.tolist(), m.shape, float(a.sum()), (v * 2).tolist(), w.tolist(), bool((v > 0).all()), bool((v == -1).any()), int(np.argmax(v)),
            np.linspace(0, 1, 3).tolist(), float(np.dot(v, v)), v[::-1].tolist(), np.array([[1, 2], [3, 4]]).T.tolist(), len(v), list(v.shape))

def t_math(x):
    return (math.floor(x), math.ceil(x), round(x), round(x, 1), abs(-x), int(x), float(int(x)), divmod(7, 3), 7 // 2, -7 // 2, 7 % 3, -7 % 3, 2 ** 10, x ** 2,
            min(3, x, 2), max([1, x]), sum([1, 2, 3], 10), math.sqrt(16.0), math.isnan(float("nan")), math.isinf(float("inf")), 1e-3, 0x10, 1_000, bool(x), x != x)

def t_slices(xs):
    ys = list(xs)
    ys[1:3] = [0]
    zs = xs[:]
    zs += [1]
    zs *= 2
    t = tuple(xs)
    return ys, zs, xs[-1], xs[::2], xs[1:-1], t[1:], t + (1,), t.index(xs[1]), ys.count(0), sorted(xs, key=lambda q: -q), xs.index(xs[0]), list(map(str, xs)), list(filter(None, [0, 1, 2]))

def t_assert_global(x):
    assert x > 0, "positive"
    global _G
    _G = x
    with_value = None
    if (n := x + 1) > 2:
        with_value = n
    return _G, with_value, x in (1, 2, 3), x not in [5], x is not None, isinstance(x, (int, float))

def t_kwargs(*args, **kw):
    def inner(a, b=1, *, c=2, **rest):
        return a, b, c, sorted(rest.items())
    return inner(*args, **kw), inner(1, c=5), inner(a=3, d=4)

def t_inplace_alias(n):
    a = np.zeros(n)
    b = a
    b += 1.0
    c = a[1:]
    c *= 3.0
    l = [1]
    m = l
    m += [2]
    m *= 2
    d = {"k": [0]}
    d["k"] += [5]
    t = (1,)
    u = t
    u += (2,)
    x = 1.5
    y = x
    y += 1
    s = {1}
    r = s
    r |= {2}
    return a.tolist(), l, d, t, u, x, y, sorted(s), a is b, l is m

def t_views_and_copies(n):
    a = np.zeros(n)
    b = np.ascontiguousarray(a, dtype=np.double)       # the same object
    b[0] = 5.0
    c = np.asarray(a)                                   # the same object
    c[1] = 6.0
    d = np.array(a)                                     # a copy
    d[2] = 7.0
    e = a[1:]                                           # a view
    e[0] += 1.0
    f = np.ascontiguousarray([1.0, 2.0])                # a new array
    g = a.copy()
    g[0] = -1.0
    h = np.ascontiguousarray(a[::2])                    # not contiguous: a copy
    h[0] = -2.0
    return a.tolist(), b is a, c is a, d is a, d.tolist(), f.tolist(), g.tolist(), h.tolist()

def t_while_else(n):
    k = 0
    while k < n:
        k += 1
        if k == 100:
            break
    else:
        k = -k
    return k

def t_chained(a, b, c):
    return a < b < c, a < b > c, a == b == c, (a < b) == (b < c), 1 if a < b <= c else 0
'''

CALLS = [
    ("t_genexpr", ({"a": 0, "b": 1, "c": 2}, [True, False, True])),
    ("t_comprehensions", ([3, 1, 2],)), ("t_loops", (5,)), ("t_lambda_star", ([1, 2, 3],)), ("t_condexpr", (2,)), ("t_condexpr", (0,)),
    ("t_strings", ("name", 2.5)), ("t_try", (0,)), ("t_try", (3,)), ("t_closure", (4,)), ("t_classes", ()), ("t_dicts_sets", (["a", "b", "a"],)),
    ("t_numpy", (3,)), ("t_math", (2.5,)), ("t_slices", ([4, 2, 7, 1],)), ("t_assert_global", (2,)), ("t_kwargs", ((1, 2), {"c": 3, "e": 5})),
    ("t_while_else", (3,)), ("t_inplace_alias", (3,)), ("t_views_and_copies", (4,)), ("t_chained", (1, 2, 3)), ("t_chained", (1, 3, 2)),
]

CYTHON_CORPUS = r"""
# cython: boundscheck=False
# cython: cdivision=True
# cython: wraparound=False
cimport cython
cimport numpy as np
import numpy as np
from libc.math cimport log, sqrt, exp, fabs, floor, pow, fmax, fmin, ceil
from libcpp.vector cimport vector

ctypedef double real_t

cdef inline double sq(double x):
    return x * x

cdef double acc_view(double[:] v, unsigned n):
    cdef double tot = 0.0
    cdef unsigned i
    for i in range(n):
        tot += v[i]
    return tot

cdef void bump(double* p, int n) except *:
    cdef int i = 0
    while i < n:
        p[i] = p[i] + 1.0
        i += 1

@cython.boundscheck(False)
cpdef double cp(double a, int b=2):
    return a * b

cdef class Acc:
    cdef double total
    cdef public int count
    cdef vector[int] idx
    cdef vector[void*] objs
    cdef list items
    def __init__(self, double start=0.0):
        self.total = start
        self.count = 0
        self.items = []
    cdef void add(self, double x):
        self.total += x
        self.count += 1
        self.idx.push_back(self.count)
    cdef inline double mean(self):
        return self.total / self.count if self.count else 0.0
    def py_add_all(self, xs):
        cdef double x
        for x in xs:
            self.add(x)
        return self.mean(), self.idx.size(), self.idx[self.idx.size() - 1]
    def keep(self, obj):
        self.items.append(obj)
        self.objs.push_back(<void*> obj)
        return (<Acc> self.objs[0]).count if isinstance(obj, Acc) else len(self.items)

cdef class Sub(Acc):
    cdef void add(self, double x):
        Acc.add(self, 2 * x)

def t_cy_basic(n):
    cdef int i, j = 3
    cdef unsigned k
    cdef double x = 0.5, y
    cdef real_t z = 2.0
    cdef np.ndarray[np.double_t, ndim=1] a = np.zeros(n)
    cdef double[:] view = a
    cdef double[:, :] m = np.zeros((2, n))
    for i in range(n):
        a[i] = i * x
        m[1, i] = sq(a[i])
    for k from 0 <= k < n:
        view[k] += 1.0
    bump(<double*> a.data, n)
    bump(&view[0], 1)
    y = acc_view(view, n)
    return (y, j // 2, -7 / 2, -7 % 3, <int> 2.9, <double> j / 2, sq(z), cp(1.5), cp(1.5, 3), np.asarray(m)[1].tolist(), a.shape[0], view.shape[0],
            fabs(-1.5), floor(2.7), pow(2.0, 3.0), sqrt(16.0), 1 if x < 1 else 0)

def t_cy_libm_unsigned(n):
    cdef unsigned u = 0
    cdef unsigned w = n
    cdef int i = 0
    cdef double v = 2.0
    return (fmax(1.5, -2.0), fmin(1.5, -2.0), fmax(-1.0, -1.0), ceil(2.1), floor(-2.1), u - 1, w - 1, i - 1, v ** (i - 1), 1.0 / (v ** (w - 1)))

def t_cy_class():
    a = Acc(1.0)
    s = Sub()
    r1 = a.py_add_all([1.0, 2.0, 3.0])
    r2 = s.py_add_all([1.0, 2.0])
    return r1, r2, a.count, a.keep(s), a.keep(a), isinstance(s, Acc)

def t_cy_vector():
    cdef vector[double] v
    cdef vector[vector[int]] vv
    cdef unsigned i
    for i in range(4):
        v.push_back(i * 1.5)
    vv.push_back(vector[int]())
    vv[0].push_back(7)
    vv.push_back(vector[int]())
    v[1] = 9.0
    tot = 0.0
    for i in range(v.size()):
        tot += v[i]
    v.clear()
    return tot, v.size(), vv.size(), vv[0][0], vv[1].size()

def t_cy_float32(x):
    cdef float f = 0.1
    cdef float g = 16777217.0
    cdef float h = 0.5
    cdef float y = x
    cdef double d = 0.1
    return f == 0.1, g, h, d == 0.1, y, f > 0.1

def t_cy_vector_resize():
    cdef vector[vector[int]] vv
    cdef vector[double] v
    vv.resize(2)
    vv[1].push_back(3)
    vv.resize(3)
    vv.resize(3)                 # same size again: contents stay
    vv[1].push_back(4)
    v.resize(3)
    v[1] = 2.5
    v.resize(2)
    v.push_back(7.0)
    return vv.size(), vv[0].size(), vv[1].size(), vv[1][1], vv[2].size(), v.size(), v[0], v[1], v.back(), v.empty(), v.front()

def t_cy_nogil_with(n):
    cdef int i, s = 0
    with nogil:
        for i in range(n):
            s += i
    return s
"""

CYTHON_EXPECT = {
    "t_cy_basic": ((4,), (12.0, 1, -3, -1, 2, 1.5, 4.0, 3.0, 4.5, [0.0, 0.25, 1.0, 2.25], 4, 4, 1.5, 2.0, 8.0, 4.0, 1)),
    "t_cy_libm_unsigned": ((3,), (1.5, -2.0, -1.0, 3.0, -3.0, 4294967295, 2, -1, 0.5, 0.25)),
    "t_cy_class": ((), ((7.0 / 3, 3, 3), (3.0, 2, 2), 3, 2, 2, True)),
    "t_cy_vector": ((), (16.5, 0, 2, 7, 0)),
    "t_cy_float32": ((2.25,), (False, 16777216.0, 0.5, True, 2.25, True)),
    "t_cy_vector_resize": ((), (3, 0, 2, 4, 0, 3, 0.0, 2.5, 7.0, False, 0.0)),
    "t_cy_nogil_with": ((5,), 10),
}


def main():
    sys.path.insert(0, "/verif")
    from pyxsym.interp import Interp
    from pyxsym.sym import Context
    native = {}
    exec(compile(CORPUS, "<corpus>", "exec"), native)
    interp = Interp("/repo")
    bad = 0
    box = {}

    def load(cx):
        box["m"] = interp.load_source("selftest_corpus", CORPUS)
    c = Context(name="selftest", exact=False)
    c.run(load)
    mod = box["m"]
    for name, args in CALLS:
        if name == "t_kwargs":
            want = native[name](*args[0], **args[1])
        else:
            want = native[name](*args)
        res = {}

        def h(cx):
            f = mod.ns[name]
            res["v"] = f(*args[0], **args[1]) if name == "t_kwargs" else f(*args)
        c = Context(name="selftest/" + name, exact=False)
        try:
            c.run(h)
            got = res.get("v")
            ok = repr(got) == repr(want)
        except BaseException as e:
            got, ok = "%s: %s" % (type(e).__name__, str(e)[:200]), False
        if not ok:
            bad += 1
            print("MISMATCH %s%r\n   interpreter: %r\n   CPython    : %r" % (name, args, got, want))
    print("engine self-test: %d/%d calls agree with CPython" % (len(CALLS) - bad, len(CALLS)))
    # Cython constructs: expected values written by hand (C semantics under cdivision=True)
    box = {}

    def load2(cx):
        box["m"] = interp.load_source("selftest_cython", CYTHON_CORPUS)
    c = Context(name="selftest", exact=False)
    bad2 = 0
    try:
        c.run(load2)
    except BaseException as e:
        print("MISMATCH loading the Cython corpus: %s: %s" % (type(e).__name__, str(e)[:300]))
        return 1
    for name, (args, want) in CYTHON_EXPECT.items():
        res = {}

        def h(cx):
            res["v"] = box["m"].ns[name](*args)
        c = Context(name="selftest/" + name, exact=False)
        try:
            c.run(h)
            got = res.get("v")
            ok = repr(got) == repr(want)
        except BaseException as e:
            got, ok = "%s: %s" % (type(e).__name__, str(e)[:300]), False
        if not ok:
            bad2 += 1
            print("MISMATCH %s%r\n   interpreter: %r\n   expected   : %r" % (name, args, got, want))
    print("engine self-test: %d/%d Cython-construct calls give the expected values" % (len(CYTHON_EXPECT) - bad2, len(CYTHON_EXPECT)))
    return 1 if (bad or bad2) else 0


if __name__ == "__main__":
    sys.exit(main())
