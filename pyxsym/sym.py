"""Symbolic values, path explorer and solver facade for pyxsym.

Numbers are z3 Reals/Ints wrapped in `Sym`; booleans in `SymBool`.  Truth-testing a
symbolic boolean consults the explorer's decision trail (re-execution DFS), so both the
interpreter and *native* Python code (max, sorted, ``if`` inside helper lambdas) fork
paths in the same way.
"""
import time
import math
import itertools
from fractions import Fraction

import sys
import z3

if hasattr(sys, "set_int_max_str_digits"):
    sys.set_int_max_str_digits(0)


class EngineSignal(BaseException):
    """Base of engine-internal signals; never caught by interpreted ``except`` clauses."""


class Unsupported(EngineSignal):
    pass


class Infeasible(EngineSignal):
    """Current path condition became unsatisfiable (path is dropped)."""


class UnwindExceeded(EngineSignal):
    pass


class PathCut(EngineSignal):
    """The harness deliberately ends this path (stated bound reached); counted, not an error."""


class PathBudget(EngineSignal):
    pass


class CFault(Exception):
    """A C-level fault the real binary would exhibit as memory-unsafety (out-of-bounds
    index, NULL deref...).  It is an ordinary path outcome."""


_CTX = None


def ctx():
    if _CTX is None:
        raise RuntimeError("no active exploration context")
    return _CTX


def _frac(v):
    if isinstance(v, bool):
        return Fraction(int(v))
    if isinstance(v, int):
        return Fraction(v)
    if isinstance(v, Fraction):
        return v
    if isinstance(v, float):
        if math.isnan(v) or math.isinf(v):
            raise Unsupported("non-finite float %r mixed with a symbolic value" % v)
        return Fraction(repr(v))
    try:
        import numpy as _np
        if isinstance(v, _np.integer):
            return Fraction(int(v))
        if isinstance(v, _np.floating):
            return _frac(float(v))
        if isinstance(v, _np.bool_):
            return Fraction(int(v))
    except ImportError:
        pass
    raise Unsupported("cannot lift %r (%s) to a real" % (v, type(v).__name__))


def is_sym(v):
    return isinstance(v, (Sym, SymBool))


def is_num(v):
    return isinstance(v, (int, float, Fraction, Sym)) and not isinstance(v, bool) or isinstance(v, bool)


def zreal(v):
    """z3 Real term for a concrete or symbolic number."""
    if isinstance(v, Sym):
        return z3.ToReal(v.z) if v.is_int else v.z
    if isinstance(v, SymBool):
        return z3.If(v.z, z3.RealVal(1), z3.RealVal(0))
    f = _frac(v)
    return z3.RealVal(f)


def zint(v):
    if isinstance(v, Sym):
        if not v.is_int:
            raise Unsupported("real used where an integer term is needed")
        return v.z
    if isinstance(v, SymBool):
        return z3.If(v.z, z3.IntVal(1), z3.IntVal(0))
    f = _frac(v)
    if f.denominator != 1:
        raise Unsupported("non-integer used as integer")
    return z3.IntVal(int(f))


def _is_intlike(v):
    if isinstance(v, Sym):
        return v.is_int
    if isinstance(v, (bool, int)):
        return True
    if isinstance(v, SymBool):
        return True
    try:
        import numpy as _np
        if isinstance(v, _np.integer):
            return True
    except ImportError:
        pass
    return False


def _isnan(v):
    return isinstance(v, float) and math.isnan(v)


class Sym:
    __slots__ = ("z", "is_int")
    __array_priority__ = 1000

    def __init__(self, z):
        self.z = z
        self.is_int = z.sort().kind() == z3.Z3_INT_SORT

    # ---- helpers
    def _bin(self, other, op, rev=False, kind=None):
        if _isnan(other):
            return other
        if isinstance(other, float) and math.isinf(other):
            if kind == "add":
                return other
            if kind == "sub":
                return other if rev else -other
            raise Unsupported("symbolic value combined with infinity by %s" % kind)
        if isinstance(other, (list, tuple, dict, str, type(None))):
            return NotImplemented
        try:
            import numpy as _np
            if isinstance(other, _np.ndarray):
                return NotImplemented
        except ImportError:
            pass
        if self.is_int and _is_intlike(other):
            a, b = self.z, zint(other)
        else:
            a, b = zreal(self), zreal(other)
        if rev:
            a, b = b, a
        return Sym(z3.simplify(op(a, b)))

    def __add__(self, o):
        return self._bin(o, lambda a, b: a + b, False, "add")

    def __radd__(self, o):
        return self._bin(o, lambda a, b: a + b, True, "add")

    def __sub__(self, o):
        return self._bin(o, lambda a, b: a - b, False, "sub")

    def __rsub__(self, o):
        return self._bin(o, lambda a, b: a - b, True, "sub")

    def __mul__(self, o):
        return self._bin(o, lambda a, b: a * b)

    def __rmul__(self, o):
        return self._bin(o, lambda a, b: a * b, True)

    def __truediv__(self, o):
        if _isnan(o):
            return o
        return Sym(z3.simplify(zreal(self) / zreal(o)))

    def __rtruediv__(self, o):
        if _isnan(o):
            return o
        return Sym(z3.simplify(zreal(o) / zreal(self)))

    def __floordiv__(self, o):
        if self.is_int and _is_intlike(o):
            return Sym(z3.simplify(self.z / zint(o)))   # python floor == z3 div for positive divisor
        return Sym(z3.ToInt(zreal(self) / zreal(o)))

    def __mod__(self, o):
        if self.is_int and _is_intlike(o):
            return Sym(z3.simplify(self.z % zint(o)))
        raise Unsupported("real modulo")

    def __rmod__(self, o):
        if self.is_int and _is_intlike(o):
            return Sym(z3.simplify(zint(o) % self.z))
        raise Unsupported("real modulo")

    def __neg__(self):
        return Sym(z3.simplify(-self.z))

    def __pos__(self):
        return self

    def __abs__(self):
        return Sym(z3.simplify(z3.If(self.z >= 0, self.z, -self.z)))

    def __pow__(self, o):
        return sym_pow(self, o)

    def __rpow__(self, o):
        return sym_pow(o, self)

    def _cmp(self, o, op):
        if o is None or isinstance(o, (str, list, tuple, dict)):
            return NotImplemented
        if _isnan(o):
            return False
        if isinstance(o, float) and math.isinf(o):
            return bool(op(0.0, o))
        if self.is_int and _is_intlike(o):
            a, b = self.z, zint(o)
        else:
            a, b = zreal(self), zreal(o)
        return SymBool(z3.simplify(op(a, b)))

    def __lt__(self, o):
        return self._cmp(o, lambda a, b: a < b)

    def __le__(self, o):
        return self._cmp(o, lambda a, b: a <= b)

    def __gt__(self, o):
        return self._cmp(o, lambda a, b: a > b)

    def __ge__(self, o):
        return self._cmp(o, lambda a, b: a >= b)

    def __eq__(self, o):
        r = self._cmp(o, lambda a, b: a == b)
        return False if r is NotImplemented else r

    def __ne__(self, o):
        r = self._cmp(o, lambda a, b: a != b)
        return True if r is NotImplemented else r

    def __hash__(self):
        return id(self)

    def __bool__(self):
        return ctx().branch(self.z != 0)

    def __float__(self):
        raise Unsupported("symbolic value reached native float(): %s" % self.z)

    def __int__(self):
        raise Unsupported("symbolic value reached native int(): %s" % self.z)

    def __index__(self):
        raise Unsupported("symbolic value used as native index: %s" % self.z)

    def __repr__(self):
        return "Sym(%s)" % (self.z,)

    __str__ = __repr__


class SymBool:
    __slots__ = ("z",)

    def __init__(self, z):
        self.z = z

    def __bool__(self):
        return ctx().branch(self.z)

    def __eq__(self, o):
        if isinstance(o, SymBool):
            return SymBool(self.z == o.z)
        if isinstance(o, bool):
            return SymBool(self.z if o else z3.Not(self.z))
        if isinstance(o, (int, float, Fraction, Sym)):
            return Sym(z3.If(self.z, z3.IntVal(1), z3.IntVal(0))) == o
        return False

    def __ne__(self, o):
        r = self.__eq__(o)
        if isinstance(r, SymBool):
            return SymBool(z3.Not(r.z))
        return not r

    def __hash__(self):
        return id(self)

    def _num(self):
        return Sym(z3.If(self.z, z3.IntVal(1), z3.IntVal(0)))

    def __add__(self, o):
        return self._num() + o

    __radd__ = __add__

    def __mul__(self, o):
        return self._num() * o

    __rmul__ = __mul__

    def __and__(self, o):
        return SymBool(z3.And(self.z, zbool(o)))

    __rand__ = __and__

    def __or__(self, o):
        return SymBool(z3.Or(self.z, zbool(o)))

    __ror__ = __or__

    def __invert__(self):
        return SymBool(z3.Not(self.z))

    def __repr__(self):
        return "SymBool(%s)" % (self.z,)


def zbool(v):
    if isinstance(v, SymBool):
        return v.z
    if isinstance(v, Sym):
        return v.z != 0
    if isinstance(v, z3.BoolRef):
        return v
    return z3.BoolVal(bool(v))


# ----------------------------------------------------------------------------------------
# transcendental functions as uninterpreted functions + lemmas

R = z3.RealSort()
UF = {
    "exp": z3.Function("exp", R, R),
    "log": z3.Function("log", R, R),
    "sqrt": z3.Function("sqrt", R, R),
    "cos": z3.Function("cos", R, R),
    "pow": z3.Function("pow", R, R, R),
    "gamma": z3.Function("Gamma", R, R),
    "betafn": z3.Function("Beta", R, R, R),
}
PI = z3.Real("pi")


def _uf_apply(name, *args):
    c = _CTX
    zargs = [zreal(a) for a in args]
    if name not in UF:
        UF[name] = z3.Function(name, *([R] * (len(zargs) + 1)))
    t = UF[name](*zargs)
    if c is not None:
        c.note_uf(name, zargs, t)
    return Sym(t)


def s_exp(x):
    if _isnan(x):
        return x
    if not is_sym(x):
        if x == 0:
            return 1
        if _CTX is None or not _CTX.exact:
            return math.exp(x)
    return _uf_apply("exp", x)


def np_log(x):
    """numpy.log on a scalar: NaN for a negative argument, -inf at 0 (IEEE), otherwise ln (paths fork on the sign of a
    symbolic argument)"""
    if _isnan(x):
        return x
    if x < 0:
        return float("nan")
    if x == 0:
        return float("-inf")
    return s_log(x)


def s_log(x):
    if _isnan(x):
        return x
    if not is_sym(x):
        if x == 1:
            return 0
        if _CTX is None or not _CTX.exact:
            if x == 0:
                return -math.inf
            return math.log(x)
    return _uf_apply("log", x)


def s_sqrt(x):
    if _isnan(x):
        return x
    if not is_sym(x):
        if x in (0, 1):
            return x
        if _CTX is None or not _CTX.exact:
            return math.sqrt(x)
        f = _frac(x)
        for part in (f.numerator, f.denominator):
            if part < 0 or math.isqrt(part) ** 2 != part:
                break
        else:
            return Fraction(math.isqrt(f.numerator), math.isqrt(f.denominator))
    return _uf_apply("sqrt", x)


def s_cos(x):
    if _isnan(x):
        return x
    if not is_sym(x):
        if x == 0:
            return 1
        if _CTX is None or not _CTX.exact:
            return math.cos(x)
    return _uf_apply("cos", x)


def s_libm(name):
    """any other libc.math function: concrete arguments natively (when the context is not exact), otherwise an
    uninterpreted function of that name (sin / cos / tanh get their range)"""
    def f(*args):
        if not any(is_sym(a) for a in args) and (_CTX is None or not _CTX.exact) and hasattr(math, name):
            r_ = getattr(math, name)(*args)
            return float(r_) if isinstance(r_, int) and not isinstance(r_, bool) else r_      # libm returns doubles
        if not any(is_sym(a) for a in args) and name in ("sin", "tan", "tanh", "sinh", "atan", "asin") and all(a == 0 for a in args):
            return 0
        return _uf_apply(name, *args)
    f.__name__ = "s_" + name
    return f


def s_fabs(x):
    if is_sym(x):
        return abs(x if isinstance(x, Sym) else x._num())
    return abs(x)


def sym_pow(base, e):
    """base ** e with C `pow` / Python semantics over the reals."""
    if _isnan(base) or _isnan(e):
        return float("nan")
    if not is_sym(e):
        ef = _frac(e) if not isinstance(e, (int, bool)) else Fraction(int(e))
        if ef.denominator == 1 and abs(ef.numerator) <= 12:
            n = int(ef)
            if n == 0:
                return 1
            if not is_sym(base):
                if _CTX is not None and _CTX.exact:
                    return _frac(base) ** n
                return base ** n
            acc = base
            for _ in range(abs(n) - 1):
                acc = acc * base
            return acc if n > 0 else 1 / acc
        if not is_sym(base) and (_CTX is None or not _CTX.exact):
            return base ** e
        if ef == Fraction(1, 2):
            return s_sqrt(base)
    return _uf_apply("pow", base, e)


def s_max(*args):
    if len(args) == 1 and not is_sym(args[0]) and hasattr(args[0], "__iter__"):
        args = tuple(args[0])
    acc = args[0]
    for a in args[1:]:
        if is_sym(acc) or is_sym(a):
            c = zbool(a > acc)
            if acc_is_int(acc) and acc_is_int(a):
                acc = Sym(z3.simplify(z3.If(c, zint(a), zint(acc))))
            else:
                acc = Sym(z3.simplify(z3.If(c, zreal(a), zreal(acc))))
        else:
            acc = a if a > acc else acc
    return acc


def s_min(*args):
    if len(args) == 1 and not is_sym(args[0]) and hasattr(args[0], "__iter__"):
        args = tuple(args[0])
    acc = args[0]
    for a in args[1:]:
        if is_sym(acc) or is_sym(a):
            c = zbool(a < acc)
            if acc_is_int(acc) and acc_is_int(a):
                acc = Sym(z3.simplify(z3.If(c, zint(a), zint(acc))))
            else:
                acc = Sym(z3.simplify(z3.If(c, zreal(a), zreal(acc))))
        else:
            acc = a if a < acc else acc
    return acc


def acc_is_int(v):
    return _is_intlike(v)


def s_and(*cs):
    cs = [zbool(c) for c in cs]
    return SymBool(z3.And(*cs)) if cs else True


def s_or(*cs):
    cs = [zbool(c) for c in cs]
    return SymBool(z3.Or(*cs)) if cs else False


def s_not(c):
    return SymBool(z3.Not(zbool(c)))


def s_implies(a, b):
    return SymBool(z3.Implies(zbool(a), zbool(b)))


def trunc(x):
    """C cast double -> integer (toward zero)."""
    if isinstance(x, Sym):
        if x.is_int:
            return x
        return Sym(z3.simplify(z3.If(x.z >= 0, z3.ToInt(x.z), -z3.ToInt(-x.z))))
    if isinstance(x, SymBool):
        return x._num()
    if isinstance(x, Fraction):
        return int(x)  # Fraction.__trunc__
    if isinstance(x, float):
        if math.isnan(x) or math.isinf(x):
            raise CFault("cast of non-finite double to int")
        return int(x)
    return int(x)


def ite(c, a, b):
    """If-then-else on values (numbers)."""
    if not isinstance(c, (SymBool, Sym, z3.BoolRef)):
        return a if c else b
    zc = zbool(c)
    if _is_intlike(a) and _is_intlike(b):
        return Sym(z3.simplify(z3.If(zc, zint(a), zint(b))))
    return Sym(z3.simplify(z3.If(zc, zreal(a), zreal(b))))


# ----------------------------------------------------------------------------------------
class PathResult:
    def __init__(self):
        self.trail = None
        self.outcome = None
        self.checks = []


class Context:
    """One exploration: decision trail DFS over a harness function."""

    def __init__(self, name="harness", timeout_ms=20000, max_paths=20000, exact=True, unwind=64):
        self.name = name
        self.timeout_ms = timeout_ms
        self.max_paths = max_paths
        self.max_wall_s = 0          # 0 = unlimited; set by the runner
        self.cross_check = False     # thorough tier: first proof of each obligation label is re-decided by cvc5
        self.cross_check_ms = 3000
        self.cross_check_left = [60]   # shared budget (a one-element list so that the cases of a job can share it)
        self.exact = exact
        self.unwind = unwind
        self.solver = z3.Solver()
        self.solver.set("timeout", timeout_ms)
        self.feas_timeout_ms = 2500
        self.stats = dict(paths=0, queries=0, solver_s=0.0, proved=0, failed=0, unknown=0,
                          infeasible=0, reach=0, unwind_fail=0)
        self.failures = []     # list of dict(label, model, info)
        self.unknowns = []
        self.proved_labels = {}
        self.reach_labels = {}
        self._fresh = itertools.count()
        self.trail = []
        self.pos = 0
        self.work = []
        self.pc = []
        self.draws = []        # per-path record of nondeterministic stub values
        self.events = []
        self.uf_seen = []
        self.lemma_hooks = []
        self.axioms = [PI > z3.RealVal("3.14159"), PI < z3.RealVal("3.1416")]
        self.vars = []

    # ---- variables
    def real(self, name, lo=None, hi=None, lo_strict=False, hi_strict=False):
        v = Sym(z3.Real(name))
        self.vars.append(v)
        self._bound(v, lo, hi, lo_strict, hi_strict)
        return v

    def int(self, name, lo=None, hi=None):
        v = Sym(z3.Int(name))
        self.vars.append(v)
        self._bound(v, lo, hi, False, False)
        return v

    def bool(self, name):
        return SymBool(z3.Bool(name))

    def fresh_real(self, prefix, **kw):
        return self.real("%s!%d" % (prefix, next(self._fresh)), **kw)

    def fresh_int(self, prefix, **kw):
        return self.int("%s!%d" % (prefix, next(self._fresh)), **kw)

    def _bound(self, v, lo, hi, ls, hs):
        if lo is not None:
            self.assume(v > lo if ls else v >= lo)
        if hi is not None:
            self.assume(v < hi if hs else v <= hi)

    # ---- path condition
    def assume(self, cond):
        z = zbool(cond)
        self.pc.append(z)
        self.solver.add(z)

    def _check(self, *extra):
        """feasibility / reachability query on the incremental solver (short timeout: `unknown` is treated as
        feasible by the callers, which is an over-approximation)"""
        t = time.time()
        self.stats["queries"] += 1
        self.solver.set("timeout", min(self.timeout_ms, self.feas_timeout_ms))
        try:
            r = self.solver.check(*extra)
        finally:
            self.solver.set("timeout", self.timeout_ms)
        if r == z3.unknown:
            self.stats["feas_unknown"] = self.stats.get("feas_unknown", 0) + 1
        self.stats["solver_s"] += time.time() - t
        return r

    def feasible(self, z):
        r = self._check(z)
        return r != z3.unsat      # unknown counts as feasible (over-approximation)

    def branch(self, cond):
        z = z3.simplify(zbool(cond))
        if z3.is_true(z):
            return True
        if z3.is_false(z):
            return False
        if self.pos < len(self.trail):
            d = self.trail[self.pos]
        else:
            ft = self.feasible(z)
            ff = self.feasible(z3.Not(z))
            if ft and ff:
                self.work.append(self.trail[:self.pos] + [False])
                d = True
            elif ft:
                d = True
            elif ff:
                d = False
            else:
                raise Infeasible()
            self.trail.append(d)
        self.pos += 1
        zz = z if d else z3.Not(z)
        self.pc.append(zz)
        self.solver.add(zz)
        return d

    def concretize(self, v, lo, hi, what="index"):
        """Fork on the value of an integer term within [lo, hi)."""
        if not is_sym(v):
            return v
        if isinstance(v, SymBool):
            v = v._num()
        if not v.is_int:
            raise Unsupported("real-valued %s" % what)
        for k in range(lo, hi):
            if self.branch(v.z == k):
                return k
        raise CFault("%s out of range [%d,%d): %s" % (what, lo, hi, v.z))

    def note_uf(self, name, zargs, term):
        self.uf_seen.append((name, zargs, term))
        lem = []
        a = zargs[0]
        if name == "exp":
            lem += [term > 0, z3.Implies(a >= 0, term >= 1), z3.Implies(a == 0, term == 1),
                    z3.Implies(a <= 0, term <= 1), z3.Implies(a > 0, term > 1), z3.Implies(a < 0, term < 1)]
        elif name == "log":
            lem += [z3.Implies(z3.And(a > 0, a < 1), term < 0), z3.Implies(a == 1, term == 0),
                    z3.Implies(a > 1, term > 0)]
        elif name == "sqrt":
            lem += [z3.Implies(a >= 0, z3.And(term >= 0, term * term == a))]
        elif name in ("cos", "sin", "tanh"):
            lem += [term >= -1, term <= 1]
        elif name == "pow":
            b = zargs[1]
            lem += [z3.Implies(a > 0, term > 0), z3.Implies(z3.And(a == 0, b > 0), term == 0),
                    z3.Implies(b == 0, term == 1), z3.Implies(b == 1, term == a),
                    z3.Implies(z3.And(a >= 0, b > 0), term >= 0)]
        elif name in ("gamma", "betafn"):
            lem += [z3.Implies(z3.And(*[x > 0 for x in zargs]), term > 0)]
        if name in ("exp", "log", "sqrt"):
            # monotonicity w.r.t. earlier applications of the same function on this path
            for (n2, za2, t2) in self.uf_seen[:-1]:
                if n2 != name:
                    continue
                b = za2[0]
                if name == "exp":
                    lem += [z3.Implies(a < b, term < t2), z3.Implies(b < a, t2 < term)]
                else:
                    dom = z3.And(a > 0, b > 0) if name == "log" else z3.And(a >= 0, b >= 0)
                    lem += [z3.Implies(z3.And(dom, a < b), term < t2), z3.Implies(z3.And(dom, b < a), t2 < term)]
        for h in self.lemma_hooks:
            lem += h(name, zargs, term, self) or []
        for l in lem:
            self.pc.append(l)
            self.solver.add(l)

    # ---- assertions
    def prove(self, cond, label, info=None, replay=None):
        """Obligation: under the current path condition `cond` holds."""
        z = zbool(cond)
        self.reach(label)
        r = self._decide(z3.Not(z))
        if r == z3.unsat:
            self.stats["proved"] += 1
            self.proved_labels[label] = self.proved_labels.get(label, 0) + 1
            if self.cross_check and self.proved_labels[label] == 1 and self.cross_check_left[0] > 0:
                self.cross_check_left[0] -= 1
                self._cross_check(z3.Not(z), label)
            return True
        if r == z3.sat:
            m = self._last_model_solver.model()
            m = self._small_model(z, m)
            self.stats["failed"] += 1
            self.failures.append(dict(label=label, model=m, info=info, replay=replay,
                                      draws=list(self.draws), trail=list(self.trail[:self.pos]),
                                      cond=z))
            return False
        self.stats["unknown"] += 1
        self.unknowns.append(dict(label=label, reason=self._last_model_solver.reason_unknown()))
        return None

    def _cross_check(self, negated, label):
        """second opinion on an `unsat` verdict: the same query (path condition and negated claim, as SMT-LIB text printed by
        z3) decided by cvc5.  sat = disagreement (reported as inconclusive), unknown / timeout = no second opinion."""
        t = time.time()
        try:
            res = cvc5_decide(list(self.axioms) + list(self.pc) + [negated], self.cross_check_ms)
        except Exception as e:                         # parser / option errors: no second opinion
            res = "error:%s" % str(e)[:80]
        k = "agree" if res == "unsat" else ("disagree" if res == "sat" else "no-opinion")
        self.stats["x_" + k] = self.stats.get("x_" + k, 0) + 1
        self.stats["x_solver_s"] = self.stats.get("x_solver_s", 0.0) + time.time() - t
        if res == "sat":
            self.unknowns.append(dict(label=label, reason="solver disagreement: z3 unsat, cvc5 sat"))

    def _decide(self, negated):
        """Decide pc AND negated claim.  A *fresh* non-incremental solver is tried first (the
        incremental one loses z3's preprocessing and can be orders of magnitude slower on
        nonlinear real arithmetic), then the incremental solver, then other random seeds."""
        t = time.time()
        self.stats["queries"] += 1
        res = z3.unknown
        for attempt in range(4):
            if attempt == 1:
                res = self.solver.check(negated)
                self._last_model_solver = self.solver
            else:
                fs = z3.Solver()
                fs.set("timeout", self.timeout_ms if attempt == 0 else max(self.timeout_ms, 30000))
                if attempt >= 2:
                    fs.set("random_seed", 7 * attempt)
                    fs.set("smt.random_seed", 11 * attempt)
                for a in self.axioms:
                    fs.add(a)
                fs.add(*self.pc)
                fs.add(negated)
                res = fs.check()
                self._last_model_solver = fs
            if res != z3.unknown:
                break
        dt_ = time.time() - t
        self.stats["solver_s"] += dt_
        if dt_ > self.stats.get("max_query_s", 0.0):
            self.stats["max_query_s"] = dt_
        return res

    def _small_model(self, z, m):
        """Prefer a counterexample with small magnitudes (replayable in doubles)."""
        vs = [v.z for v in self.vars]
        if not vs:
            return m
        for B in (8, 100, 10000):
            self.solver.push()
            try:
                self.solver.add(z3.Not(z))
                for v in vs:
                    self.solver.add(v <= B, v >= -B)
                self.solver.set("timeout", 3000)
                r = self._check()
                if r == z3.sat:
                    return self.solver.model()
            finally:
                self.solver.set("timeout", self.timeout_ms)
                self.solver.pop()
        return m

    def fail(self, label, info=None, replay=None):
        """Obligation violated on every input of this (feasible) path."""
        return self.prove(False, label, info, replay)

    def reach(self, label):
        if label in self.reach_labels:
            self.reach_labels[label] += 1
            return True
        r = self._check()
        if r == z3.sat:
            self.stats["reach"] += 1
            self.reach_labels[label] = 1
            return True
        if r == z3.unknown:
            self.reach_labels[label] = 1     # feasibility was over-approximated at branches
            return True
        return False

    def model_value(self, m, v):
        if isinstance(v, Sym):
            x = m.eval(v.z, model_completion=True)
            return zval(x)
        if isinstance(v, SymBool):
            return z3.is_true(m.eval(v.z, model_completion=True))
        return v

    # ---- driver
    def run(self, harness):
        global _CTX
        self.work = [[]]
        t0 = time.time()
        while self.work:
            if self.stats["paths"] >= self.max_paths:
                raise PathBudget("more than %d paths in %s" % (self.max_paths, self.name))
            if self.max_wall_s and time.time() - t0 > self.max_wall_s:
                raise PathBudget("exploration of %s exceeded its %d s wall budget after %d paths"
                                 % (self.name, self.max_wall_s, self.stats["paths"]))
            self.trail = self.work.pop()
            self.pos = 0
            self.pc = []
            self.draws = []
            self.events = []
            self.uf_seen = []
            self.vars = []
            self._fresh = itertools.count()
            self.solver.push()
            for a in self.axioms:
                self.solver.add(a)
            prev = _CTX
            _CTX = self
            try:
                harness(self)
                self.stats["paths"] += 1
            except Infeasible:
                self.stats["infeasible"] += 1
            except PathCut:
                self.stats["cut"] = self.stats.get("cut", 0) + 1
            finally:
                _CTX = prev
                self.solver.pop()
        self.stats["wall_s"] = time.time() - t0
        return self


_UF_RENAME = None


def cvc5_decide(assertions, timeout_ms=5000):
    """sat / unsat / unknown from cvc5 for the conjunction of z3 assertions (via SMT-LIB text)."""
    import re
    import cvc5
    fs = z3.Solver()
    fs.add(*assertions)
    txt = fs.to_smt2()
    # cvc5 reserves the names of its transcendental functions: our uninterpreted exp/log/... are renamed
    txt = re.sub(r"(?<![\w.!?])(exp|log|sqrt|cos|sin|tan|pow|tanh|abs)(?![\w.!?])", r"uf_\1", txt)
    slv = cvc5.Solver()
    slv.setLogic("ALL")
    slv.setOption("tlimit-per", str(int(timeout_ms)))
    parser = cvc5.InputParser(slv)
    parser.setStringInput(cvc5.InputLanguage.SMT_LIB_2_6, txt, "obligation")
    sm = parser.getSymbolManager()
    out = "unknown"
    while True:
        cmd = parser.nextCommand()
        if cmd.isNull():
            break
        r = str(cmd.invoke(slv, sm)).strip()
        if r in ("sat", "unsat", "unknown"):
            out = r
    return out


def zval(x):
    """z3 numeral -> python number (Fraction / int / algebraic approx)."""
    if z3.is_int_value(x):
        return x.as_long()
    if z3.is_rational_value(x):
        return Fraction(x.numerator_as_long(), x.denominator_as_long())
    if z3.is_algebraic_value(x):
        return Fraction(x.approx(20).as_fraction())
    if z3.is_true(x):
        return True
    if z3.is_false(x):
        return False
    return x
