"""numpy facade: in exact (symbolic) mode arrays are object arrays that can hold z3 terms;
element-wise math goes through the UF library.  Everything else is real numpy."""
import math
from fractions import Fraction

import numpy as _np

from .sym import np_log as _sym_np_log
from .sym import (Sym, SymBool, is_sym, s_exp, s_log, s_sqrt, s_cos, s_fabs, sym_pow, s_max, s_min,
                  Unsupported, ctx, PI, _CTX, trunc)
from . import sym as _sym


def _exact():
    return _sym._CTX is not None and _sym._CTX.exact


def has_sym(x):
    if is_sym(x):
        return True
    if isinstance(x, _np.ndarray):
        return x.dtype == object and any(is_sym(e) for e in x.flat)
    if isinstance(x, (list, tuple)):
        return any(has_sym(e) for e in x)
    if isinstance(x, dict):
        return any(has_sym(e) for e in x.values())
    return False


def _is_numeric_obj(a):
    return all(isinstance(e, (int, float, Fraction, Sym, SymBool, _np.number, bool)) for e in a.flat)


def _elementwise(fn, nat):
    def f(x, *a, **k):
        if isinstance(x, _np.ndarray) and x.dtype == object:
            out = _np.empty(x.shape, dtype=object)
            for i, e in enumerate(x.flat):
                out.flat[i] = fn(e)
            return out
        if isinstance(x, (list, tuple)) and has_sym(x):
            return f(_np.array(x, dtype=object))
        if is_sym(x) or (_exact() and isinstance(x, (Fraction,))):
            return fn(x)
        if _exact() and isinstance(x, (int, float)) and not isinstance(x, bool):
            try:
                return fn(x)
            except Unsupported:
                raise
        return nat(x, *a, **k)
    return f


class NpShim:
    def __init__(self):
        self.nan = _np.nan
        self.inf = _np.inf
        self.log = _elementwise(_sym_np_log, _np.log)
        self.exp = _elementwise(s_exp, _np.exp)
        self.sqrt = _elementwise(s_sqrt, _np.sqrt)
        self.cos = _elementwise(s_cos, _np.cos)
        self.abs = _elementwise(s_fabs, _np.abs)
        self.absolute = self.abs
        self.fabs = self.abs

    @property
    def pi(self):
        return Sym(PI) if _exact() else _np.pi

    def __getattr__(self, name):
        return getattr(_np, name)

    # ---- constructors
    def _dtype(self, dtype):
        return object if _exact() else dtype

    def zeros(self, shape, dtype=float, **k):
        if _exact():
            a = _np.empty(shape, dtype=object)
            a.fill(0)
            return a
        return _np.zeros(shape, dtype=dtype, **k)

    def ones(self, shape, dtype=float, **k):
        if _exact():
            a = _np.empty(shape, dtype=object)
            a.fill(1)
            return a
        return _np.ones(shape, dtype=dtype, **k)

    def empty(self, shape, dtype=float, **k):
        if dtype is object:
            return _np.empty(shape, dtype=object)
        return self.zeros(shape, dtype)

    def array(self, x, dtype=None, **k):
        if _exact() and dtype is not object:
            if isinstance(x, _np.ndarray) and x.dtype != object and x.dtype.kind in "iufb":
                a = _np.empty(x.shape, dtype=object)
                for i, e in enumerate(x.flat):
                    a.flat[i] = _lift(e)
                return a
            try:
                a = _np.array(x, dtype=object)
            except ValueError:
                raise
            if a.size and not _is_numeric_obj(a):
                return _np.array(x, dtype=dtype, **k)     # strings etc.: native
            for i, e in enumerate(a.flat):
                a.flat[i] = _lift(e)
            return a
        return _np.array(x, dtype=dtype, **k)

    def asarray(self, x, dtype=None, **k):
        if isinstance(x, _np.ndarray) and (x.dtype == object or not _exact()):
            return x
        return self.array(x, dtype=dtype)

    def ascontiguousarray(self, x, dtype=None, **k):
        """numpy returns the argument ITSELF when it already is a contiguous array of the requested type (object arrays stand
        for double arrays here); anything else is converted into a new array"""
        if isinstance(x, _np.ndarray) and x.flags["C_CONTIGUOUS"] and (
                x.dtype == object and dtype in (None, float, _np.double, _np.float64, object) or x.dtype != object and dtype in (None, x.dtype)):
            return x
        return self.array(x, dtype=dtype)

    def asanyarray(self, x, dtype=None, **k):
        return self.asarray(x, dtype=dtype)

    def require(self, x, dtype=None, requirements=None, **k):
        return self.ascontiguousarray(x, dtype=dtype)

    def copyto(self, dst, src, **k):
        if isinstance(dst, _np.ndarray) and dst.dtype == object:
            src = _np.asarray(src, dtype=object) if not isinstance(src, _np.ndarray) else src
            dst[...] = src
            return None
        return _np.copyto(dst, src, **k)

    def isnan(self, x):
        if isinstance(x, _np.ndarray) and x.dtype == object:
            return _np.array([self.isnan(e) for e in x.flat], dtype=bool).reshape(x.shape)
        if is_sym(x) or isinstance(x, Fraction):
            return False
        return _np.isnan(x)

    def isfinite(self, x):
        if isinstance(x, _np.ndarray) and x.dtype == object:
            return _np.array([self.isfinite(e) for e in x.flat], dtype=bool).reshape(x.shape)
        if is_sym(x) or isinstance(x, Fraction):
            return True
        return _np.isfinite(x)

    def isclose(self, a, b, rtol=1e-05, atol=1e-08, equal_nan=False):
        """numpy's definition over the reals: |a - b| <= atol + rtol*|b| (symbolic operands give a symbolic truth value)"""
        if any(isinstance(x, _np.ndarray) and x.dtype == object for x in (a, b)):
            a_, b_ = _np.broadcast_arrays(_np.asarray(a, dtype=object), _np.asarray(b, dtype=object))
            out = _np.empty(a_.shape, dtype=object)
            for i in range(a_.size):
                out.flat[i] = self.isclose(a_.flat[i], b_.flat[i], rtol, atol)
            return out
        if is_sym(a) or is_sym(b) or isinstance(a, Fraction) or isinstance(b, Fraction):
            fr = lambda v: v if is_sym(v) or isinstance(v, Fraction) else Fraction(repr(float(v)))
            a_, b_, rt, at = fr(a), fr(b), Fraction(repr(float(rtol))), Fraction(repr(float(atol)))
            return s_fabs(a_ - b_) <= at + rt * s_fabs(b_)
        return _np.isclose(a, b, rtol=rtol, atol=atol, equal_nan=equal_nan)

    def allclose(self, a, b, rtol=1e-05, atol=1e-08, equal_nan=False):
        r = self.isclose(a, b, rtol, atol)
        if isinstance(r, _np.ndarray) and r.dtype == object:
            from .sym import s_and
            return s_and(*list(r.flat)) if r.size else True
        return bool(_np.all(r)) if isinstance(r, _np.ndarray) else r

    def isinf(self, x):
        if is_sym(x) or isinstance(x, Fraction):
            return False
        return _np.isinf(x)

    def sum(self, x, axis=None, **k):
        if isinstance(x, _np.ndarray) and x.dtype == object and axis is None:
            acc = 0
            for e in x.flat:
                acc = acc + e
            return acc
        if isinstance(x, (list, tuple)) and has_sym(x):
            return self.sum(_np.array(x, dtype=object), axis)
        return _np.sum(x, axis=axis, **k)

    def prod(self, x, **k):
        if isinstance(x, _np.ndarray) and x.dtype == object:
            acc = 1
            for e in x.flat:
                acc = acc * e
            return acc
        return _np.prod(x, **k)

    def power(self, x, p):
        return _elementwise(lambda e: sym_pow(e, p), lambda e: _np.power(e, p))(x)

    def allclose(self, a, b, **k):
        if has_sym(a) or has_sym(b):
            # used by py_simulate_model to test grid uniformity: |a-b| <= atol + rtol|b|
            a = _np.asarray(a, dtype=object)
            res = True
            bb = _np.broadcast_to(_np.asarray(b, dtype=object), a.shape)
            for x, y in zip(a.flat, bb.flat):
                d = s_fabs(x - y)
                if not (d <= Fraction(1, 10 ** 8) + Fraction(1, 10 ** 5) * s_fabs(y)):
                    res = False
            return res
        if isinstance(a, _np.ndarray) and a.dtype == object:
            a = a.astype(float)
        if isinstance(b, _np.ndarray) and b.dtype == object:
            b = b.astype(float)
        if isinstance(b, Fraction):
            b = float(b)
        return _np.allclose(a, b, **k)

    def round(self, x, decimals=0):
        if has_sym(x):
            c = ctx()
            c.events.append(("np.round", (decimals,)))
            return x           # modelled as identity (stated in the evidence)
        if isinstance(x, _np.ndarray) and x.dtype == object:
            return x
        if isinstance(x, Fraction):
            return x
        return _np.round(x, decimals)

    def linalg_norm(self, x):
        raise Unsupported("np.linalg.norm on symbolic data")

    def reshape(self, a, shape, **k):
        if not isinstance(a, _np.ndarray):
            a = self.array(a)
        return _np.reshape(a, shape, **k)

    def array_equal(self, a, b):
        if has_sym(a) or has_sym(b):
            a = _np.asarray(a, dtype=object)
            b = _np.asarray(b, dtype=object)
            if a.shape != b.shape:
                return False
            ok = True
            for x, y in zip(a.flat, b.flat):
                if not (x == y):
                    ok = False
            return ok
        return _np.array_equal(_np.asarray(a, dtype=float) if _objnum(a) else a,
                               _np.asarray(b, dtype=float) if _objnum(b) else b)

    def amax(self, x, *a, **k):
        if has_sym(x):
            return s_max(*list(_np.asarray(x, dtype=object).flat))
        return _np.amax(x, *a, **k)

    max = amax

    def amin(self, x, *a, **k):
        if has_sym(x):
            return s_min(*list(_np.asarray(x, dtype=object).flat))
        return _np.amin(x, *a, **k)

    min = amin


def _objnum(a):
    return isinstance(a, _np.ndarray) and a.dtype == object


def _lift(e):
    if isinstance(e, (_np.floating, float)):
        e = float(e)
        if math.isnan(e) or math.isinf(e):
            return e
        return Fraction(repr(e))
    if isinstance(e, _np.integer):
        return int(e)
    if isinstance(e, _np.bool_):
        return bool(e)
    return e


class _Special:
    """scipy.special facade: Gamma and Beta functions as uninterpreted functions on symbolic
    arguments (positive on positive arguments), native otherwise."""
    def gamma(self, a):
        if is_sym(a):
            return _sym._uf_apply("gamma", a)
        import scipy.special as sp
        v = sp.gamma(float(a))
        return _lift(float(v)) if _exact() else v

    def beta(self, a, b):
        if is_sym(a) or is_sym(b):
            return _sym._uf_apply("betafn", a, b)
        import scipy.special as sp
        v = sp.beta(float(a), float(b))
        if _exact():
            from fractions import Fraction as F
            fa, fb = F(a), F(b)
            if fa.denominator == 1 and fb.denominator == 1 and 0 < fa <= 12 and 0 < fb <= 12:
                return F(math.factorial(int(fa) - 1) * math.factorial(int(fb) - 1), math.factorial(int(fa + fb) - 1))
            return _lift(float(v))
        return v

    def __getattr__(self, name):
        import scipy.special as sp
        return getattr(sp, name)


class ScipyShim:
    def __init__(self):
        self.special = _Special()

    def __getattr__(self, name):
        import importlib
        try:
            return importlib.import_module("scipy." + name)
        except ImportError:
            import scipy
            return getattr(scipy, name)
