"""Memory model values: object instances, pointers, vectors."""
import numpy as np

from .sym import Sym, SymBool, CFault, Unsupported, ctx, is_sym


class Garbage:
    """What reading a C field through a None/NULL object yields: compares unequal to all."""
    def __eq__(self, o):
        return False

    def __ne__(self, o):
        return True

    def __hash__(self):
        return 0

    def __repr__(self):
        return "<garbage>"


GARBAGE = Garbage()


class CVector(list):
    """std::vector<T>"""
    def __init__(self, it=(), elem="obj"):
        list.__init__(self, it)
        self.elem = elem

    def push_back(self, v):
        if isinstance(v, CVector):
            v = CVector(v, v.elem)      # C++ copies by value
        self.append(v)

    def size(self):
        return len(self)

    def at(self, i):
        if i < 0 or i >= len(self):
            raise CFault("vector index out of range: %r (size %d)" % (i, len(self)))
        return self[i]

    def _new_element(self):
        """value-initialised element (std::vector<T>::resize): an empty vector for a nested vector type, NULL for pointers, 0 for numbers"""
        e = self.elem
        if isinstance(e, tuple) and e and e[0] == "vector":
            return CVector(elem=e[1] if len(e) > 1 else "obj")
        if isinstance(e, tuple) and e and e[0] == "ptr" or e in ("obj", "void"):
            return NULL if "NULL" in globals() else None
        return 0.0 if e in ("double", "float") else 0

    def resize(self, n, value=None):
        n = int(n)
        if n < 0:
            raise CFault("vector::resize with a negative size")
        if n < len(self):
            del self[n:]
        while len(self) < n:
            self.append(self._new_element() if value is None else (CVector(value, value.elem) if isinstance(value, CVector) else value))

    def reserve(self, n):
        return None

    def shrink_to_fit(self):
        return None

    def empty(self):
        return len(self) == 0

    def front(self):
        if not len(self):
            raise CFault("front() of an empty vector")
        return self[0]

    def back(self):
        if not len(self):
            raise CFault("back() of an empty vector")
        return self[-1]

    def pop_back(self):
        if not len(self):
            raise CFault("pop_back() of an empty vector")
        list.pop(self)

    def assign(self, n, value):
        del self[:]
        self.resize(n, value)

    def swap(self, other):
        a, b = list(self), list(other)
        self[:] = b
        other[:] = a

    def __hash__(self):
        return id(self)


class VectorFactory:
    def __getitem__(self, item):
        return lambda *a: CVector()

    def __call__(self, *a):
        return CVector()


class VecPtr:
    """pointer to a std::vector (``&self.c_propensities``)."""
    def __init__(self, vec):
        self.vec = vec

    def __getitem__(self, i):
        if i != 0:
            raise CFault("vector pointer indexed with %r" % (i,))
        return self.vec


class Pointer:
    """T* into an ndarray (flat, C order) or a python list."""
    def __init__(self, base, off=0, orig=None):
        self.base = base
        self.off = off
        self.orig = orig if orig is not None else base

    def _size(self):
        b = self.base
        return b.size if isinstance(b, np.ndarray) else len(b)

    def _idx(self, i):
        if is_sym(i):
            i = ctx().concretize(i, -self.off, self._size() - self.off, "pointer index")
        j = self.off + int(i)
        if self.base is None:
            raise CFault("NULL pointer dereference")
        if j < 0 or j >= self._size():
            raise CFault("pointer access out of bounds: %d (size %d)" % (j, self._size()))
        return j

    def __getitem__(self, i):
        j = self._idx(i)
        b = self.base
        return b.flat[j] if isinstance(b, np.ndarray) else b[j]

    def __setitem__(self, i, v):
        j = self._idx(i)
        b = self.base
        if isinstance(b, np.ndarray):
            b.flat[j] = v
        else:
            b[j] = v

    def __add__(self, n):
        return Pointer(self.base, self.off + int(n), self.orig)

    def __eq__(self, o):
        if o is None or o == 0 and not isinstance(o, Pointer):
            return self.base is None
        return isinstance(o, Pointer) and o.base is self.base and o.off == self.off

    def __hash__(self):
        return id(self)

    def __repr__(self):
        return "<ptr +%d into %s>" % (self.off, type(self.base).__name__)


NULL = Pointer(None, 0)


class ObjModel:
    """Instance of an interpreted class."""
    def __init__(self, cls, interp):
        d = self.__dict__
        d["_cls"] = cls
        d["_f"] = {}
        d["_interp"] = interp

    def __getattr__(self, name):
        d = self.__dict__
        if name in ("_cls", "_f", "_interp"):
            raise AttributeError(name)
        return d["_interp"].obj_getattr(self, name)

    def __setattr__(self, name, value):
        self.__dict__["_interp"].obj_setattr(self, name, value)

    def _special(self, name):
        return self.__dict__["_cls"].interp.find_method_of(self.__dict__["_cls"], name)

    def __eq__(self, other):
        m = self._special("__eq__")
        if m is not None:
            return self.__dict__["_interp"].call_funcinfo(m, self, (other,), {})
        return self is other

    def __ne__(self, other):
        m = self._special("__ne__")
        if m is not None:
            return self.__dict__["_interp"].call_funcinfo(m, self, (other,), {})
        r = self.__eq__(other)
        return not r

    def __hash__(self):
        return id(self)

    def __str__(self):
        m = self._special("__str__")
        if m is not None:
            return self.__dict__["_interp"].call_funcinfo(m, self, (), {})
        return "<%s object>" % self.__dict__["_cls"].name

    def __repr__(self):
        m = self._special("__repr__")
        if m is not None:
            return self.__dict__["_interp"].call_funcinfo(m, self, (), {})
        return "<%s object at %x>" % (self.__dict__["_cls"].name, id(self))

    def __len__(self):
        m = self._special("__len__")
        if m is None:
            raise TypeError("object of type %s has no len()" % self.__dict__["_cls"].name)
        return self.__dict__["_interp"].call_funcinfo(m, self, (), {})

    def __getitem__(self, k):
        m = self._special("__getitem__")
        if m is None:
            raise TypeError("%s object is not subscriptable" % self.__dict__["_cls"].name)
        return self.__dict__["_interp"].call_funcinfo(m, self, (k,), {})

    def __call__(self, *a, **kw):
        m = self._special("__call__")
        if m is None:
            raise TypeError("%s object is not callable" % self.__dict__["_cls"].name)
        return self.__dict__["_interp"].call_funcinfo(m, self, a, kw)

    def __getstate__(self):
        m = self._special("__getstate__")
        if m is not None:
            return self.__dict__["_interp"].call_funcinfo(m, self, (), {})
        raise TypeError("interpreted class %s defines no __getstate__" % self.__dict__["_cls"].name)

    def __reduce__(self):
        m = self._special("__reduce__")
        if m is not None:
            return self.__dict__["_interp"].call_funcinfo(m, self, (), {})
        raise TypeError("cannot pickle interpreted object")


class BoundMethod:
    def __init__(self, interp, obj, fi):
        self.interp = interp
        self.obj = obj
        self.fi = fi
        self.__name__ = fi.name

    def __call__(self, *args, **kw):
        return self.interp.call_funcinfo(self.fi, self.obj, args, kw)

    def __repr__(self):
        return "<bound %s of %r>" % (self.fi.qualname, self.obj.__dict__["_cls"].name)


class Function:
    def __init__(self, interp, fi, closure=None):
        self.interp = interp
        self.fi = fi
        self.closure = closure
        self.__name__ = fi.name

    def __call__(self, *args, **kw):
        return self.interp.call_funcinfo(self.fi, None, args, kw, closure=self.closure)

    def __repr__(self):
        return "<function %s>" % self.fi.qualname


class SuperProxy:
    def __init__(self, interp, obj, after_cls):
        self.interp = interp
        self.obj = obj
        self.after = after_cls

    def __getattr__(self, name):
        cls = self.obj.__dict__["_cls"]
        seq = self.interp.mro_of(cls)
        seq = seq[seq.index(self.after) + 1:]
        for c in seq:
            if hasattr(c, "methods") and name in c.methods:
                return BoundMethod(self.interp, self.obj, c.methods[name])
        if name == "__init__":
            return lambda *a, **k: None
        raise AttributeError("super object has no attribute %s" % name)


class ShimModule:
    """Stub for logging / warnings: calls are recorded as events, nothing else happens."""
    def __init__(self, name, interp):
        self._name = name
        self._interp = interp

    def __getattr__(self, item):
        if item.startswith("__"):
            raise AttributeError(item)
        name = self._name

        def rec(*a, **k):
            c = None
            try:
                c = ctx()
            except RuntimeError:
                pass
            if c is not None:
                c.events.append((name + "." + item, a[:1]))
            return None
        if item in ("Warning", "UserWarning", "DeprecationWarning", "RuntimeWarning"):
            return getattr(__import__("builtins"), item)
        return rec
