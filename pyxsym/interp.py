"""pyxsym interpreter: executes Cython/Python source of /repo over concrete + z3 values."""
import os
import math
import importlib
import builtins as _bi
from fractions import Fraction

import numpy as np
from Cython.Compiler import Nodes as N, ExprNodes as E

from . import sym as _sym
from .sym import (Sym, SymBool, is_sym, Unsupported, CFault, ctx, trunc, zbool, s_max, s_min, s_fabs,
                  s_exp, s_log, s_sqrt, s_cos, EngineSignal, UnwindExceeded, ite)
from .values import (ObjModel, Pointer, NULL, CVector, VecPtr, VectorFactory, BoundMethod, Function,
                     SuperProxy, ShimModule, GARBAGE)
from .front import (REPO, MODULE_FILES, ALIASES, parse_file, ClassInfo, ModuleInfo, FuncInfo,
                    make_funcinfo, collect_class_body, ctype_of_decl, decl_name, func_or_none)
from .npshim import NpShim, ScipyShim
from .exprs import ExprMixin, exact, INT_TYPES


class _Return(EngineSignal):
    def __init__(self, value):
        self.value = value


class _Break(EngineSignal):
    pass


class _Continue(EngineSignal):
    pass


class StopAt(EngineSignal):
    def __init__(self, frame, node):
        self.frame = frame
        self.node = node


class Frame:
    __slots__ = ("locals", "ctypes", "module", "func", "self_obj", "cls", "globals_declared", "parent",
                 "comp_stack", "exc_stack", "local_names", "nonlocals")

    def __init__(self, module, func=None, self_obj=None, cls=None, parent=None):
        self.locals = {}
        self.ctypes = {}
        self.module = module
        self.func = func
        self.self_obj = self_obj
        self.cls = cls
        self.globals_declared = set()
        self.parent = parent
        self.comp_stack = []
        self.exc_stack = []
        self.local_names = None
        self.nonlocals = None


def _has_directive(path, text):
    """a `# cython: <directive>` comment in the header of a source file"""
    try:
        with open(path, encoding="utf-8") as f:
            head = [next(f, "") for _ in range(15)]
    except OSError:
        return False
    return any(l.lstrip().startswith("#") and "cython:" in l and text in l.replace(" ", "") for l in head)


def _walk(node):
    if node is None:
        return
    if isinstance(node, list):
        for x in node:
            yield from _walk(x)
        return
    yield node
    for a in node.child_attrs:
        c = getattr(node, a, None)
        if c is not None:
            yield from _walk(c)


class Interp(ExprMixin):
    def __init__(self, repo=None):
        self.repo = repo or REPO
        self.modules = {}
        self.np = NpShim()
        self.scipy = ScipyShim()
        self._eval_tab = {}
        self._exec_tab = {}
        self._cvar_cache = {}
        self._names_cache = {}
        self._inert_cache = {}
        self.oob_events = []
        self.loop_overrides = {}      # while-node id -> callable(frame)
        self.stop_at = None
        self.trace_calls = None
        self.encoded = {}             # "module:qualname" -> line (functions actually executed)
        self.source_patches = {}      # module name -> callable(src)->src  (in-memory mutants)
        self.builtins = self._make_builtins()
        self.shims = {"warnings": ShimModule("warnings", self), "logging": ShimModule("logging", self)}

    # ------------------------------------------------------------------ modules
    def load(self, name):
        name = ALIASES.get(name, name)
        if name in self.modules:
            return self.modules[name]
        if name not in MODULE_FILES:
            raise Unsupported("unknown interpreted module %s" % name)
        rel, pxd = MODULE_FILES[name]
        path = os.path.join(self.repo, rel)
        mod = ModuleInfo(name, path)
        self.modules[name] = mod
        if pxd is not None and os.path.exists(os.path.join(self.repo, pxd)):
            mod.pxd_tree = self._parse(os.path.join(self.repo, pxd), name + "_pxd", name)
            self.exec_module_body(mod, mod.pxd_tree, is_pxd=True)
        mod.cdivision = _has_directive(path, "cdivision=True")
        mod.tree = self._parse(path, name.replace(".", "_"), name)
        self.exec_module_body(mod, mod.tree, is_pxd=False)
        mod.executed = True
        return mod

    def load_source(self, name, src):
        """interpret ad-hoc source text as a module (engine self-test)"""
        from Cython.Compiler.TreeFragment import parse_from_strings
        mod = ModuleInfo(name, "<%s>" % name)
        mod.cdivision = "cdivision=True" in src[:400]
        self.modules[name] = mod
        mod.tree = parse_from_strings(name.replace(".", "_"), src)
        self.exec_module_body(mod, mod.tree, is_pxd=False)
        mod.executed = True
        return mod

    def _parse(self, path, modname, logical):
        from Cython.Compiler.TreeFragment import parse_from_strings
        with open(path, encoding="utf-8") as f:
            src = f.read()
        patch = self.source_patches.get(logical)
        if patch is not None and not path.endswith(".pxd"):
            src = patch(src)
        try:
            return parse_from_strings(modname, src)
        except Exception as e:
            raise Unsupported("cannot parse %s: %s" % (path, e))

    def exec_module_body(self, mod, tree, is_pxd):
        fr = Frame(mod)
        fr.locals = mod.ns
        self._module_stats(tree.body, mod, fr, is_pxd)

    def _module_stats(self, body, mod, fr, is_pxd):
        stats = body.stats if isinstance(body, N.StatListNode) else [body]
        for st in stats:
            if isinstance(st, N.StatListNode):
                self._module_stats(st, mod, fr, is_pxd)
            elif isinstance(st, (N.CClassDefNode, N.PyClassDefNode)):
                self.define_class(st, mod, fr)
            elif isinstance(st, (N.DefNode, N.CFuncDefNode)):
                fi = make_funcinfo(st, mod, None)
                mod.funcs[fi.name] = fi
                mod.ns[fi.name] = Function(self, fi)
            elif isinstance(st, N.CVarDefNode):
                for d in st.declarators:
                    if func_or_none(d) is not None:
                        continue      # cdef function prototype in pxd
                    nm = decl_name(d)
                    t = ctype_of_decl(st.base_type, d)
                    mod.gtypes[nm] = t
                    dflt = _decl_default(d)
                    if dflt is not None:
                        mod.ns[nm] = self.coerce(t, self.eval(dflt, fr))
                    elif isinstance(t, tuple) and t[0] == "array":
                        mod.ns[nm] = [0] * (t[2] or 0)
                    elif not is_pxd and nm not in mod.ns:
                        mod.ns[nm] = self.default_value(t)
            elif isinstance(st, N.CEnumDefNode):
                ns = {}
                nxt = 0
                for it in st.items:
                    v = self.eval(it.value, fr) if it.value is not None else nxt
                    ns[it.name] = v
                    mod.ns[it.name] = v
                    nxt = v + 1
                if st.name:
                    mod.ns[st.name] = type(st.name, (), ns)
            elif isinstance(st, (N.CTypeDefNode, N.CStructOrUnionDefNode, N.CDefExternNode)):
                pass
            else:
                if is_pxd and isinstance(st, (N.CImportStatNode, N.FromCImportStatNode)):
                    self.exec(st, fr)
                elif not is_pxd:
                    self.exec(st, fr)

    def define_class(self, st, mod, fr):
        is_cdef = isinstance(st, N.CClassDefNode)
        name = st.class_name if is_cdef else st.name
        ci = mod.classes.get(name)
        if ci is None:
            ci = ClassInfo(name, mod, is_cdef)
            ci.interp = self
            mod.classes[name] = ci
        ci.line = st.pos[1]
        bases = st.bases
        base_vals = []
        if bases is not None:
            for b in bases.args:
                try:
                    base_vals.append(self.eval(b, fr))
                except NameError:
                    raise Unsupported("unresolvable base class of %s" % name)
        if ci.bases is None or base_vals:
            ci.bases = base_vals
        if st.body is not None:
            collect_class_body(ci, st.body, mod)
            if not is_cdef:
                self._class_vars(ci, st.body, mod)
        mod.ns[name] = ci
        return ci

    def _class_vars(self, ci, body, mod):
        cfr = Frame(mod)
        cfr.parent = None
        stats = body.stats if isinstance(body, N.StatListNode) else [body]
        for st in stats:
            if isinstance(st, (N.DefNode, N.CFuncDefNode, N.PassStatNode)):
                continue
            if isinstance(st, N.ExprStatNode) and isinstance(st.expr, (E.UnicodeNode, E.StringNode, E.BytesNode)):
                continue
            self.exec(st, cfr)
        ci.class_vars.update(cfr.locals)

    def mro_of(self, ci):
        return ci.mro()

    def find_method_of(self, ci, name):
        return ci.find_method(name)

    def lookup_class(self, name, mod):
        v = mod.ns.get(name)
        if isinstance(v, ClassInfo):
            return v
        for m in self.modules.values():
            if name in m.classes:
                return m.classes[name]
        return None

    def attr_ctype(self, ci, name):
        for c in ci.mro():
            if name in c.attrs:
                return c.attrs[name]
        return None

    def import_module(self, name, fr=None, want_top=False):
        if name in MODULE_FILES:
            return self.load(name)
        if fr is not None and fr.module.path.endswith(".pyx") and "bioscrape." + name in MODULE_FILES:
            return self.load("bioscrape." + name)     # language_level 2: implicit relative import
        if name in ("numpy",):
            return self.np
        if name in self.shims:
            return self.shims[name]
        if name == "scipy":
            return self.scipy
        if name == "scipy.special":
            return self.scipy.special
        m = importlib.import_module(name)
        if want_top and "." in name:
            return importlib.import_module(name.split(".")[0])
        return m

    LIBC = {"log": s_log, "sqrt": s_sqrt, "cos": s_cos, "exp": s_exp, "fabs": s_fabs,
            "round": lambda x: trunc(x + Fraction(1, 2)) if not is_sym(x) and x >= 0 else _c_round(x),
            # exact over the reals (NaN arguments are outside the model): fmax / fmin pick an operand, floor / ceil / trunc round
            "fmax": lambda a, b: _sym.s_max(a, b), "fmin": lambda a, b: _sym.s_min(a, b),
            "pow": lambda a, b: _sym.sym_pow(a, b),
            "floor": lambda x: _c_floor(x), "ceil": lambda x: -_c_floor(-x), "trunc": lambda x: trunc(x)}

    # ------------------------------------------------------------------ builtins
    def _make_builtins(self):
        I = self

        def b_int(x=0, *a):
            if is_sym(x):
                return trunc(x)
            if isinstance(x, Fraction):
                return int(x)
            return int(x, *a)

        def b_float(x=0.0):
            if getattr(x, "is_Rational", False) and hasattr(x, "p") and exact():
                return Fraction(int(x.p), int(x.q))
            if isinstance(x, Sym):
                return x if not x.is_int else Sym(_sym.zreal(x))
            if isinstance(x, SymBool):
                return x._num()
            if isinstance(x, Fraction):
                return x if exact() else float(x)
            v = float(x)
            if exact() and not (math.isnan(v) or math.isinf(v)):
                return Fraction(repr(v)) if not isinstance(x, (int,)) else Fraction(x)
            return v

        def b_abs(x):
            return s_fabs(x)

        def b_max(*a, **k):
            seq = a[0] if len(a) == 1 else a
            seq = list(seq)
            if any(is_sym(e) for e in seq) and not k:
                return s_max(*seq)
            return max(seq, **k) if len(a) == 1 else max(*a, **k)      # the iterable was consumed into seq

        def b_min(*a, **k):
            seq = a[0] if len(a) == 1 else a
            seq = list(seq)
            if any(is_sym(e) for e in seq) and not k:
                return s_min(*seq)
            return min(seq, **k) if len(a) == 1 else min(*a, **k)

        def b_isinstance(o, t):
            if isinstance(t, tuple):
                return any(b_isinstance(o, x) for x in t)
            if isinstance(t, ClassInfo):
                return isinstance(o, ObjModel) and o.__dict__["_cls"].issubclass_of(t)
            if isinstance(o, ObjModel):
                return t is object
            if t is float and isinstance(o, (Fraction, Sym)) and not getattr(o, "is_int", False):
                return True
            if t is int and isinstance(o, Sym) and o.is_int:
                return True
            return isinstance(o, t)

        def b_issubclass(c, t):
            if isinstance(c, ClassInfo):
                if isinstance(t, tuple):
                    return any(b_issubclass(c, x) for x in t)
                return isinstance(t, ClassInfo) and c.issubclass_of(t) or t is object
            return issubclass(c, t)

        def b_type(o, *a):
            if a:
                return type(o, *a)
            if isinstance(o, ObjModel):
                return o.__dict__["_cls"]
            if exact() and isinstance(o, Fraction):
                return float
            return type(o)

        def b_print(*a, **k):
            return None

        def b_round(x, nd=None):
            if is_sym(x):
                if nd is None:
                    return trunc(x + Fraction(1, 2))
                return x
            return round(x, nd) if nd is not None else round(x)

        def b_len(x):
            return len(x)

        def b_str(*a, **k):
            if a and isinstance(a[0], Fraction) and exact():
                f = a[0]
                return repr(float(f))
            return str(*a, **k)

        def _cdef_hidden(o, name):
            # cdef attributes / cdef methods of an extension type are not visible through Python's attribute protocol
            if isinstance(o, ObjModel):
                ci = o.__dict__["_cls"]
                if I.attr_ctype(ci, name) is not None:
                    return True
                m = ci.find_method(name)
                if m is not None and m.kind == "cdef":
                    return True
            return False

        def b_getattr(o, name, *d):
            if _cdef_hidden(o, name):
                if d:
                    return d[0]
                raise AttributeError("'%s' object has no attribute '%s'" % (o.__dict__["_cls"].name, name))
            try:
                return I.getattr_(o, name)
            except AttributeError:
                if d:
                    return d[0]
                raise

        def b_hasattr(o, name):
            if _cdef_hidden(o, name):
                return False
            try:
                I.getattr_(o, name)
                return True
            except AttributeError:
                return False

        def b_sum(it, start=0):
            acc = start
            for e in it:
                acc = acc + e
            return acc

        def b_range(*a):
            if any(is_sym(x) for x in a):
                return SymRange(*a)
            return range(*[int(x) for x in a])

        def b_bool(x=False):
            if is_sym(x):
                return bool(x)
            return bool(x)

        self.type_calls = {int: b_int, float: b_float, str: b_str, type: b_type, bool: b_bool}
        return {"abs": b_abs, "max": b_max, "min": b_min,
                "isinstance": b_isinstance, "issubclass": b_issubclass, "print": b_print,
                "round": b_round, "getattr": b_getattr, "hasattr": b_hasattr, "sum": b_sum,
                "range": b_range, "xrange": b_range, "vector": VectorFactory(),
                "long": int, "unicode": str, "basestring": str}

    # ------------------------------------------------------------------ C coercion
    def default_value(self, t):
        if t in ("double", "float32"):
            return Fraction(0) if exact() else 0.0
        if t in INT_TYPES or t == "bint":
            return 0
        if isinstance(t, tuple):
            if t[0] == "vector":
                return CVector(elem=t[1])
            if t[0] == "ptr":
                return NULL
            if t[0] == "array":
                return [self.default_value(t[1]) for _ in range(t[2] or 0)]
        return None

    def coerce(self, t, v, explicit=False):
        if t == "float32":
            # C float: the double value is rounded to 24 significant bits.  Concrete values are rounded exactly; symbolic ones become an
            # uninterpreted rounding of the value (equal to it only where that is known), so that code whose result depends on the
            # lost bits does not pass for exact
            w = self.coerce("double", v, explicit)
            if isinstance(w, (Sym,)):
                return _sym._uf_apply("f32round", w)
            if isinstance(w, (Fraction, float, int)) and not isinstance(w, bool):
                f = float(w)
                if math.isnan(f) or math.isinf(f):
                    return w
                r = float(np.float32(f))
                return (Fraction(repr(r)) if Fraction(r) != Fraction(w) else w) if exact() else r
            return w
        if t == "double":
            if isinstance(v, Sym):
                return Sym(_sym.zreal(v)) if v.is_int else v
            if isinstance(v, SymBool):
                return Sym(_sym.zreal(v))
            if isinstance(v, bool):
                v = int(v)
            if isinstance(v, (int, np.integer)):
                return Fraction(int(v)) if exact() else float(v)
            if isinstance(v, (float, np.floating)):
                v = float(v)
                if exact() and not (math.isnan(v) or math.isinf(v)):
                    return Fraction(repr(v))
                return v
            if isinstance(v, Fraction):
                return v if exact() else float(v)
            if v is None or isinstance(v, (str, list, tuple, dict, ObjModel, np.ndarray)):
                if isinstance(v, np.ndarray) and v.size == 1:
                    return self.coerce(t, v.flat[0])
                raise TypeError("a float is required (got %s)" % type(v).__name__)
            return v
        if t in INT_TYPES:
            if isinstance(v, (Sym, SymBool)):
                w = trunc(v)
                if t in ("uint", "ulong", "ushort"):
                    m = {"uint": 2 ** 32, "ulong": 2 ** 64, "ushort": 2 ** 16}[t]
                    w = ite(w < 0, w + m, w)
                return w
            if isinstance(v, bool):
                return int(v)
            if isinstance(v, (float, Fraction, np.floating)):
                if not explicit and isinstance(v, (float, np.floating)) and False:
                    raise TypeError("an integer is required")
                v = trunc(v)
            elif isinstance(v, (int, np.integer)):
                v = int(v)
            elif v is None or isinstance(v, (str, list, tuple, dict, ObjModel)):
                raise TypeError("an integer is required (got %s)" % type(v).__name__)
            else:
                return v
            if t == "uint":
                return v % (2 ** 32)
            if t == "ulong":
                return v % (2 ** 64)
            if t == "ushort":
                return v % (2 ** 16)
            if t == "int":
                return ((v + 2 ** 31) % 2 ** 32) - 2 ** 31
            return v
        if t == "bint":
            if is_sym(v):
                return v
            return bool(v)
        if isinstance(t, tuple):
            if t[0] == "memview" and isinstance(v, Pointer):
                return v.orig
            if t[0] == "ptr" and isinstance(v, np.ndarray):
                return Pointer(v.reshape(-1), 0, v)
            if t[0] == "vector" and isinstance(v, CVector):
                return v
            if t[0] == "vector" and isinstance(v, (list, tuple)):
                return CVector(v, t[1])
        return v

    # ------------------------------------------------------------------ objects
    def instantiate(self, ci, args, kw):
        obj = ObjModel(ci, self)
        f = obj.__dict__["_f"]
        if ci.is_cdef or any(getattr(c, "is_cdef", False) for c in ci.mro()):
            for nm, t in ci.all_attrs().items():
                f[nm] = self.default_value(t)
        init = ci.find_method("__cinit__")
        if init is not None:
            self.call_funcinfo(init, obj, args, kw)
        init = ci.find_method("__init__")
        if init is not None:
            self.call_funcinfo(init, obj, args, kw)
        elif args or kw:
            native_base = [b for b in (ci.bases or []) if not isinstance(b, ClassInfo)]
            if not native_base:
                raise TypeError("%s() takes no arguments" % ci.name)
        return obj

    def obj_getattr(self, obj, name):
        d = obj.__dict__
        f = d["_f"]
        if name in f:
            return f[name]
        ci = d["_cls"]
        if name == "__class__":
            return ci
        if name == "__dict__":
            return f
        for c in ci.mro():
            if name in c.methods:
                fi = c.methods[name]
                if fi.is_static:
                    return Function(self, fi)
                if getattr(fi, "is_classmethod", False):
                    return BoundMethod(self, ci, fi)
                if getattr(fi, "is_property", False):
                    return self.call_funcinfo(fi, obj, (), {})
                return BoundMethod(self, obj, fi)
            if name in c.class_vars:
                return c.class_vars[name]
        raise AttributeError("'%s' object has no attribute '%s'" % (ci.name, name))

    def obj_setattr(self, obj, name, value):
        d = obj.__dict__
        ci = d["_cls"]
        t = self.attr_ctype(ci, name)
        if t is not None:
            value = self.coerce(t, value)
        elif ci.is_cdef and not any(name in c.attrs for c in ci.mro()):
            has_py_base = any(not getattr(c, "is_cdef", True) for c in ci.mro())
            if not has_py_base:
                raise AttributeError("'%s' object has no attribute '%s'" % (ci.name, name))
        d["_f"][name] = value

    def make_function(self, fi):
        return Function(self, fi)

    # ------------------------------------------------------------------ calls
    def call_funcinfo(self, fi, self_obj, args, kw, closure=None):
        if fi.native is not None:
            if self_obj is not None and not fi.is_static:
                return fi.native(self_obj, *args, **kw)
            return fi.native(*args, **kw)
        key = "%s:%s" % (fi.module.name, fi.qualname)
        if key not in self.encoded:
            self.encoded[key] = fi.line
        fr = self.new_frame(fi, self_obj, closure)
        params = fi.args
        args = list(args)
        if self_obj is not None and not fi.is_static:
            args.insert(0, self_obj)
        kw = dict(kw)
        npos = len([p for p in params if not p[3]])
        if len(args) > npos and fi.star is None:
            raise TypeError("%s() takes %d positional arguments but %d were given" % (fi.name, npos, len(args)))
        for i, (nm, t, dflt, kwonly) in enumerate(params):
            if i < len(args) and not kwonly:
                if nm in kw:
                    raise TypeError("%s() got multiple values for argument '%s'" % (fi.name, nm))
                v = args[i]
            elif nm in kw:
                v = kw.pop(nm)
            elif dflt is not None:
                v = self._default(fi, nm, dflt)
            else:
                raise TypeError("%s() missing required argument: '%s'" % (fi.name, nm))
            if t != "obj":
                v = self.coerce_arg(t, v, nm, fi)
                fr.ctypes[nm] = t
            fr.locals[nm] = v
        if fi.star is not None:
            fr.locals[fi.star] = tuple(args[npos:])
        if fi.starstar is not None:
            fr.locals[fi.starstar] = kw
        elif kw:
            raise TypeError("%s() got an unexpected keyword argument '%s'" % (fi.name, next(iter(kw))))
        try:
            self.exec(fi.body, fr)
            ret = None
        except _Return as r:
            ret = r.value
        if fi.kind == "cdef" and isinstance(fi.ret, str) and fi.ret not in ("obj", "void"):
            if ret is None:
                ret = 0
            ret = self.coerce(fi.ret, ret)
        return ret

    def coerce_arg(self, t, v, nm, fi):
        if isinstance(t, tuple) and t[0] == "cls":
            if t[1] in ("dict", "list", "str", "tuple", "set") and v is not None:
                want = getattr(_bi, t[1])
                if not isinstance(v, want):
                    raise TypeError("Argument '%s' has incorrect type (expected %s, got %s)" %
                                    (nm, t[1], type(v).__name__))
            elif v is not None and not isinstance(v, (ObjModel, np.ndarray, Pointer)) and t[1] not in ("ndarray", None):
                ci = self.lookup_class(t[1], fi.module)
                if ci is not None and not hasattr(v, "_pyxsym_duck"):
                    raise TypeError("Argument '%s' has incorrect type (expected %s, got %s)" %
                                    (nm, t[1], type(v).__name__))
            elif isinstance(v, ObjModel) and t[1] not in ("ndarray", None, "object"):
                ci = self.lookup_class(t[1], fi.module)
                if ci is not None and not v.__dict__["_cls"].issubclass_of(ci):
                    raise TypeError("Argument '%s' has incorrect type (expected %s, got %s)" %
                                    (nm, t[1], v.__dict__["_cls"].name))
            elif t[1] == "ndarray" and v is not None and not isinstance(v, np.ndarray):
                raise TypeError("Argument '%s' has incorrect type (expected numpy.ndarray, got %s)" %
                                (nm, type(v).__name__))
            return v
        return self.coerce(t, v)

    def _default(self, fi, nm, node):
        cache = fi.__dict__.setdefault("_defaults", {})
        if nm not in cache:
            cache[nm] = self.eval(node, Frame(fi.module))
        return cache[nm]

    def new_frame(self, fi, self_obj=None, closure=None):
        cls = fi.cls
        fr = Frame(fi.module, fi, self_obj, cls, closure)
        ct = self._cvar_cache.get(id(fi))
        if ct is None:
            ct = {}
            for nd in _walk(fi.body):
                if isinstance(nd, N.CVarDefNode):
                    for d in nd.declarators:
                        ct[decl_name(d)] = ctype_of_decl(nd.base_type, d)
            self._cvar_cache[id(fi)] = ct
        fr.ctypes = dict(ct)
        return fr

    def _is_local_name(self, fr, name):
        fi = fr.func
        names = self._names_cache.get(id(fi))
        if names is None:
            names = set()
            for nd in _walk(fi.body):
                if isinstance(nd, (N.SingleAssignmentNode,)):
                    for t in _targets(nd.lhs):
                        names.add(t)
                elif isinstance(nd, N.CascadedAssignmentNode):
                    for l in nd.lhs_list:
                        for t in _targets(l):
                            names.add(t)
                elif isinstance(nd, N.ForInStatNode):
                    for t in _targets(nd.target):
                        names.add(t)
            self._names_cache[id(fi)] = names
        return name in names

    # ------------------------------------------------------------------ statements
    def exec(self, node, fr):
        m = self._exec_tab.get(type(node))
        if m is None:
            m = getattr(self, "x_" + type(node).__name__, None)
            if m is None:
                raise Unsupported("statement node %s at %s:%s" % (type(node).__name__, fr.module.name,
                                                                    node.pos[1]))
            self._exec_tab[type(node)] = m
        return m(node, fr)

    def x_StatListNode(self, n, fr):
        for s in n.stats:
            self.exec(s, fr)

    def x_PassStatNode(self, n, fr):
        pass

    def x_ExprStatNode(self, n, fr):
        self.eval(n.expr, fr)

    def x_GlobalNode(self, n, fr):
        fr.globals_declared.update(n.names)

    def x_NonlocalNode(self, n, fr):
        if not hasattr(fr, "nonlocals") or fr.nonlocals is None:
            fr.nonlocals = set()
        fr.nonlocals |= set(n.names)

    def x_CVarDefNode(self, n, fr):
        for d in n.declarators:
            nm = decl_name(d)
            t = ctype_of_decl(n.base_type, d)
            fr.ctypes[nm] = t
            dflt = _decl_default(d)
            if dflt is not None:
                self.store_name(nm, self.eval(dflt, fr), fr)
            elif isinstance(t, tuple) and t[0] == "array":
                fr.locals[nm] = [self.default_value(t[1]) for _ in range(t[2] or 0)]

    def store_name(self, nm, v, fr):
        if nm in fr.globals_declared or fr.func is None and fr.locals is fr.module.ns:
            t = fr.module.gtypes.get(nm)
            if t is not None:
                v = self.coerce(t, v)
            fr.module.ns[nm] = v
            return
        if fr.nonlocals and nm in fr.nonlocals:
            p_ = fr.parent
            while p_ is not None:
                if nm in p_.locals:
                    p_.locals[nm] = v
                    return
                p_ = p_.parent
        t = fr.ctypes.get(nm)
        if t is not None:
            v = self.coerce(t, v)
        fr.locals[nm] = v

    def assign(self, target, v, fr):
        if isinstance(target, E.NameNode):
            self.store_name(target.name, v, fr)
        elif isinstance(target, E.AttributeNode):
            obj = self.eval(target.obj, fr)
            if isinstance(obj, ObjModel):
                self.obj_setattr(obj, target.attribute, v)
            else:
                setattr(obj, target.attribute, v)
        elif isinstance(target, E.IndexNode):
            base = self.eval(target.base, fr)
            idx = self.eval(target.index, fr)
            self.setitem(base, idx, v, self._elem_type(target.base, fr))
        elif isinstance(target, (E.TupleNode, E.ListNode)):
            vals = list(v)
            stars = [i for i, t in enumerate(target.args) if isinstance(t, E.StarredUnpackingNode)]
            if len(stars) == 1:
                i = stars[0]
                after = len(target.args) - i - 1
                if len(vals) < len(target.args) - 1:
                    raise ValueError("not enough values to unpack (expected at least %d, got %d)" % (len(target.args) - 1, len(vals)))
                for t, x in zip(target.args[:i], vals[:i]):
                    self.assign(t, x, fr)
                self.assign(target.args[i].target, vals[i:len(vals) - after], fr)
                for t, x in zip(target.args[i + 1:], vals[len(vals) - after:] if after else []):
                    self.assign(t, x, fr)
                return
            if len(vals) != len(target.args):
                raise ValueError("not enough/too many values to unpack (expected %d, got %d)" %
                                 (len(target.args), len(vals)))
            for t, x in zip(target.args, vals):
                self.assign(t, x, fr)
        elif isinstance(target, E.SliceIndexNode):
            base = self.eval(target.base, fr)
            start = self.eval(target.start, fr) if target.start is not None else None
            stop = self.eval(target.stop, fr) if target.stop is not None else None
            base[start:stop] = v
        elif isinstance(target, E.TypecastNode):
            self.assign(target.operand, v, fr)
        else:
            raise Unsupported("assignment target %s" % type(target).__name__)

    def _elem_type(self, base_node, fr):
        bt = None
        if isinstance(base_node, E.NameNode):
            bt = fr.ctypes.get(base_node.name)
            if bt is None and base_node.name not in fr.locals:
                bt = fr.module.gtypes.get(base_node.name)
        elif isinstance(base_node, E.AttributeNode) and isinstance(base_node.obj, E.NameNode) \
                and base_node.obj.name == "self" and fr.cls is not None:
            bt = self.attr_ctype(fr.cls, base_node.attribute)
        if isinstance(bt, tuple) and bt[0] in ("ptr", "vector", "memview", "array"):
            return bt[1]
        return None

    def x_SingleAssignmentNode(self, n, fr):
        if isinstance(n.rhs, E.ImportNode):
            nm = self.eval(n.rhs.module_name, fr)
            asname = n.lhs.name if isinstance(n.lhs, E.NameNode) else None
            top = (asname == nm.split(".")[0] and "." in nm)
            m = self.import_module(nm, fr, want_top=top)
            self.assign(n.lhs, m, fr)
            return
        self.assign(n.lhs, self.eval(n.rhs, fr), fr)

    def x_CascadedAssignmentNode(self, n, fr):
        v = self.eval(n.rhs, fr)
        for l in n.lhs_list:
            self.assign(l, v, fr)

    def _inplace(self, op, cur, rhs, fake, fr):
        """x op= y: numpy arrays and lists are updated IN PLACE (every alias sees the change), everything else is rebound"""
        if isinstance(cur, np.ndarray):
            cur[...] = self._binop(op, cur, rhs, fake, fr)
            return cur
        if isinstance(cur, list) and op == "+":
            cur.extend(rhs)
            return cur
        if isinstance(cur, list) and op == "*":
            cur *= rhs
            return cur
        if isinstance(cur, (set, dict)) and op in ("|", "&", "-", "^"):
            import operator as _op
            return {"|": _op.ior, "&": _op.iand, "-": _op.isub, "^": _op.ixor}[op](cur, rhs)
        return self._binop(op, cur, rhs, fake, fr)

    def x_InPlaceAssignmentNode(self, n, fr):
        t = n.lhs
        op = n.operator
        if isinstance(t, E.NameNode):
            cur = self.lookup(t.name, fr, t)
            r = self._inplace(op, cur, self.eval(n.rhs, fr), _FakeBin(t, n.rhs), fr)
            r = self._wrap_static(r, t, fr)
            self.store_name(t.name, r, fr)
        elif isinstance(t, E.AttributeNode):
            obj = self.eval(t.obj, fr)
            cur = self.getattr_(obj, t.attribute, fr)
            r = self._inplace(op, cur, self.eval(n.rhs, fr), _FakeBin(t, n.rhs), fr)
            if isinstance(obj, ObjModel):
                self.obj_setattr(obj, t.attribute, r)
            else:
                setattr(obj, t.attribute, r)
        elif isinstance(t, E.IndexNode):
            base = self.eval(t.base, fr)
            idx = self.eval(t.index, fr)
            if isinstance(base, np.ndarray):
                idx = self._np_index(base, idx)
            elif is_sym(idx):
                idx = ctx().concretize(idx, 0, len(base) if not isinstance(base, Pointer) else base._size())
            cur = self.getitem(base, idx)
            r = self._inplace(op, cur, self.eval(n.rhs, fr), _FakeBin(t, n.rhs), fr)
            if not (r is cur and isinstance(cur, (list, set, dict))):
                self.setitem(base, idx, r, self._elem_type(t.base, fr))
        else:
            raise Unsupported("in-place target %s" % type(t).__name__)

    def _wrap_static(self, r, t, fr):
        if isinstance(r, int) and not isinstance(r, bool):
            st = self.static_ctype(t, fr)
            if st in ("uint", "ulong"):
                return self._wrap_int(r, st)
        return r

    def x_DelStatNode(self, n, fr):
        for a in n.args:
            if isinstance(a, E.NameNode):
                del fr.locals[a.name]
            elif isinstance(a, E.IndexNode):
                del self.eval(a.base, fr)[self.eval(a.index, fr)]
            elif isinstance(a, E.AttributeNode):
                o = self.eval(a.obj, fr)
                if isinstance(o, ObjModel):
                    del o.__dict__["_f"][a.attribute]
                else:
                    delattr(o, a.attribute)
            else:
                raise Unsupported("del target")

    def _inert(self, body):
        """Statement whose only effect is a logging/warning/print stub call."""
        if body is None or isinstance(body, N.PassStatNode):
            return True
        if isinstance(body, N.StatListNode):
            return all(self._inert(s) for s in body.stats)
        if isinstance(body, N.ExprStatNode) and isinstance(body.expr, (E.SimpleCallNode, E.GeneralCallNode)):
            f = body.expr.function
            if isinstance(f, E.NameNode) and f.name == "print":
                return True
            if isinstance(f, E.AttributeNode) and isinstance(f.obj, E.NameNode) and f.obj.name in ("warnings", "logging"):
                return True
        return False

    def _mergeable(self, n):
        """names assigned when both arms of a one-clause if are plain scalar assignments with call-free right-hand sides"""
        key = ("m", id(n))
        if key in self._inert_cache:
            return self._inert_cache[key]
        names = []
        ok = True
        for body in (n.if_clauses[0].body, n.else_clause):
            if body is None:
                continue
            stats = body.stats if isinstance(body, N.StatListNode) else [body]
            for st in stats:
                if isinstance(st, (N.SingleAssignmentNode, N.InPlaceAssignmentNode)) and isinstance(st.lhs, E.NameNode) \
                        and self._pure_cond(st.rhs):
                    names.append(st.lhs.name)
                else:
                    ok = False
        if not self._pure_cond(n.if_clauses[0].condition):
            ok = False
        res = sorted(set(names)) if ok and names else None
        self._inert_cache[key] = res
        return res

    def _merge_if(self, n, fr, cv, names):
        """if-conversion: both arms are evaluated on copies of the assigned scalars and joined with If(c, a, b)"""
        missing = object()
        old = {k: fr.locals.get(k, missing) for k in names}
        self.exec(n.if_clauses[0].body, fr)
        then = {k: fr.locals.get(k, missing) for k in names}
        for k, v in old.items():
            if v is missing:
                fr.locals.pop(k, None)
            else:
                fr.locals[k] = v
        if n.else_clause is not None:
            self.exec(n.else_clause, fr)
        els = {k: fr.locals.get(k, missing) for k in names}
        for k in names:
            a, b = then[k], els[k]
            if a is b:
                continue
            num = lambda v: isinstance(v, (int, float, Fraction, Sym, SymBool)) and v is not missing
            if not (num(a) and num(b)):
                raise Unsupported("cannot merge branches assigning %s" % k)
            fr.locals[k] = ite(cv, a, b)

    def _pure_cond(self, node):
        for nd in _walk(node):
            if isinstance(nd, (E.SimpleCallNode, E.GeneralCallNode)):
                return False
        return True

    def x_IfStatNode(self, n, fr):
        key = id(n)
        skip = self._inert_cache.get(key)
        if skip is None:
            skip = self._inert(n.else_clause) and all(self._inert(c.body) and self._pure_cond(c.condition)
                                                      for c in n.if_clauses)
            self._inert_cache[key] = skip
        if skip and _sym._CTX is not None:
            return      # branches differ only in diagnostics: not forked (DESIGN 2.6)
        if len(n.if_clauses) == 1 and _sym._CTX is not None:
            names = self._mergeable(n)
            if names is not None:
                cv = self.eval(n.if_clauses[0].condition, fr)
                if is_sym(cv):
                    return self._merge_if(n, fr, cv, names)
                if self.truth(cv):
                    self.exec(n.if_clauses[0].body, fr)
                elif n.else_clause is not None:
                    self.exec(n.else_clause, fr)
                return
        for c in n.if_clauses:
            if self.truth(self.eval(c.condition, fr)):
                self.exec(c.body, fr)
                return
        if n.else_clause is not None:
            self.exec(n.else_clause, fr)

    def x_WhileStatNode(self, n, fr):
        ov = self.loop_overrides.get(n.pos[1:] + (fr.module.name,))
        if ov is not None:
            if ov(self, fr, n) != "run":
                return
        if self.stop_at is not None and self.stop_at == (fr.module.name,) + tuple(n.pos[1:]):
            raise StopAt(fr, n)
        limit = ctx().unwind if _sym._CTX is not None else 10 ** 9
        sym_iters = 0
        while True:
            c = self.eval(n.condition, fr)
            if is_sym(c):
                sym_iters += 1
                if sym_iters > limit:
                    if ctx().feasible(zbool(c)):
                        ctx().stats["unwind_fail"] += 1
                        raise UnwindExceeded("while loop at %s:%d" % (fr.module.name, n.pos[1]))
            if not self.truth(c):
                break
            try:
                self.exec(n.body, fr)
            except _Break:
                return
            except _Continue:
                continue
        if n.else_clause is not None:
            self.exec(n.else_clause, fr)

    def x_ForInStatNode(self, n, fr):
        seq = self.eval(n.iterator.sequence, fr)
        if isinstance(seq, SymRange):
            it = seq.iterate(self)
        elif isinstance(seq, ObjModel):
            m = seq._special("__iter__")
            if m is None:
                raise TypeError("object is not iterable")
            it = iter(self.call_funcinfo(m, seq, (), {}))
        else:
            it = iter(seq)
        broke = False
        for v in it:
            self.assign(n.target, v, fr)
            try:
                self.exec(n.body, fr)
            except _Break:
                broke = True
                break
            except _Continue:
                continue
        if not broke and n.else_clause is not None:
            self.exec(n.else_clause, fr)

    def x_ForFromStatNode(self, n, fr):
        """for i from a <= i < b [by s]: a C loop; the bounds are evaluated once"""
        lo = self.eval(n.bound1, fr)
        hi = self.eval(n.bound2, fr)
        step = self.eval(n.step, fr) if getattr(n, "step", None) is not None else 1
        r1, r2 = n.relation1, n.relation2
        down = r1 in (">", ">=")
        i = lo + (0 if r1 in ("<=", ">=") else (-1 if down else 1))
        ops = {"<": lambda a, b: a < b, "<=": lambda a, b: a <= b, ">": lambda a, b: a > b, ">=": lambda a, b: a >= b}
        count = 0
        broke = False
        while self.truth(ops[r2](i, hi)):
            count += 1
            if count > ctx().unwind * 64:
                raise UnwindExceeded("for-from loop beyond %d iterations" % (ctx().unwind * 64))
            self.assign(n.target, i, fr)
            try:
                self.exec(n.body, fr)
            except _Break:
                broke = True
                break
            except _Continue:
                pass
            i = i - step if down else i + step
        if not broke and getattr(n, "else_clause", None) is not None:
            self.exec(n.else_clause, fr)

    def x_GILStatNode(self, n, fr):
        self.exec(n.body, fr)          # with nogil / with gil: no effect on sequential semantics

    def x_ReturnStatNode(self, n, fr):
        raise _Return(self.eval(n.value, fr) if n.value is not None else None)

    def x_BreakStatNode(self, n, fr):
        raise _Break()

    def x_ContinueStatNode(self, n, fr):
        raise _Continue()

    def x_RaiseStatNode(self, n, fr):
        if n.exc_type is None:
            if fr.exc_stack:
                raise fr.exc_stack[-1]
            raise RuntimeError("No active exception to reraise")
        e = self.eval(n.exc_type, fr)
        if n.exc_value is not None:
            e = e(self.eval(n.exc_value, fr))
        if isinstance(e, type) and issubclass(e, BaseException):
            e = e()
        if n.cause is not None:
            raise e from self.eval(n.cause, fr)
        raise e

    def x_ReraiseStatNode(self, n, fr):
        if fr.exc_stack:
            raise fr.exc_stack[-1]
        raise RuntimeError("No active exception to reraise")

    def x_AssertStatNode(self, n, fr):
        cond = getattr(n, "condition", None)
        if cond is None:
            cond = n.cond
        if not self.truth(self.eval(cond, fr)):
            val = getattr(n, "value", None)
            if val is not None:
                raise AssertionError(self.eval(val, fr))
            raise AssertionError()

    def x_TryExceptStatNode(self, n, fr):
        try:
            self.exec(n.body, fr)
        except EngineSignal:
            raise
        except BaseException as e:
            for c in n.except_clauses:
                if c.pattern is None:
                    match = isinstance(e, Exception) or isinstance(e, (KeyboardInterrupt,))
                else:
                    pats = []
                    for p in c.pattern:
                        pv = self.eval(p, fr)
                        pats.extend(pv if isinstance(pv, tuple) else [pv])
                    match = isinstance(e, tuple(pats))
                if match:
                    if c.target is not None:
                        self.assign(c.target, e, fr)
                    fr.exc_stack.append(e)
                    try:
                        self.exec(c.body, fr)
                    finally:
                        fr.exc_stack.pop()
                    return
            raise
        else:
            if n.else_clause is not None:
                self.exec(n.else_clause, fr)

    def x_TryFinallyStatNode(self, n, fr):
        try:
            self.exec(n.body, fr)
        finally:
            self.exec(n.finally_clause, fr)

    def x_WithStatNode(self, n, fr):
        mgr = self.eval(n.manager, fr)
        val = mgr.__enter__()
        if n.target is not None:
            self.assign(n.target, val, fr)
        try:
            self.exec(n.body, fr)
        except EngineSignal:
            mgr.__exit__(None, None, None)
            raise
        except BaseException as e:
            if not mgr.__exit__(type(e), e, e.__traceback__):
                raise
        else:
            mgr.__exit__(None, None, None)

    def x_DefNode(self, n, fr):
        fi = make_funcinfo(n, fr.module, None)
        fr.locals[n.name] = Function(self, fi, closure=fr)

    def x_CFuncDefNode(self, n, fr):
        fi = make_funcinfo(n, fr.module, None)
        fr.locals[fi.name] = Function(self, fi, closure=fr)

    def x_PyClassDefNode(self, n, fr):
        ci = self.define_class(n, fr.module, fr)
        fr.locals[n.name] = ci

    def x_CClassDefNode(self, n, fr):
        self.define_class(n, fr.module, fr)

    # ---- imports
    def x_CImportStatNode(self, n, fr):
        nm = n.module_name
        if nm in ("numpy", "cython") or nm.startswith("libc") or nm.startswith("cpython"):
            return
        target = n.as_name or nm.split(".")[0]
        fr.module.ns[target] = self.load(nm)

    def x_FromCImportStatNode(self, n, fr):
        nm = n.module_name
        names = [(x[1], x[2]) for x in n.imported_names]
        if nm == "libc.math":
            for name, asn in names:
                fr.module.ns[asn or name] = self.LIBC[name] if name in self.LIBC else _sym.s_libm(name)
            return
        if nm in ("vector", "bioscrape.vector"):
            fr.module.ns["vector"] = VectorFactory()
            return
        if nm.startswith("libc") or nm.startswith("cython") or nm.startswith("cpython") or nm == "numpy":
            return
        key = ALIASES.get(nm, nm)
        if key in MODULE_FILES:
            m = self.load(key)
            for name, asn in names:
                if name in m.ns:
                    fr.module.ns[asn or name] = m.ns[name]
            return
        raise Unsupported("cimport from %s" % nm)

    def x_FromImportStatNode(self, n, fr):
        modname = self.eval(n.module.module_name, fr)
        level = getattr(n.module, "level", 0) or 0
        if level and level > 0:
            pkg = fr.module.name.rsplit(".", level)[0]
            modname = pkg + ("." + modname if modname else "")
        m = self.import_module(modname, fr)
        for name, target in n.items:
            if name == "*":
                src = m.ns if isinstance(m, ModuleInfo) else vars(m)
                for k, v in src.items():
                    if not k.startswith("_"):
                        fr.locals[k] = v
                continue
            try:
                v = m.ns[name] if isinstance(m, ModuleInfo) else getattr(m, name)
            except (KeyError, AttributeError):
                if isinstance(m, ModuleInfo) and not m.executed:
                    v = _LazyImport(m, name)      # circular import: resolved on first use
                else:
                    try:
                        v = self.import_module(modname + "." + name, fr)
                    except ImportError:
                        raise ImportError("cannot import name '%s' from '%s'" % (name, modname))
            self.assign(target, v, fr)

    # ------------------------------------------------------------------ harness API
    def find_function(self, module, qualname):
        m = self.load(module)
        if "." in qualname:
            c, f = qualname.split(".")
            fi = m.classes[c].methods.get(f)
        else:
            fi = m.funcs.get(qualname)
        if fi is None:
            raise Unsupported("function %s not found in %s" % (qualname, module))
        return fi

    def split_at_while(self, fi, which=0):
        """(stats before, while node, stats after) for the which-th top-level while of fi."""
        body = fi.body
        stats = list(body.stats) if isinstance(body, N.StatListNode) else [body]
        idx = [i for i, s in enumerate(stats) if isinstance(s, N.WhileStatNode)]
        if which >= len(idx):
            raise Unsupported("%s has no top-level while #%d" % (fi.qualname, which))
        k = idx[which]
        return stats[:k], stats[k], stats[k + 1:]

    def exec_stats(self, stats, fr):
        """Execute statements; returns ('normal', None) | ('return', v)."""
        try:
            for s in stats:
                self.exec(s, fr)
        except _Return as r:
            return ("return", r.value)
        return ("normal", None)

    def exec_loop_once(self, wnode, fr):
        """One evaluation of the loop condition + body. -> 'exit'|'next'|'break'|('return',v)"""
        if not self.truth(self.eval(wnode.condition, fr)):
            return "exit"
        try:
            self.exec(wnode.body, fr)
        except _Break:
            return "break"
        except _Continue:
            return "next"
        except _Return as r:
            return ("return", r.value)
        return "next"

    def note_encoded(self, fi):
        self.encoded["%s:%s" % (fi.module.name, fi.qualname)] = fi.line


def _decl_default(d):
    while d is not None:
        v = getattr(d, "default", None)
        if v is not None:
            return v
        d = getattr(d, "base", None)
    return None


def _c_floor(x):
    import z3 as _z3
    if isinstance(x, Sym):
        return x if x.is_int else Sym(_z3.ToInt(x.z))
    if isinstance(x, _sym.SymBool):
        return x._num()
    if isinstance(x, Fraction):
        return Fraction(math.floor(x))
    return float(math.floor(x))          # libm returns a double


def _c_round(x):
    if is_sym(x):
        return ite(x >= 0, trunc(x + Fraction(1, 2)), trunc(x - Fraction(1, 2)))
    return trunc(x - Fraction(1, 2))


class _FakeBin:
    def __init__(self, a, b):
        self.operand1 = a
        self.operand2 = b


class _LazyImport:
    def __init__(self, mod, name):
        self._m = mod
        self._n = name

    def _get(self):
        return self._m.ns[self._n]

    def __call__(self, *a, **k):
        return self._get()(*a, **k)

    def __getattr__(self, item):
        return getattr(self._get(), item)


def _targets(t):
    if isinstance(t, E.NameNode):
        yield t.name
    elif isinstance(t, (E.TupleNode, E.ListNode)):
        for a in t.args:
            yield from _targets(a)


class SymRange:
    """range() with a symbolic bound: iteration forks on ``i < stop`` up to the unwind bound."""
    def __init__(self, *a):
        if len(a) == 1:
            self.start, self.stop, self.step = 0, a[0], 1
        elif len(a) == 2:
            self.start, self.stop, self.step = a[0], a[1], 1
        else:
            self.start, self.stop, self.step = a
        if is_sym(self.step) or (is_sym(self.start) and is_sym(self.stop)):
            raise Unsupported("symbolic range step, or symbolic start and stop together")

    def iterate(self, interp):
        c = ctx()
        if is_sym(self.start):
            # a symbolic first index below a concrete bound: fork on its value (an empty range is one case, more than `unwind`
            # iterations is reported like any other loop that does not fit the bound)
            st, stop = self.start, int(self.stop)
            if isinstance(st, SymBool):
                st = st._num()
            if not st.is_int:
                raise Unsupported("real-valued range start")
            empty = (st >= stop) if self.step > 0 else (st <= stop)
            if c.branch(zbool(empty)):
                return
            lo, hi = (stop - c.unwind, stop) if self.step > 0 else (stop + 1, stop + c.unwind + 1)
            for k in range(lo, hi):
                if c.branch(st.z == k):
                    self.start = k
                    break
            else:
                c.stats["unwind_fail"] += 1
                raise UnwindExceeded("symbolic range start more than %d iterations away from its bound" % c.unwind)
        i = int(self.start)
        n = 0
        while True:
            cond = (i < self.stop) if self.step > 0 else (i > self.stop)
            if n >= c.unwind:
                if c.feasible(zbool(cond)):
                    c.stats["unwind_fail"] += 1
                    raise UnwindExceeded("symbolic range beyond %d iterations" % c.unwind)
                return
            if not bool(cond):
                return
            yield i
            i += int(self.step)
            n += 1

    def __iter__(self):
        return self.iterate(None)
