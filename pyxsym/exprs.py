"""Expression evaluation (mixin for Interp)."""
import math
import operator
import builtins as _bi
from fractions import Fraction

import numpy as np
from Cython.Compiler import Nodes as N, ExprNodes as E

from .sym import (Sym, SymBool, is_sym, Unsupported, CFault, ctx, trunc, zbool, s_max, s_min, s_fabs,
                  sym_pow, EngineSignal, ite)
from . import sym as _sym
from .values import (ObjModel, Pointer, NULL, CVector, VecPtr, VectorFactory, BoundMethod, Function,
                     SuperProxy, GARBAGE)
from .front import ClassInfo, ModuleInfo, FuncInfo, ctype_of_decl, make_funcinfo

INT_TYPES = ("int", "uint", "long", "ulong", "short", "ushort")

CMP = {
    "==": operator.eq, "!=": operator.ne, "<": operator.lt, "<=": operator.le,
    ">": operator.gt, ">=": operator.ge,
    "is": operator.is_, "is_not": operator.is_not,
    "in": lambda a, b: _contains(b, a), "not_in": lambda a, b: not _contains(b, a),
}


def _contains(container, item):
    if is_sym(item) and isinstance(container, (list, tuple)):
        for e in container:
            if item == e:
                return True
        return False
    return item in container


def exact():
    return _sym._CTX is not None and _sym._CTX.exact


class ExprMixin:
    # ------------------------------------------------------------------ static C typing
    def static_ctype(self, node, fr):
        """Best-effort static C type of an expression ('int'-like, 'double', or None=object)."""
        if isinstance(node, E.IntNode):
            return "uint" if node.unsigned else "int"
        if isinstance(node, E.FloatNode):
            return "double"
        if isinstance(node, E.NameNode):
            t = fr.ctypes.get(node.name)
            if t is None and node.name not in fr.locals:
                t = fr.module.gtypes.get(node.name)
            return t if isinstance(t, str) and t != "obj" else None
        if isinstance(node, E.AttributeNode):
            if isinstance(node.obj, E.NameNode):
                ot = fr.ctypes.get(node.obj.name)
                cname = None
                if node.obj.name == "self" and fr.cls is not None:
                    ci = fr.cls
                elif isinstance(ot, tuple) and ot[0] == "cls":
                    ci = self.lookup_class(ot[1], fr.module)
                else:
                    ci = None
                if ci is not None:
                    t = self.attr_ctype(ci, node.attribute)
                    return t if isinstance(t, str) and t != "obj" else None
            return None
        if isinstance(node, E.TypecastNode):
            t = ctype_of_decl(node.base_type, node.declarator)
            return t if isinstance(t, str) and t != "obj" else None
        if isinstance(node, E.IndexNode):
            bt = None
            if isinstance(node.base, E.NameNode):
                bt = fr.ctypes.get(node.base.name)
            elif isinstance(node.base, E.AttributeNode) and isinstance(node.base.obj, E.NameNode) \
                    and node.base.obj.name == "self" and fr.cls is not None:
                bt = self.attr_ctype(fr.cls, node.base.attribute)
            if isinstance(bt, tuple) and bt[0] in ("ptr", "vector", "memview", "array"):
                t = bt[1]
                return t if isinstance(t, str) and t not in ("obj", "void") else None
            return None
        if isinstance(node, (E.AddNode, E.SubNode, E.MulNode, E.DivNode, E.ModNode)):
            a = self.static_ctype(node.operand1, fr)
            b = self.static_ctype(node.operand2, fr)
            if a is None or b is None:
                return None
            if a in ("double", "float32") or b in ("double", "float32"):
                return "double"
            if a in INT_TYPES and b in INT_TYPES:
                if "ulong" in (a, b):
                    return "ulong"
                if "long" in (a, b):
                    return "long"
                if "uint" in (a, b):
                    return "uint"
                return "int"
            return None
        if isinstance(node, E.UnaryMinusNode):
            return self.static_ctype(node.operand, fr)
        if isinstance(node, E.SimpleCallNode):
            f = node.function
            fi = None
            if isinstance(f, E.NameNode):
                v = fr.module.ns.get(f.name)
                if isinstance(v, Function):
                    fi = v.fi
            elif isinstance(f, E.AttributeNode) and isinstance(f.obj, E.NameNode):
                if f.obj.name == "self" and fr.cls is not None:
                    fi = self.find_method_of(fr.cls, f.attribute)
                else:
                    m = fr.module.ns.get(f.obj.name)
                    if isinstance(m, ModuleInfo):
                        v = m.ns.get(f.attribute)
                        if isinstance(v, Function):
                            fi = v.fi
                    else:
                        ot = fr.ctypes.get(f.obj.name)
                        if isinstance(ot, tuple) and ot[0] == "cls":
                            ci = self.lookup_class(ot[1], fr.module)
                            if ci is not None:
                                fi = self.find_method_of(ci, f.attribute)
            if fi is not None and fi.kind == "cdef":
                t = fi.ret
                return t if isinstance(t, str) and t not in ("obj", "void") else None
            return None
        return None

    # ------------------------------------------------------------------ dispatcher
    def eval(self, node, fr):
        m = self._eval_tab.get(type(node))
        if m is None:
            m = getattr(self, "e_" + type(node).__name__, None)
            if m is None:
                raise Unsupported("expression node %s at %s:%s" % (type(node).__name__, fr.module.name,
                                                                     node.pos[1]))
            self._eval_tab[type(node)] = m
        return m(node, fr)

    # ------------------------------------------------------------------ literals
    def e_IntNode(self, n, fr):
        return int(n.value.rstrip("uUlL"), 0)

    def e_FloatNode(self, n, fr):
        if exact():
            try:
                return Fraction(n.value)
            except ValueError:
                return Fraction(repr(float(n.value)))
        return float(n.value)

    def e_UnicodeNode(self, n, fr):
        return str(n.value)

    e_IdentifierStringNode = e_UnicodeNode
    e_StringNode = e_UnicodeNode

    def e_BytesNode(self, n, fr):
        return bytes(n.value)

    def e_BoolNode(self, n, fr):
        return bool(n.value)

    def e_NoneNode(self, n, fr):
        return None

    def e_EllipsisNode(self, n, fr):
        return Ellipsis

    def e_JoinedStrNode(self, n, fr):
        return "".join(self.eval(v, fr) for v in n.values)

    def e_FormattedValueNode(self, n, fr):
        v = self.eval(n.value, fr)
        cc = n.conversion_char
        if cc == "r":
            v = repr(v)
        elif cc == "s":
            v = str(v)
        spec = self.eval(n.format_spec, fr) if n.format_spec is not None else ""
        if is_sym(v):
            return str(v)
        return format(v, spec)

    def e_TupleNode(self, n, fr):
        return tuple(self._seq(n.args, fr))

    def e_ListNode(self, n, fr):
        return list(self._seq(n.args, fr))

    def e_SetNode(self, n, fr):
        return set(self._seq(n.args, fr))

    def _seq(self, args, fr):
        out = []
        for a in args:
            if isinstance(a, E.StarredUnpackingNode):
                out.extend(self.eval(a.target, fr))
            else:
                out.append(self.eval(a, fr))
        return out

    def e_DictNode(self, n, fr):
        d = {}
        for kv in n.key_value_pairs:
            d[self.eval(kv.key, fr)] = self.eval(kv.value, fr)
        return d

    def e_MergedDictNode(self, n, fr):
        d = {}
        for a in n.keyword_args:
            d.update(self.eval(a, fr))
        return d

    def e_MergedSequenceNode(self, n, fr):
        out = []
        for a in n.args:
            out.extend(self.eval(a, fr))
        return out

    def e_AsTupleNode(self, n, fr):
        return tuple(self.eval(n.arg, fr))

    def e_SliceNode(self, n, fr):
        return slice(self.eval(n.start, fr), self.eval(n.stop, fr), self.eval(n.step, fr))

    # ------------------------------------------------------------------ names / attributes
    def e_NameNode(self, n, fr):
        return self.lookup(n.name, fr, n)

    def lookup(self, name, fr, node=None):
        f = fr
        while f is not None:
            if name in f.locals and name not in f.globals_declared:
                return f.locals[name]
            if f is fr and name in f.ctypes and name not in f.globals_declared:
                t = f.ctypes[name]
                if isinstance(t, tuple) and t[0] == "vector":
                    v = CVector(elem=t[1])
                    f.locals[name] = v
                    return v
                raise Unsupported("read of uninitialised C variable %s in %s" % (name, fr.func))
            f = f.parent
        ns = fr.module.ns
        if name in ns:
            return ns[name]
        if name in self.builtins:
            return self.builtins[name]
        if hasattr(_bi, name):
            return getattr(_bi, name)
        if fr.func is not None and self._is_local_name(fr, name):
            raise UnboundLocalError("cannot access local variable '%s' where it is not associated with a value" % name)
        raise NameError("name '%s' is not defined" % name)

    def e_AttributeNode(self, n, fr):
        obj = self.eval(n.obj, fr)
        if obj is None and isinstance(n.obj, E.NameNode):
            t = fr.ctypes.get(n.obj.name)
            if isinstance(t, tuple) and t[0] == "cls":
                ci = self.lookup_class(t[1], fr.module)
                if ci is not None and self.attr_ctype(ci, n.attribute) is not None:
                    return GARBAGE     # C field read through a None reference (undefined in C)
        return self.getattr_(obj, n.attribute, fr)

    def getattr_(self, obj, name, fr=None):
        if isinstance(obj, ObjModel):
            return self.obj_getattr(obj, name)
        if isinstance(obj, SuperProxy):
            return obj.__getattr__(name)
        if isinstance(obj, np.ndarray):
            if name == "data":
                flat = obj.reshape(-1) if obj.flags["C_CONTIGUOUS"] else obj
                return Pointer(flat if obj.flags["C_CONTIGUOUS"] else obj, 0, obj)
            return getattr(obj, name)
        if obj is None and fr is not None and name not in ("__class__",):
            # field read through a None-typed cdef reference: undefined in C; modelled as garbage
            raise AttributeError("'NoneType' object has no attribute '%s'" % name)
        return getattr(obj, name)

    # ------------------------------------------------------------------ operators
    def _binop(self, op, a, b, n, fr):
        if op == "+":
            return a + b
        if op == "-":
            return a - b
        if op == "*":
            return a * b
        if op == "/":
            return self._div(a, b, n, fr)
        if op == "//":
            return a // b
        if op == "%":
            return self._mod(a, b, n, fr)
        if op == "**":
            return self._pow(a, b, n, fr)
        if op == "@":
            return a @ b
        if op == "&":
            return a & b
        if op == "|":
            return a | b
        if op == "^":
            return a ^ b
        if op == ">>":
            return a >> b
        if op == "<<":
            return a << b
        raise Unsupported("operator %s" % op)

    def _wrap_int(self, v, t):
        if t == "ulong" and isinstance(v, int):
            return v & 0xFFFFFFFFFFFFFFFF
        if t == "uint" and isinstance(v, int):
            return v & 0xFFFFFFFF
        return v

    def e_binop(self, n, fr):
        a = self.eval(n.operand1, fr)
        b = self.eval(n.operand2, fr)
        r = self._binop(n.operator, a, b, n, fr)
        if isinstance(r, int) and not isinstance(r, bool) and (r < 0 or r > 0x7FFFFFFF):
            st = self.static_ctype(n, fr)
            if st in ("uint", "ulong"):
                r = self._wrap_int(r, st)
        return r

    e_AddNode = e_SubNode = e_MulNode = e_DivNode = e_ModNode = e_PowNode = e_binop
    e_IntBinopNode = e_MatMultNode = e_BitwiseOrNode = e_binop

    def _div(self, a, b, n, fr):
        ta = self.static_ctype(n.operand1, fr) if n is not None else None
        tb = self.static_ctype(n.operand2, fr) if n is not None else None
        if ta in INT_TYPES and tb in INT_TYPES and getattr(fr.module, "cdivision", True):
            # C integer division (cdivision=True): truncation toward zero
            if is_sym(a) or is_sym(b):
                q = abs(a) // abs(b)
                return ite((a >= 0) == (b > 0), q, -q)
            if b == 0:
                raise CFault("integer division by zero")
            q = abs(a) // abs(b)
            return q if (a >= 0) == (b > 0) else -q
        if is_sym(a) or is_sym(b):
            if _sym._isnan(a) or _sym._isnan(b):
                return math.nan
            return (a if is_sym(a) else Sym(_sym.zreal(a))) / b
        cdouble = (ta in ("double", "float32") or tb in ("double", "float32"))
        if isinstance(a, np.ndarray) or isinstance(b, np.ndarray):
            return a / b
        if exact() and isinstance(a, (int, Fraction)) and isinstance(b, (int, Fraction)) \
                and not isinstance(a, bool) and not isinstance(b, bool):
            if b == 0:
                if cdouble:
                    return math.nan if a == 0 else math.copysign(math.inf, a)
                raise ZeroDivisionError("division by zero")
            return Fraction(a) / Fraction(b)
        try:
            return a / b
        except ZeroDivisionError:
            if cdouble:
                a = float(a)
                return math.nan if a == 0 or math.isnan(a) else math.copysign(math.inf, a)
            raise

    def _mod(self, a, b, n, fr):
        if isinstance(a, str):
            return a % b
        ta = self.static_ctype(n.operand1, fr)
        tb = self.static_ctype(n.operand2, fr)
        if ta in INT_TYPES and tb in INT_TYPES and not (is_sym(a) or is_sym(b)) and getattr(fr.module, "cdivision", True):
            if b == 0:
                raise CFault("integer modulo by zero")
            if "u" in ta[0] or "u" in tb[0]:
                w = 64 if "long" in ta or "long" in tb else 32
                return (a % (1 << w)) % (b % (1 << w))
            return int(math.fmod(a, b))
        return a % b

    def _pow(self, a, b, n, fr):
        if is_sym(a) or is_sym(b) or exact() and not isinstance(a, np.ndarray):
            return sym_pow(a, b)
        return a ** b

    def e_UnaryMinusNode(self, n, fr):
        return -self.eval(n.operand, fr)

    def e_UnaryPlusNode(self, n, fr):
        return +self.eval(n.operand, fr)

    def e_TildeNode(self, n, fr):
        return ~self.eval(n.operand, fr)

    def e_NotNode(self, n, fr):
        v = self.eval(n.operand, fr)
        if isinstance(v, SymBool):
            return SymBool(_sym.z3.Not(v.z))
        return not self.truth(v)

    def truth(self, v):
        return bool(v)

    def e_BoolBinopNode(self, n, fr):
        a = self.eval(n.operand1, fr)
        if n.operator == "and":
            if isinstance(a, (SymBool,)):
                # keep pure boolean conjunctions symbolic only if rhs is cheap & pure: fork instead
                pass
            if not self.truth(a):
                return a if not is_sym(a) else False
            return self.eval(n.operand2, fr)
        else:
            if self.truth(a):
                return a if not is_sym(a) else True
            return self.eval(n.operand2, fr)

    def e_PrimaryCmpNode(self, n, fr):
        a = self.eval(n.operand1, fr)
        b = self.eval(n.operand2, fr)
        r = self._cmp(n.operator, a, b)
        c = n.cascade
        while c is not None:
            if not self.truth(r):
                return r
            a = b
            b = self.eval(c.operand2, fr)
            r = self._cmp(c.operator, a, b)
            c = c.cascade
        return r

    def _cmp(self, op, a, b):
        if a is GARBAGE or b is GARBAGE:
            return op in ("!=", "is_not", "not_in")
        if isinstance(a, ClassInfo) or isinstance(b, ClassInfo):
            if op in ("==", "is"):
                return a is b
            if op in ("!=", "is_not"):
                return a is not b
        return CMP[op](a, b)

    def _total_expr(self, node):
        """call-free and without division / modulo / power: safe to evaluate on the arm that is not taken"""
        from .interp import _walk
        for nd in _walk(node):
            if isinstance(nd, (E.SimpleCallNode, E.GeneralCallNode, E.DivNode, E.ModNode, E.PowNode)):
                return False
        return True

    def e_CondExprNode(self, n, fr):
        cv = self.eval(n.condition, fr)
        if is_sym(cv) and self._total_expr(n.true_val) and self._total_expr(n.false_val):
            # if-conversion of a call-free conditional expression with numeric arms
            try:
                a = self.eval(n.true_val, fr)
                b = self.eval(n.false_val, fr)
            except (CFault, IndexError, KeyError, ZeroDivisionError):
                a = b = None
            num = lambda v: isinstance(v, (int, float, Fraction, Sym)) and not isinstance(v, bool)
            if num(a) and num(b):
                return ite(cv, a, b)
        if self.truth(cv):
            return self.eval(n.true_val, fr)
        return self.eval(n.false_val, fr)

    # ------------------------------------------------------------------ casts / pointers
    def e_TypecastNode(self, n, fr):
        v = self.eval(n.operand, fr)
        t = ctype_of_decl(n.base_type, n.declarator)
        return self.cast(t, v)

    def cast(self, t, v):
        if isinstance(t, tuple):
            if t[0] == "ptr":
                if isinstance(v, (Pointer, VecPtr)):
                    return v
                if isinstance(v, np.ndarray):
                    return Pointer(v.reshape(-1), 0, v)
                if v is None or (isinstance(v, int) and v == 0):
                    return NULL
                return v
            if t[0] == "cls":
                nm = t[1] or ""
                if "int" in nm and not isinstance(v, (ObjModel, np.ndarray)) and v is not None:
                    return trunc(v)
                if nm in ("double_t", "float64_t") and not isinstance(v, (ObjModel, np.ndarray)):
                    return self.coerce("double", v)
            return v
        return self.coerce(t, v, explicit=True)

    def e_AmpersandNode(self, n, fr):
        op = n.operand
        if isinstance(op, E.IndexNode):
            base = self.eval(op.base, fr)
            idx = self.eval(op.index, fr)
            if isinstance(base, Pointer):
                return base + self._cidx(idx, 0, base._size())
            if isinstance(base, np.ndarray):
                if not isinstance(idx, tuple):
                    idx = (idx,)
                idx = tuple(self._cidx(i, 0, base.shape[k]) for k, i in enumerate(idx))
                idx = idx + (0,) * (base.ndim - len(idx))
                if base.size == 0:
                    return Pointer(base.reshape(-1), 0, base)      # &empty[0]: never dereferenced by a correct caller
                if not base.flags["C_CONTIGUOUS"]:
                    raise Unsupported("address of element of non-contiguous array")
                off = int(np.ravel_multi_index(idx, base.shape))
                return Pointer(base.reshape(-1), off, base)
            if isinstance(base, list):
                return Pointer(base, int(idx))
            raise Unsupported("address-of index into %s" % type(base).__name__)
        v = self.eval(op, fr)
        if isinstance(v, CVector):
            return VecPtr(v)
        raise Unsupported("address-of %s" % type(v).__name__)

    def _cidx(self, i, lo, hi):
        if is_sym(i):
            return ctx().concretize(i, lo, hi)
        return int(i)

    # ------------------------------------------------------------------ indexing
    def e_IndexNode(self, n, fr):
        if isinstance(n.base, E.NameNode) and n.base.name == "vector":
            return VectorFactory()[0]
        base = self.eval(n.base, fr)
        idx = self.eval(n.index, fr)
        return self.getitem(base, idx)

    def getitem(self, base, idx):
        if isinstance(base, np.ndarray):
            idx = self._np_index(base, idx)
            try:
                return base[idx]
            except IndexError as e:
                j = self._c_flat(base, idx)
                if j is None:
                    raise CFault("array index out of bounds: %s" % e)
                self.oob_events.append(("read", tuple(idx), base.shape))
                return base.reshape(-1)[j]
        if isinstance(base, (list, tuple, str)) and is_sym(idx):
            idx = ctx().concretize(idx, 0, len(base))
        if isinstance(base, CVector):
            try:
                return base[idx]
            except IndexError:
                raise CFault("vector index out of range: %r (size %d)" % (idx, len(base)))
        return base[idx]

    def _c_flat(self, base, idx):
        """boundscheck=False semantics: an out-of-range index on one axis of a C-contiguous buffer
        addresses flat offset sum(i_k*stride_k); None when that leaves the buffer."""
        if not (isinstance(idx, tuple) and len(idx) == base.ndim and base.flags["C_CONTIGUOUS"]):
            return None
        if not all(isinstance(i, (int, np.integer)) for i in idx):
            return None
        j = 0
        for i, n in zip(idx, base.shape):
            j = j * n + int(i)
        if any(i < 0 for i in idx) or j < 0 or j >= base.size:
            return None
        return j

    def _np_index(self, base, idx):
        if isinstance(idx, tuple):
            if any(is_sym(i) for i in idx):
                return tuple(ctx().concretize(i, 0, base.shape[k]) if is_sym(i) else i
                             for k, i in enumerate(idx))
            return idx
        if is_sym(idx):
            return ctx().concretize(idx, 0, base.shape[0])
        if isinstance(idx, Fraction):
            raise TypeError("fraction used as array index")
        return idx

    def setitem(self, base, idx, v, elem_t=None):
        if elem_t is not None and isinstance(elem_t, str) and elem_t not in ("obj", "void"):
            v = self.coerce(elem_t, v)
        if isinstance(base, np.ndarray):
            idx = self._np_index(base, idx)
            if base.dtype != object and (is_sym(v) or isinstance(v, Fraction)):
                if isinstance(v, Fraction):
                    v = float(v)
                else:
                    raise Unsupported("symbolic value stored into a native %s array" % base.dtype)
            try:
                base[idx] = v
            except IndexError as e:
                j = self._c_flat(base, idx)
                if j is None:
                    raise CFault("array store out of bounds: %s" % e)
                self.oob_events.append(("write", tuple(idx), base.shape))
                base.reshape(-1)[j] = v
            return
        if isinstance(base, list) and is_sym(idx):
            idx = ctx().concretize(idx, 0, len(base))
        if isinstance(base, CVector):
            try:
                base[idx] = v
            except IndexError:
                raise CFault("vector store out of range")
            return
        base[idx] = v

    def e_SliceIndexNode(self, n, fr):
        base = self.eval(n.base, fr)
        start = self.eval(n.start, fr) if n.start is not None else None
        stop = self.eval(n.stop, fr) if n.stop is not None else None
        return base[start:stop]

    # ------------------------------------------------------------------ calls
    def e_SimpleCallNode(self, n, fr):
        if isinstance(n.function, E.AttributeNode) and n.function.attribute == "evalf" and not n.args and exact():
            obj = self.eval(n.function.obj, fr)
            if getattr(obj, "is_Rational", False):
                return obj          # reals for doubles: a rational constant is taken exactly
            return obj.evalf()
        f = self.eval_callee(n.function, fr)
        args = self._seq(n.args, fr)
        return self.call(f, args, {}, fr, n)

    def e_GeneralCallNode(self, n, fr):
        f = self.eval_callee(n.function, fr)
        args = list(self.eval(n.positional_args, fr))
        kw = self.eval(n.keyword_args, fr) if n.keyword_args is not None else {}
        return self.call(f, args, dict(kw), fr, n)

    def eval_callee(self, fn, fr):
        if isinstance(fn, E.NameNode) and fn.name == "super":
            return ("super", fr)
        return self.eval(fn, fr)

    def call(self, f, args, kw, fr=None, node=None):
        if isinstance(f, tuple) and len(f) == 2 and f[0] == "super":
            fr0 = f[1]
            if args:
                return SuperProxy(self, args[1], args[0])
            return SuperProxy(self, fr0.self_obj, fr0.cls)
        if isinstance(f, type) and f in self.type_calls:
            return self.type_calls[f](*args, **kw)
        mod = getattr(f, "__module__", None) or type(getattr(f, "__self__", None)).__module__
        if isinstance(mod, str) and (mod.startswith("libsbml") or mod.startswith("_libsbml")):
            # doubles crossing into a C library
            args = [float(a) if isinstance(a, Fraction) else a for a in args]
            kw = {k: (float(v) if isinstance(v, Fraction) else v) for k, v in kw.items()}
            if any(is_sym(a) for a in args) or any(is_sym(v) for v in kw.values()):
                raise Unsupported("symbolic value passed to libsbml")
        return f(*args, **kw)

    def e_LambdaNode(self, n, fr):
        fi = FuncInfo("<lambda>", n, fr.module, None, "def")
        from .front import _args_of
        fi.args = _args_of(n.args, False)
        fi.star = n.star_arg.name if n.star_arg is not None else None
        fi.starstar = n.starstar_arg.name if n.starstar_arg is not None else None
        fi.body = N.ReturnStatNode(n.pos, value=n.result_expr)
        return Function(self, fi, closure=fr)

    # ------------------------------------------------------------------ comprehensions
    def e_ComprehensionNode(self, n, fr):
        tname = type(n.append).__name__
        if tname == "DictComprehensionAppendNode":
            acc = {}
        elif getattr(n.type, "name", None) == "set" or "set" in str(n.type):
            acc = set()
        else:
            acc = []
        fr.comp_stack.append(acc)
        try:
            self.exec(n.loop, fr)
        finally:
            fr.comp_stack.pop()
        return acc

    def x_ComprehensionAppendNode(self, n, fr):
        acc = fr.comp_stack[-1]
        v = self.eval(n.expr, fr)
        if isinstance(acc, set):
            acc.add(v)
        else:
            acc.append(v)

    def x_DictComprehensionAppendNode(self, n, fr):
        if hasattr(n, "dict_item") and n.dict_item is not None:
            k_, v_ = n.dict_item.key, n.dict_item.value
        else:
            k_, v_ = n.key_expr, n.value_expr
        fr.comp_stack[-1][self.eval(k_, fr)] = self.eval(v_, fr)

    def e_AssignmentExpressionNode(self, n, fr):
        a = n.assignment
        v = self.eval(a.rhs, fr)
        self.assign(a.lhs, v, fr)
        return v

    def e_GeneratorExpressionNode(self, n, fr):
        acc = []
        fr.comp_stack.append(acc)
        try:
            dn = getattr(n, "def_node", None)
            body = dn.gbody.body if dn is not None else n.loop
            self.exec(body, fr)
        finally:
            fr.comp_stack.pop()
        return iter(acc)

    def e_YieldExprNode(self, n, fr):
        if not fr.comp_stack:
            raise Unsupported("generator function")
        fr.comp_stack[-1].append(self.eval(n.arg, fr))
        return None

    def e_InlinedGeneratorExpressionNode(self, n, fr):
        return self.e_GeneratorExpressionNode(n.gen if hasattr(n, "gen") else n, fr)

    def e_ImportNode(self, n, fr):
        name = self.eval(n.module_name, fr)
        return self.import_module(name, fr, want_top=(n.name_list is None and getattr(n, "get_top_level_module", False)))
