#!/bin/sh
# usage: mkworktree.sh <dir>   -- scratch git worktree of /repo with the current build artefacts copied in (fast incremental rebuilds)
set -e
d="$1"
git -C /repo worktree add -f --detach "$d" HEAD >/dev/null 2>&1
cp -p /repo/bioscrape/*.so /repo/bioscrape/*.cpp "$d/bioscrape/" 2>/dev/null || true
cp -p /repo/lineage/*.cpp "$d/lineage/" 2>/dev/null || true
cp -rp /repo/build "$d/build" 2>/dev/null || true
# make sources look older than the artefacts so that only edited modules are rebuilt
find "$d/bioscrape" "$d/lineage" -name "*.pyx" -o -name "*.pxd" | xargs touch -d "2020-01-01"
echo "$d ready"
