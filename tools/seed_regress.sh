#!/bin/sh
# usage: seed_regress.sh <seed dir (with patch.diff, meta.json)> [check ids...]
# Re-runs the checks that should report a stored seeded change, WITHOUT touching /repo: a scratch worktree gets the patch,
# is rebuilt, and the checks read it through VERIF_REPO (evidence redirected).  The worktree is removed afterwards.
sd="$1"; shift
id=$(basename "$sd")
tag=$(echo "$sd" | tr '/' '_')
wt="/tmp/sr_$tag"
checks="$*"
[ -z "$checks" ] && checks=$(python3 -c "import json,sys; print(' '.join(json.load(open('$sd/meta.json'))['reported_by_checks'][:1]))")
git -C /repo worktree remove --force "$wt" >/dev/null 2>&1
/verif/tools/mkworktree.sh "$wt" >/dev/null || exit 3
trap 'git -C /repo worktree remove --force "$wt" >/dev/null 2>&1; git -C /repo worktree prune' EXIT INT TERM
git -C "$wt" apply "$sd/patch.diff" || { echo "$id: PATCH DOES NOT APPLY"; exit 3; }
if git -C "$wt" diff --name-only | grep -q "\.pyx\|\.pxd"; then
  (cd "$wt" && timeout 1500 /venv/bin/python setup.py build_ext --inplace -j 4 >/tmp/sr_build_$tag.log 2>&1) || { echo "$id: BUILD FAILED"; exit 3; }
fi
rc=0
for c in $checks; do
  out=$(cd /verif && VERIF_EVIDENCE_DIR=/tmp/ev_exp VERIF_REPO="$wt" timeout 2400 ./vf check "$c" --tier quick 2>&1 | grep -E "^$c (OK|VIOLATION|INCONCLUSIVE)")
  echo "seed $sd -> $out"
  echo "$out" | grep -q VIOLATION || rc=1
done
rm -f /tmp/sr_build_$tag.log
exit $rc
