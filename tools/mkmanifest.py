#!/usr/bin/env python3
"""Regenerates /verif/MANIFEST.json from the table below (keeps it schema-valid)."""
import json
import os
import subprocess

HERE = os.path.dirname(os.path.dirname(os.path.abspath(__file__)))

TECH = "symbolic execution of the real Cython/Python source (pyxsym over the Cython parse tree) + z3 SMT; counterexamples replayed on a build of the current tree"

CHECKS = {
    "C01": dict(
        level="model_checking", design="3/C01",
        text="Every built-in propensity class, built through the real Model.create_reaction/create_propensity/initialize code, "
             "is executed symbolically in all four evaluation modes, bare and through the plain and safe interfaces, and z3 "
             "proves equality with the documented closed form for ALL non-negative states, positive parameters and volumes "
             "(reaction order 0..4, every ordering of the reactant list, Hill exponent as a free real and 1..4).",
        note="Doubles are modelled as reals; pow with a symbolic exponent is an uninterpreted function shared by code and "
             "oracle; one or two reactions per model; the oracle is 30 lines written from the documentation."),
}

NOT_YET = "check not built yet in this revision of /verif (work in progress; see DESIGN.md section 3 for the planned obligations)"


def main():
    props = [json.loads(l) for l in open(os.path.join(HERE, "properties.jsonl"))]
    hooks = []
    try:
        out = subprocess.run(["git", "-C", "/repo", "log", "--format=%h %s"], capture_output=True, text=True).stdout
        hooks = [l.split()[0] for l in out.splitlines() if "verif hook" in l]
    except Exception:
        pass
    checks, na = [], []
    for p in props:
        pid = p["id"]
        c = CHECKS.get(pid)
        if c is None:
            na.append({"property_id": pid, "reason": NA.get(pid, NOT_YET)})
            continue
        checks.append({
            "property_id": pid,
            "quick_cmd": "./vf check %s --tier quick" % pid,
            "thorough_cmd": "./vf check %s --tier thorough" % pid,
            "evidence_file": "evidence/%s.json" % pid,
            "replay_cmd_template": "./vf replay {path}",
            "engine": "pyxsym",
            "level_claimed": {"category": c["level"], "text": c["text"], "design_ref": c["design"]},
            "level_note": c["note"],
            "technique": c.get("technique", TECH),
        })
    man = {
        "version": 1,
        "setup_cmd": "./vf setup",
        "hooks": {
            "guard": "BIOSCRAPE_VERIF",
            "enable": "BIOSCRAPE_VERIF=1 in the environment of the replay process (probes are ordinary def methods that raise "
                      "unless the variable is set); the solver phase reads the source and needs no hook",
            "baseline_off_cmd": "cd /repo && env -u BIOSCRAPE_VERIF /venv/bin/python -m pytest -ra -q -p no:cacheprovider --timeout=900 --continue-on-collection-errors",
            "source_commits": hooks,
            "add_only": True,
        },
        "engines": [{
            "name": "pyxsym", "path": "pyxsym/",
            "serves_properties": sorted(CHECKS),
            "kind_free_text": "concolic interpreter of /repo's Cython/Python source (parsed with Cython's own parser on every run) over "
                              "z3 reals/ints with path exploration by re-execution; obligations are z3 queries; counterexamples are "
                              "replayed against a build of the current working tree",
        }],
        "checks": checks,
        "not_applicable": na,
        "notes": "Exit codes: 0 all obligations discharged (KNOWN-FINDING lines possible), 1 reproduced violation, 2 inconclusive "
                 "(solver unknown, unsupported construct, unwinding bound hit, counterexample not reproduced). Bounds and the "
                 "functions encoded are listed in each evidence file.",
    }
    with open(os.path.join(HERE, "MANIFEST.json"), "w") as f:
        json.dump(man, f, indent=1)
    print("wrote MANIFEST.json: %d checks, %d not_applicable" % (len(checks), len(na)))


NA = {}

if __name__ == "__main__":
    main()
