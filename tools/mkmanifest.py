#!/usr/bin/env python3
"""Regenerates /verif/MANIFEST.json from the table below (keeps it schema-valid)."""
import json
import os
import subprocess

HERE = os.path.dirname(os.path.dirname(os.path.abspath(__file__)))

TECH = "symbolic execution of the real Cython/Python source (pyxsym over the Cython parse tree) + z3 SMT; counterexamples replayed on a build of the current tree"

CHECKS = {
    "C01": dict(
        level="model_checking", design="3/C01",
        text="Every built-in propensity class, built through the real Model.create_reaction/create_propensity/initialize code, "
             "is executed symbolically in all four evaluation modes, bare and through the plain and safe interfaces, and z3 "
             "proves equality with the documented closed form for ALL non-negative states, positive parameters and volumes "
             "(reaction order 0..4, every ordering of the reactant list, Hill exponent as a free real and 1..4).",
        note="Doubles are modelled as reals; pow with a symbolic exponent is an uninterpreted function shared by code and "
             "oracle; one or two reactions per model; the oracle is 30 lines written from the documentation."),
}


CHECKS.update({
    "C05": dict(level="model_checking", design="3/C05",
        text="One iteration of the real while-body of SSASimulator.simulate is executed symbolically from an arbitrary pre-state "
             "(inductive step; plus initialisation and exit) against a reference direct-method step relation: waiting time "
             "-ln(u)/Lambda capped at the next grid time, reaction j chosen iff its cumulative bracket contains u*Lambda, rows "
             "record the pre-update state; exponential_rv / sample_discrete / array_sum are executed from random.pyx.",
        note="Gillespie's theorem and inverse-CDF sampling are trusted mathematics; uniforms are arbitrary values in (0,1); "
             "abstract interface with arbitrary non-negative propensities; sizes S,R <= 3, T <= 4; MT19937-64 not analysed."),
    "C06": dict(level="model_checking", design="3/C06",
        text="Inductive step of all four event loops (state changes only by stoichiometry columns of reactions with positive "
             "propensity or by queued deliveries; zero total propensity fires nothing; clock monotone), mass-action "
             "non-negativity through the real Model/interface code, and safe mode with an arbitrary rate law and symbolic "
             "stoichiometry.",
        note="Integrality/conservation follow by induction from the step relation; delayed reactants at delivery time are outside "
             "the claim; sizes S,R <= 3, T <= 4, queue slots 2..3, stoichiometry in [-3,3]."),
    "C09": dict(level="model_checking", design="3/C09",
        text="Rule kernels, rule registration for Model and LineageModel (also after re-initialisation), declaration-order "
             "application through the interface, and one inductive step of the plain/delay/volume loops with rules as an "
             "arbitrary state map: rules run before propensities, rows are rule-updated states, the dt step flag is raised once "
             "per reported row, the clock equals a grid time only after that row is final; deterministic rhs_global and the "
             "re-application of rules to integrator rows.",
        note="odeint stubbed; aligned reporting grid and volume clock for the volume simulator's dt clause; delay+volume mode not "
             "covered for the dt clause; lineage single-cell loop covered under C19's harness."),
    "C10": dict(level="model_checking", design="3/C10",
        text="Inductive step of the delay and delay+volume loops with the real ArrayDelayQueue inside and a ghost conservation "
             "invariant (state + queued deliveries accounts for every firing, exactly once); delay classes, Box-Muller and "
             "Marsaglia-Tsang samplers executed from source against their textbook formulas.",
        note="Box-Muller / Marsaglia-Tsang theorems trusted; gamma rejection loop checked for its first two iterations; nearest-slot "
             "filing is C20's result."),
    "C11": dict(level="model_checking", design="3/C11",
        text="Inductive step of VolumeSSASimulator.volume_simulate with an abstract and with the real exponential volume model: "
             "volume-scaled propensities evaluated at the current volume, a volume step only when the volume clock is reached "
             "(growth within one step of the law), rows carry the current volume, truncation and divided flag at division; "
             "kernels of the volume models (exp growth, division window).",
        note="exp/ln uninterpreted with lemmas; distribution of division time outside the claim; master-equation equivalence for "
             "constant volume rests on C05's step relation + Gillespie's theorem."),
    "C16": dict(level="model_checking", design="3/C16",
        text="check_prior and the seven prior methods are executed symbolically; z3 proves equality with the textbook log-density "
             "inside the support for all parameter values and hyper-parameters, rejection (non-finite) outside it and under the "
             "'positive' flag, additivity over parameter vectors, and the -inf wrapper of get_likelihood_function.",
        note="exp/log/sqrt/pow/Gamma/Beta uninterpreted with lemmas; gamma/beta outside-support behaviour checked on integer "
             "shapes; boundary points of supports excluded."),
    "C20": dict(level="model_checking", design="3/C20",
        text="Each ArrayDelayQueue operation is executed from an arbitrary symbolic queue state (every ring position, 2..4 slots, "
             "1..2 reactions) and shown to preserve a ghost labelling of columns by delivery time: nearest-slot filing with "
             "clamping, read/advance clears exactly the due column, copy/clear_copy/binomial_partition conserve and do not "
             "alias; exactly-once in-order delivery follows by induction over any interleaving.",
        note="Requested times never exactly half-way; dt > 0; partition counts bounded (<= 3 in <= 3 cells)."),
})


CHECKS.update({
    "C07": dict(level="model_checking", design="3/C07",
        text="The real py_simulate_model, wrappers, interface constructors, queue setup, result classes and py_get_dataframe are "
             "executed for every one of the 192 option combinations (x model shapes) over symbolic uniform grids, states and "
             "volumes; path outcomes are checked: result or ValueError only, right simulator, dt installed, time axis equal to "
             "the request, species columns in model order, row count, volume column.",
        note="Event loops replaced by contracts whose exit obligations are discharged in the same check; odeint and pandas are "
             "stubs; the first-row clause rests on the loop step relation (C05/C09)."),
    "C18": dict(level="model_checking", design="3/C18",
        text="compute_J / compute_Zj and their entry points are executed with the right-hand side replaced by a polynomial with "
             "arbitrary symbolic coefficients: each of the four difference schemes is proven exact on its exactness class and "
             "equal to derivative + leading error term one degree above; orientation J[i,j]=df_i/dx_j; rules applied before the "
             "derivative; parameters restored after every path.",
        note="np.round(.,10) modelled as identity; step h = 0.01 as in the code; n <= 3."),
})


CHECKS.update({
    "C02": dict(level="model_checking", design="3/C02",
        text="Three layers: every Term class with opaque children equals its operator on the children's values (any depth by "
             "structural induction); for generated formulas the real parse_expression/sympy_recursion output evaluates, for all "
             "states/parameters/t/volume, to the value of the parsed sympy tree and - on the exact fragment - to the formula as "
             "written; unknown names and unsupported functions are rejected at build time.",
        note="sympy runs natively and is trusted for canonicalisation; exp/log/pow uninterpreted; rational constants exact; "
             "formulas beyond the exhaustive core are sampled with VERIF_SEED (depth <= 4)."),
    "C03": dict(level="model_checking", design="3/C03",
        text="Reaction structures (reactant/product/delayed lists over a 3-species pool, all declaration orders, three propensity "
             "types) are explored exhaustively by path forking through the real Model construction code and the matrices compared "
             "with products-minus-reactants; the derivative identity dx = (U+D)*rate is decided by z3 for symbolic matrices and "
             "arbitrary rate vectors (plain and safe interface) and on a real model; valueless parameters make initialisation fail.",
        note="list lengths <= 3 (quick 2), matrices up to 3x3 with entries in [-4,4]; safe interface in the interior of the orthant."),
    "C04": dict(level="model_checking", design="3/C04",
        text="With odeint replaced by its contract, the real deterministic entry point is shown - for all states, times and "
             "parameters of two concrete networks (mass action with delayed products, Hill/proportional Hill/time-dependent "
             "general) - to hand the integrator exactly the model's rate equations, a copy of the initial condition, the user's "
             "grid, default tolerances and state-first argument order, to report the integrator's rows unchanged on that grid, "
             "and to follow the documented retry ladder ending in all-NaN.",
        note="CONDITIONAL claim: integrator accuracy (the numerical comparison in the property text) is not decided by this "
             "technique; see DESIGN section 4."),
})


TV = "translation validation: real export/import code executed (pyxsym interpreter + native libsbml), both sides evaluated symbolically, z3 decides equality for all states/parameters; counterexamples replayed on a build"
CHECKS.update({
    "C12": dict(level="translation_validation", design="3/C12", technique=TV,
        text="For each generated model (every propensity type, orders 0..4, the three delay families with delayed reactants/"
             "products, additive/assignment rules with every frequency; deterministic and stochastic export) the real write and "
             "read code is executed and the two models compared: dictionaries/matrices concretely, rate laws in four forms, fixed "
             "delays and rule effects by z3 for all states, parameter values, volumes and times; writing twice is idempotent up "
             "to the model id.",
        note="libsbml XML round trip and str(float)/float(str) trusted; Gaussian/Gamma delays compared by class and parameter "
             "binding; ode rules outside the property's quantifier."),
    "C13": dict(level="translation_validation", design="3/C13", technique=TV,
        text="Documents generated directly with libsbml (stoichiometries 1..3, modifiers, colliding local parameters, 0..2 "
             "assignment and 0..2 rate rules in any order) are imported by the real code; z3 proves that the imported model's net "
             "rate equations equal stoichiometry x kinetic law + rate rules of the document (reference semantics on the document's "
             "own math ASTs) for all interior states and global parameter values; initial values and rule lists compared concretely.",
        note="libsbml/sympy native and trusted; local parameter values concrete; documented subset only (one compartment of size 1, "
             "no events/functions/initial assignments; rate rules on species)."),
    "C14": dict(level="translation_validation", design="3/C14", technique=TV,
        text="For each generated model the exported kinetic law is read back as plain SBML mathematics by an independent AST "
             "evaluator over symbolic species/parameters and z3 decides equality with the model's own deterministic or stochastic "
             "rate at every state; identifiers must be defined in the document; stoichiometries must equal multiplicities. Hill "
             "exports are recorded known findings (six exact wrong formulas).",
        note="libsbml native and trusted; Hill exponent symbolic (uninterpreted pow); known findings keyed by the normalised wrong "
             "formula so that any other discrepancy is still a violation."),
})


CHECKS.update({
    "C15": dict(level="model_checking", design="3/C15",
        text="The real InferenceSetup / DeterministicInference / BulkData / ModelLikelihood / DeterministicLikelihood code is executed "
             "with every data entry, time entry, theta and condition value symbolic and the simulator an uninterpreted function: "
             "z3 proves data[n,t,m] = frame_n[measurement m][t], the (initial state, parameter vector, time points) triple handed to "
             "the simulator per trajectory, cost = log-prior - (sum |data - sim|^p)^(1/p), history independence of a second "
             "evaluation, and -inf outside the prior's support.",
        note="pandas modelled as column-major frames; permutation invariance follows from the proven formula by commutativity; "
             "the stochastic cost is not covered; N <= 4, M <= 3, T <= 3, p <= 3."),
})


CHECKS.update({
    "C19": dict(level="model_checking", design="3/C19",
        text="The three volume splitters and binom_rnd_f are executed over symbolic mother counts, volumes, noise and uniforms: "
             "conservation / duplication per partition mode, binomial counts = number of the molecule's own draws below "
             "p = V_d/V, volume conservation, daughters' time, mother untouched. One inductive step of "
             "LineageSSASimulator.SimulateSingleCell with an abstract lineage interface (reactions, volume/division/death events, "
             "rules with arbitrary outcomes) plus its truncation/exit code: every row carries the rule-updated state and a positive "
             "volume, zero total propensity samples nothing, traces have equal non-zero length; an end-to-end symbolic run through "
             "the real entry point and LineageCSimInterface.",
        note="Mother/daughter bookkeeping across cells is exercised on the real build by replay scenarios only; counts <= 3; "
             "interacting lineages, turbidostat and custom splitters are outside the claim."),
})


CHECKS.update({
    "C17": dict(level="model_checking", design="3/C17",
        text="The hand-written __getstate__/__setstate__/__reduce__ methods of Model, LineageModel, BinaryTerm (4 subclasses), "
             "Schnitz, Lineage, ExperimentalLineage, VolumeCellState, LineageVolumeCellState and InferenceSetup are executed from "
             "source as pickle would call them; every attribute declared for the class in the parsed sources must survive, C-level "
             "vectors must be rebuilt in order, restored terms / rates / rules are compared symbolically (z3, all states).",
        note="pickle's own transport and Cython's generated __reduce_cython__ (propensity, delay, rule, leaf-term classes) are not "
             "source and are only covered by a static precondition (no pointer-typed attributes, no __cinit__)."),
})


CHECKS.update({
    "C08": dict(level="model_checking", design="3/C08",
        text="Unbounded histories are reduced to per-operation obligations decided on the real source: _initialize recomputes every "
             "derived field from the definition whatever stale content they held (plain and lineage, repeated initialisation), "
             "every structural edit clears `initialized` and stale interfaces refuse to run, one step of each event loop and the "
             "deterministic run leave the model's arrays untouched, seeding overwrites the whole Mersenne-Twister state "
             "(symbolic prior state) and genrand64 equals MT19937-64 on 700 outputs, the deterministic global is re-bound per run.",
        note="The inductive argument combining the obligations is stated in DESIGN/evidence, not mechanised; seed 0 (clock) and "
             "parameter-assigning rules excluded; LSODA's own repeatability is scipy's."),
})

NOT_YET = "check not built yet in this revision of /verif (work in progress; see DESIGN.md section 3 for the planned obligations)"


# obligations added while strengthening against seeded changes (rounds 4-5): appended to the level text of the check
ALSO = {
    "C01": "two-reaction structures that share one parameter dictionary object; the general mass-action class initialised directly for every order 0..3 (not only through Model); reactant lists with non-adjacent repeats",
    "C02": "C float locals are rounded (engine), replay at generic points to the last place; step function: plain and volume-aware evaluation agree at equal arguments (also at 0); every expression is parsed a second time under the reversed species numbering; the users of the evaluator (general rate in its four modes, rules with and without a volume) replayed on the real build",
    "C03": "output arrays with arbitrary prior contents and a spectator species; a refused model is refused on every later attempt; delayed lists with two entries; a real model through the real plain interface with a net rate of either sign; missing parameter at every position; create_reaction leaves its arguments unmodified",
    "C04": "order-3/4 mass action with non-adjacent repeats; general rates over n-ary min / max / abs; one parameter dictionary shared by several reactions",
    "C06": "rules whose targets are all parameters never write a species (plain and volume rule pass)",
    "C07": "deterministic rows: rules applied exactly once per row (self-referential and accumulator rule sets, parameter targets that mention the volume); first row = initial condition with rules applied: the real interface's rule passes over rules that mention t and volume; initialisation obligations of the delay+volume loop",
    "C08": "one interface prepared / used repeatedly gives the same derivative and trajectories; rule / propensity / delay objects are stateless across executions; one model simulated twice on one stream",
    "C10": "delayed stoichiometry with multiplicity (two entries per delayed list); non-positive (Gaussian / fixed) delays deliver at the firing time; simulators without delay support (plain and volume loop) on delay models: both parts at the firing time, stoichiometric matrices untouched; queue re-timing when a queue is handed to the next simulation",
    "C11": "general rates that carry their own volume scaling (volume inside quotients and powers) and the expression nodes' volume-aware evaluation; the division model replayed against the real class at start times other than 0",
    "C12": "several rules per target; species names that are substrings of the reserved words; programs with several delayed / undelayed reactions in every order",
    "C13": "exact fractions in formulas; global parameters called t / volume; module-level state between imports as a suspicion decided by a 240-document batch replay; species carrying both initialAmount and initialConcentration (second attribute written into the document text), hasOnlySubstanceUnits both ways",
    "C14": "programs whose reaction shares its parameter dictionary with an earlier one; delayed mass-action reactions (three families, repeated reactants); exported parameter values equal the model's to the last digit",
    "C16": "a second interface over the same prior dictionary object (the caller's dictionary is left unchanged); prior dictionary ordered differently from the parameter vector",
    "C17": "cell states with divided != dead (flags read from the state tuple in the replay); records with one daughter in either slot; models copied while edited after their last initialisation; lineage models with every kind of lineage rule / event copied before and after initialisation (same-seed behaviour); Schnitz objects with a mother outside the pickled set",
    "C18": "dimerisation model and a model over species E / parameters N, I in the real-model job; large parameter values; the public wrappers as functions of the model's current parameters (query, set_params, query); a real model through the real interface with a net rate of either sign",
    "C19": "the simulator object reused for several lineage simulations; general splitter with an explicit binomial key; division in the last grid interval; lineage queue step with an abstract single-cell simulation",
    "C20": "reads into a reused buffer with prior contents; constructor at an arbitrary current time; copy followed by an operation on one of the two queues; re-timing keeps pending entries at their distance",
    "C05": "the public entry point on a grid with a start offset: the simulation clock stays at the interface's initial time; array_sum and sample_discrete over up to 33 (thorough: 129) symbolic propensities as a job of their own",
    "C09": "decay-to-exhaustion scenarios; accumulator (self-referential additive) rules; rules given to the constructor with their default frequency",
    "C15": "a list of per-trajectory conditions with an empty entry; measurement order different from the frame's column order (frame model with columns / loc); the uniform prior's closed support (replay at its ends)",
}


def main():
    props = [json.loads(l) for l in open(os.path.join(HERE, "properties.jsonl"))]
    hooks = []
    try:
        out = subprocess.run(["git", "-C", "/repo", "log", "--format=%h %s"], capture_output=True, text=True).stdout
        hooks = [l.split()[0] for l in out.splitlines() if "verif hook" in l]
    except Exception:
        pass
    checks, na = [], []
    for p in props:
        pid = p["id"]
        c = CHECKS.get(pid)
        if c is None:
            na.append({"property_id": pid, "reason": NA.get(pid, NOT_YET)})
            continue
        checks.append({
            "property_id": pid,
            "quick_cmd": "./vf check %s --tier quick" % pid,
            "thorough_cmd": "./vf check %s --tier thorough" % pid,
            "evidence_file": "evidence/%s.json" % pid,
            "replay_cmd_template": "./vf replay {path}",
            "engine": "pyxsym",
            "level_claimed": {"category": c["level"], "text": c["text"] + (" Also: " + ALSO[pid] + "." if pid in ALSO else ""), "design_ref": c["design"]},
            "level_note": c["note"],
            "technique": c.get("technique", TECH),
        })
    man = {
        "version": 1,
        "setup_cmd": "./vf setup",
        "hooks": {
            "guard": "BIOSCRAPE_VERIF",
            "enable": "BIOSCRAPE_VERIF=1 in the environment of the replay process (probes are ordinary def methods that raise "
                      "unless the variable is set); the solver phase reads the source and needs no hook",
            "baseline_off_cmd": "cd /repo && env -u BIOSCRAPE_VERIF /venv/bin/python -m pytest -ra -q -p no:cacheprovider --timeout=900 --continue-on-collection-errors",
            "source_commits": hooks,
            "add_only": True,
        },
        "engines": [{
            "name": "pyxsym", "path": "pyxsym/",
            "serves_properties": sorted(CHECKS),
            "kind_free_text": "concolic interpreter of /repo's Cython/Python source (parsed with Cython's own parser on every run) over "
                              "z3 reals/ints with path exploration by re-execution; obligations are z3 queries; counterexamples are "
                              "replayed against a build of the current working tree",
        }],
        "checks": checks,
        "not_applicable": na,
        "notes": "Exit codes: 0 all obligations discharged (KNOWN-FINDING lines possible), 1 reproduced violation, 2 inconclusive "
                 "(solver unknown, unsupported construct, unwinding bound hit, counterexample not reproduced). Bounds and the "
                 "functions encoded are listed in each evidence file.",
    }
    with open(os.path.join(HERE, "MANIFEST.json"), "w") as f:
        json.dump(man, f, indent=1)
    print("wrote MANIFEST.json: %d checks, %d not_applicable" % (len(checks), len(na)))


NA = {}

if __name__ == "__main__":
    main()
