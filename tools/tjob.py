"""usage: tools/tjob.py <module> <func> '<kwargs python literal>'"""
import sys, json, ast
sys.path.insert(0, "/verif")
from harness.common import run_job
r = run_job(("t", sys.argv[1], sys.argv[2], eval(sys.argv[3]), {}))
print(r.status, r.reason[:2000], {k: (round(v, 1) if isinstance(v, float) else v) for k, v in r.stats.items()})
for l, n in sorted(r.proved.items()): print("PROVED", n, l[:170])
for f in r.failures: print("FAIL", f.get("label", "")[:220], "\n     ", str(f.get("model", ""))[:300])
