#!/bin/sh
# usage: tools/run_on_tree.sh <worktree> [checks...]
wt="$1"; shift
cd /verif
checks="$*"; [ -z "$checks" ] && checks="C01 C02 C03 C04 C05 C06 C07 C08 C09 C10 C11 C12 C13 C14 C15 C16 C17 C18 C19 C20"
for c in $checks; do
  VERIF_EVIDENCE_DIR=${VERIF_EVIDENCE_DIR:-/var/tmp/bioscrape-verif-evidence-scratch} VERIF_REPO="$wt" timeout 2400 ./vf check $c --tier quick 2>&1 | grep -E "^$c (OK|VIOLATION|INCONCLUSIVE)|^VIOLATION|^SPURIOUS|^INCONCLUSIVE|what:" | cut -c1-420
done
