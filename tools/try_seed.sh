#!/bin/sh
# usage: try_seed.sh <seed dir with patch.diff+demo.py> <worktree with the change applied and built> <check ids...>
# 1. confirms the seeded change in its worktree (suite passes, demo fails), demo passes on /repo
# 2. applies the patch to /repo, runs the given checks, reverts
out="$1"; wt="$2"; shift 2
if git -C "$wt" diff | diff -q - "$out/patch.diff" >/dev/null; then echo "== worktree diff equals patch.diff"; else echo "== WARNING: worktree diff differs from patch.diff"; fi
echo "== tests in $wt"
(cd "$wt" && BIOSCRAPE_VERIF= PYTHONPATH="$wt" timeout 1200 /venv/bin/python -m pytest -q -p no:cacheprovider --timeout=900 2>&1 | grep -E "^[0-9]+ passed|failed" )
echo "== demo with change"; (cd /tmp && BIOSCRAPE_VERIF=1 PYTHONPATH="$wt" timeout 900 /venv/bin/python "$out/demo.py" >/tmp/demo_with.log 2>&1; echo "exit $?"; tail -2 /tmp/demo_with.log | cut -c1-200)
echo "== demo without change"; (cd /tmp && BIOSCRAPE_VERIF=1 PYTHONPATH=/repo timeout 900 /venv/bin/python "$out/demo.py" >/tmp/demo_without.log 2>&1; echo "exit $?")
echo "== applying to /repo"
git -C /repo apply "$out/patch.diff" || { echo "PATCH DOES NOT APPLY"; exit 3; }
trap 'git -C /repo checkout -- . ; echo "== reverted /repo"' EXIT INT TERM
cd /verif
for id in "$@"; do
  timeout 2400 ./vf check "$id" --tier quick > /tmp/try_seed_$$.log 2>&1
  grep -E "VIOLATION|what:|detail:|INCONCLUSIVE|SPURIOUS|KNOWN" /tmp/try_seed_$$.log | grep -v "^$id " | cut -c1-260 | head -10
  grep -E "^$id " /tmp/try_seed_$$.log | cut -c1-260 | tail -1
  rm -f /tmp/try_seed_$$.log
done
