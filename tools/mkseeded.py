#!/usr/bin/env python3
"""Assemble /verif/seeded/<id>/ from the sub-agents' deliverables (/tmp/seed_out/<id>) and the trial logs.
Each directory holds patch.diff, demo.py, notes.md (the sub-agent's own report) and meta.json."""
import json
import os
import shutil
import sys

SRC = sys.argv[1] if len(sys.argv) > 1 else "/tmp/seed_out"
DST = "/verif/seeded"

# what each change needs in order to manifest (condensed from the sub-agents' notes, confirmed by running the demo on
# the changed and on the unchanged tree), which checks report it, and what had to be strengthened first
META = {
    "C01": dict(file="bioscrape/types.pyx", needs="mass-action reaction of order >= 3 whose repeated reactant is listed non-adjacently "
                "(A+B+A) AND a stochastic mode", caught_by=["C01", "C11"], first_run="caught"),
    "C02": dict(file="bioscrape/types.pyx (sympy -> term tree)", needs="a nested power (x^a)^b with non-integer b and a negative base value, e.g. (k^2)^0.5 at k < 0",
                caught_by=["C02"], first_run="would have been missed: formulas had integer exponents and non-negative parameters only",
                strengthened="C02 formulas now include fractional and nested powers, parameters range over all reals, and the domain "
                             "of each formula is derived from the parsed tree"),
    "C03": dict(file="bioscrape/simulator.pyx (prep_deterministic_simulation)", needs="a species with non-zero immediate AND non-zero "
                "delayed coefficient in the same reaction, deterministic simulation", caught_by=["C03"],
                first_run="solver counterexample found but the fixed replay model did not reproduce it (exit 2, inconclusive)",
                strengthened="the C03 derivative replay now builds the model from the counterexample's own stoichiometric matrices; "
                             "conditional expressions are if-converted (the change made the exploration fork 2^(S*R) ways)"),
    "C04": dict(file="bioscrape/simulator.pyx (prep_deterministic_simulation)", needs="deterministic simulation of a delay reaction in "
                "which a species is changed only by the delayed part", caught_by=["C04", "C03"], first_run="caught"),
    "C05": dict(file="bioscrape/simulator.pyx (SSASimulator.simulate)", needs="0 < total propensity * interface dt < 1e-9 (slow kinetics "
                "with an interface step decoupled from the horizon)", caught_by=["C05"],
                first_run="solver counterexample found but the replay battery had no model on that scale (exit 2, inconclusive)",
                strengthened="step counterexamples now carry their total propensity and interface dt; the differential replay adds a model "
                             "on the counterexample's own scale"),
    "C06": dict(file="bioscrape/simulator.pyx (SafeModelCSimInterface.initialize_reaction_inputs)", needs="safe mode + non mass-action rate + "
                "a species that is an immediate reactant and a delayed product of the same reaction", caught_by=["C06"], first_run="caught"),
    "C07": dict(file="bioscrape/simulator.pyx (py_simulate_model)", needs="delay=True together with volume=True or a number",
                caught_by=["C07"], first_run="caught"),
    "C08": dict(file="bioscrape/random.pyx (normal_rv)", needs="a normal variate drawn (gaussian/gamma delay, division noise) and an odd number of "
                "normals drawn before the generator is re-seeded", caught_by=["C08"],
                first_run="missed: the seeding obligation named the three known state variables; the engine also lacked libc sin",
                strengthened="C08 reseed jobs havoc every mutable module-level variable of random.pyx (found from the parse tree) and require that "
                             "nothing of it survives seeding or reaches a sampler; replay compares seeded draws after different histories; "
                             "unknown libc.math functions become uninterpreted functions"),
    "C09": dict(file="bioscrape/simulator.pyx (DelaySSASimulator.delay_simulate)", needs="delay mode + a rule with frequency dt + a queue-delivery "
                "iteration entered with the flag still set", caught_by=["C09"], first_run="caught"),
    "C10": dict(file="bioscrape/simulator.pyx (DelayVolumeSSASimulator)", needs="delay+volume simulation of a delay reaction whose sampled delay is "
                "<= 0 and whose delayed stoichiometry is non-empty", caught_by=["C10"],
                first_run="solver counterexample found but no replay model had a zero delay (exit 2, inconclusive)",
                strengthened="the differential replay battery has a zero-delay model with delayed products"),
    "C11": dict(file="bioscrape/simulator.pyx (SafeModelCSimInterface.compute_stochastic_volume_propensities)", needs="safe interface + volume "
                "simulation + mass-action reaction with a repeated reactant", caught_by=["C11", "C01"],
                first_run="missed by C11 (its abstract interface hides the rate-law form); caught by C01",
                strengthened="C11 now also runs the C01 rate-law jobs through the interface and safe-interface routes, with its own replay"),
    "C12": dict(file="bioscrape/sbmlutil.py (add_reaction)", needs="a delay reaction with two or more delayed reactants or products",
                caught_by=["C12"], first_run="caught"),
    "C13": dict(file="bioscrape/sbmlutil.py (import_sbml_reactions)", needs="a local parameter whose value equals the colliding global's, with the "
                "global changed by a rule", caught_by=["C13"], first_run="would have been missed: generated locals never equalled the global",
                strengthened="the C13 document generator makes locals equal to the global's value in 30% of collisions and lets assignment rules target it"),
    "C14": dict(file="bioscrape/sbmlutil.py (add_reaction)", needs="stochastic export of a mass-action reaction with a repeated reactant (not the "
                "second distinct reactant with multiplicity two)", caught_by=["C14"], first_run="caught"),
    "C15": dict(file="bioscrape/inference.pyx (set_init_species)", needs="several trajectories whose initial-condition dictionaries have different keys",
                caught_by=["C15"], first_run="would have been missed: every trajectory gave the same keys",
                strengthened="C15 harness and replay give each trajectory a different subset of species"),
    "C16": dict(file="bioscrape/inference_setup.py (uniform prior)", needs="uniform prior with the 'positive' flag and a negative lower bound",
                caught_by=["C16"], first_run="caught"),
    "C17": dict(file="bioscrape/types.pyx (Model.__setstate__)", needs="a model with a named parameter, restored from its state and then given a new parameter",
                caught_by=["C17"], first_run="solver counterexample (field _next_params_index changed) found but the replay only compared the copy "
                "before any further edit (exit 2, inconclusive)",
                strengthened="the C17 replay applies the same edit to a fresh original and to the copy and compares parameters and trajectories"),
    "C18": dict(file="bioscrape/analysis.py (_evaluate_model)", needs="a state with a coordinate within two difference steps of zero", caught_by=["C18"],
                first_run="caught"),
    "C19": dict(file="lineage/lineage.pyx (simulate_daughter_cells)", needs="a daughter cell dies and a cell queued after it divides later",
                caught_by=["C19"], first_run="missed: lineage bookkeeping was only exercised by replay scenarios",
                strengthened="new C19 job: one iteration of SimulateCellLineage's queue loop from an arbitrary paired queue with the single-cell "
                             "simulation and the partition abstract; replay scenario with a death event"),
    "C20": dict(file="bioscrape/simulator.pyx (ArrayDelayQueue.clear_copy)", needs="binomial partition of a queue whose ring start index is non-zero "
                "with entries pending", caught_by=["C20"], first_run="caught"),
}

# second round: fresh sub-agents again, each told where the first-round change was and asked for a different place and kind
META2 = {
    "C01": dict(file="bioscrape/simulator.pyx (SafeModelCSimInterface.compute_stochastic_volume_propensities)", needs="safe interface + stochastic volume simulation + volume != 1 + a volume-dependent rate law", caught_by=["C01", "C11"], first_run="caught"),
    "C02": dict(file="bioscrape/types.pyx (MaxTerm.volume_evaluate)", needs="max() whose second or later argument depends on volume, evaluated on a volume-aware path with V != 1", caught_by=["C02"], first_run="caught"),
    "C03": dict(file="bioscrape/types.pyx (Model.create_reaction)", needs="a delayed product that also has a non-zero immediate coefficient, is repeated, or is also a delayed reactant", caught_by=["C03"], first_run="caught"),
    "C04": dict(file="bioscrape/simulator.pyx (SafeModelCSimInterface.calculate_deterministic_derivative)", needs="deterministic + safe interface + a consumed species below its stoichiometric coefficient", caught_by=["C04", "C03"],
                first_run="missed by C04 (only the plain interface's right-hand side was an obligation); reported by C03", strengthened="C04 runs the right-hand side through the safe interface too and carries C03's symbolic-stoichiometry derivative jobs"),
    "C05": dict(file="bioscrape/simulator.pyx (SafeModelCSimInterface.compute_stochastic_propensities)", needs="safe + two or more reactions + a lower-index reaction blocked", caught_by=["C05", "C06", "C01"],
                first_run="missed by C05 (abstract interface); reported by C06 and C01", strengthened="C05 checks what the plain and the safe interface hand to the loop in the stochastic mode (C01's closed forms, one- and two-reaction models)"),
    "C06": dict(file="bioscrape/types.pyx (MassActionPropensity.get_stochastic_volume_propensity)", needs="volume simulator + mass action of order >= 3 with a repeated reactant + plain interface", caught_by=["C06"], first_run="caught"),
    "C07": dict(file="bioscrape/simulator.pyx (DelaySSASimulator.delay_simulate)", needs="delay without volume, an event in the run, and the same model or interface used again", caught_by=["C07", "C08"],
                first_run="missed by C07; C08/C06/C10 found the aliasing but could not replay it (exit 2)", strengthened="replay scenario that runs twice on the same interface / model; C07 carries the init facets of all four loops"),
    "C08": dict(file="bioscrape/types.pyx (Model._create_vectors)", needs="a model with a rule that is initialised again; a non-idempotent rule shows it", caught_by=["C08"], first_run="caught"),
    "C09": dict(file="bioscrape/types.pyx (GeneralODERule.rule_volume_operation)", needs="ode rule on a parameter + a volume-aware simulator + dt != 1", caught_by=["C09"], first_run="caught"),
    "C10": dict(file="bioscrape/simulator.pyx (ArrayDelayQueue.add_reaction)", needs="a delay that rounds to exactly the number of queue slots", caught_by=["C10", "C20"],
                first_run="missed by C10; reported by C20", strengthened="C10 carries the queue's insertion obligations"),
    "C11": dict(file="bioscrape/simulator.pyx (VolumeSSASimulator.volume_simulate)", needs="a time grid that starts after the interface's initial time", caught_by=["C11"],
                first_run="counterexample found, not replayed (every replay grid started at the initial time): exit 2", strengthened="the differential battery has a grid starting after the initial time; the reuse scenario falls through to the battery",
                note="the sub-agent reported having opened /verif/harness/C11.py once (against instructions) and that it did not use it; kept, flagged"),
    "C12": dict(file="bioscrape/sbmlutil.py (add_reaction)", needs="a general rate with a unary minus directly in front of a power (-A^2)", caught_by=["C12"],
                first_run="missed: one general rate in the program set", strengthened="general rates over the whole expression grammar in C12 and C14; this also exposed a genuine defect (log exported as log10), repaired in /repo",
                note="patch.diff is rebased onto the repaired tree (the original is patch_original_base.diff)"),
    "C13": dict(file="bioscrape/sbmlutil.py (import_sbml_rules)", needs="two or more rate rules with different formulas", caught_by=["C13"], first_run="caught"),
    "C14": dict(file="bioscrape/sbmlutil.py (add_reaction)", needs="stochastic export, mass action of order >= 3 with a non-adjacent repeat (A+B+A)", caught_by=["C14"],
                first_run="missed: reactant lists were generated sorted", strengthened="every ordering of each reactant multiset"),
    "C15": dict(file="bioscrape/inference.pyx (DeterministicLikelihood.get_log_likelihood)", needs="model with a rule + >= 2 trajectories + differing per-trajectory parameter conditions", caught_by=["C15"],
                first_run="missed: the whole simulator was abstract", strengthened="cost-rule jobs: only odeint is abstract, the real deterministic simulator and rule application run on a model with a rule; the replay uses parameter conditions that matter"),
    "C16": dict(file="bioscrape/pid_interfaces.py (StochasticInference.get_likelihood_function)", needs="stochastic interface + log-gaussian prior without the positive flag + value <= 0", caught_by=["C16"],
                first_run="missed: reals for doubles hid the NaN; wrapper job covered four families", strengthened="numpy.log has IEEE semantics in the interpreter (NaN below 0, -inf at 0, propagated); the wrapper job covers the log families and has a replay"),
    "C17": dict(file="bioscrape/types.pyx (Model._create_vectors)", needs="initialise, add a reaction, initialise again, then copy", caught_by=["C17"],
                first_run="missed by C17 (models built at once); C08 found the stale lists, not replayed", strengthened="C17 model-edited jobs (two stages around an initialisation), behaviour obligation with replay"),
    "C18": dict(file="bioscrape/analysis.py (compute_J)", needs="a state coordinate within two difference steps of zero", caught_by=["C18"], first_run="caught"),
    "C19": dict(file="bioscrape/simulator.pyx (GeneralVolumeSplitter.partition)", needs="general splitter + partition noise > 0 + a binomially partitioned species", caught_by=["C19"],
                first_run="counterexample found, not replayed (the replay only checked conservation): exit 2", strengthened="same-stream reference partition in the replay"),
    "C20": dict(file="bioscrape/simulator.pyx (ArrayDelayQueue.add_reaction)", needs="requested time one slot beyond the horizon", caught_by=["C20"], first_run="caught"),
}

# third round: told where both earlier changes were; asked for shared helpers, defaults, boundary values, reuse, ordering ...
META3 = {
    "C01": dict(file="bioscrape/simulator.pyx (SafeModelCSimInterface.initialize_reaction_inputs: abs(update)+abs(delay_update))", needs="safe + stochastic + a species consumed now and returned by the delayed part, at a count between the two requirements", caught_by=["C01"],
                first_run="missed: only the 'no firing without reactants' direction was an obligation (C06)", strengthened="safe-interface liveness job: with every consumed species present the safe propensity is the rate law's own value (and the law is evaluated at all)"),
    "C02": dict(file="bioscrape/types.pyx (StateDependentVolume.get_volume_step: volume_evaluate with swapped arguments)", needs="a growth law that mentions t", caught_by=["C02"],
                first_run="missed: the growth law in the users job had no time dependence", strengthened="growth law with t; replay through py_get_volume_step"),
    "C03": dict(file="bioscrape/types.pyx (Model._create_stochiometric_matrices skips NoDelay reactions)", needs="delayed reactants/products on a reaction whose delay type is None", caught_by=["C03"],
                first_run="missed: delayed parts always came with a fixed delay", strengthened="half of the delayed-part structures use no delay type"),
    "C04": dict(file="bioscrape/types.pyx (sympify with _clash2 instead of _clash1)", needs="a general rate over a name that is also a sympy constant (E, I, S, N, O, Q)", caught_by=["C04", "C02"],
                first_run="missed by C04 (reported by C02, whose identifier pool has those names)", strengthened="C04 model over S, E, I / N, Q, O; a legal model that cannot be built is an obligation failure with replay"),
    "C05": dict(file="bioscrape/simulator.pyx (ModelCSimInterface.__init__ copies the initial state)", needs="an interface built first, then Model.set_species, then a run through the old interface", caught_by=["C05", "C08"],
                first_run="missed by every check", strengthened="C08/C05 job: an interface keeps following set_species / set_params, also across a second initialisation"),
    "C06": dict(file="bioscrape/simulator.pyx (VolumeSSASimulator: `c_stoich += delayed` on the model's own array)", needs="a delay model run in the volume simulator, then simulated again", caught_by=["C06", "C08", "C11"],
                first_run="missed: the interpreter rebound `x += y` instead of updating arrays in place, so the aliasing was invisible", strengthened="engine: in-place semantics for arrays/lists (self-test); all loops require the interface's stoichiometric matrices untouched"),
    "C07": dict(file="bioscrape/simulator.pyx (VolumeSSASimulator rule_step starts at 0)", needs="stochastic + volume + an assignment rule with frequency dt", caught_by=["C07"],
                first_run="counterexample found, not replayed (no rule model in the reuse scenario): exit 2", strengthened="reuse replay checks the first row against the assignment rules of every frequency"),
    "C08": dict(file="bioscrape/types.pyx (Model.check_species rebinding species_values via np.where)", needs="interface built, model initialised again, set_species, run through the old interface", caught_by=["C08"],
                first_run="engine error (generator expression at parse stage unsupported): exit 2", strengthened="engine fixes + language self-test corpus (pyxsym.selftest); same follow job as r3/C05"),
    "C09": dict(file="bioscrape/types.pyx (Model.create_rule no longer forces dt for ode rules)", needs="an ode rule declared without a frequency + reactions firing between grid points", caught_by=["C09"],
                first_run="missed: every rule set gave explicit frequencies", strengthened="rule set declared as 2-tuples (default frequencies)"),
    "C10": dict(file="bioscrape/types.pyx (GammaDelay.get_delay draws erlang_rv)", needs="gamma delay with non-integer shape", caught_by=["C10"],
                first_run="missed: GammaDelay.get_delay was not executed (rejection loop)", strengthened="delay-class contract with every sampler of random.pyx stubbed: exactly one gamma_rv(k, theta) draw; same-stream replay"),
    "C11": dict(file="bioscrape/types.pyx (MassActionPropensity num_species = number of distinct reactants)", needs="order >= 3 with a repeat, volume != 1", caught_by=["C11"], first_run="caught"),
    "C12": dict(file="bioscrape/sbmlutil.py (add_rule: `if not rule_frequency`)", needs="a rule with numeric frequency 0", caught_by=["C12"], first_run="missed", strengthened="rules with frequency 0 and 0.0"),
    "C13": dict(file="bioscrape/types.pyx (Model.create_reaction zeroes species on both sides)", needs="a species that is reactant and product with different stoichiometries", caught_by=["C13", "C03"], first_run="caught"),
    "C14": dict(file="bioscrape/types.pyx (write_sbml_model drops stochastic_model)", needs="write_sbml_model(stochastic_model=True) with a repeated reactant", caught_by=["C14"],
                first_run="missed: only generate_sbml_model was exercised", strengthened="the written file's law must equal the generated document's; replay through the file"),
    "C15": dict(file="bioscrape/pid_interfaces.py (reset to defaults removed)", needs="per-trajectory conditions with different keys + a second evaluation", caught_by=["C15"],
                first_run="missed: conditions had the same keys (and the corresponding in-memory mutant had been dropped as equivalent)",
                strengthened="condition dictionaries with different, non-nested key sets - which exposed a genuine defect (conditions leaking into later trajectories), repaired in /repo"),
    "C16": dict(file="bioscrape/pid_interfaces.py (class-level cache of the gamma / beta normalisation keyed by parameter name)", needs="a second interface over the same parameter name with other hyper-parameters", caught_by=["C16"],
                first_run="counterexample found (the interpreter shares the class across cases), not replayed: exit 2", strengthened="replay evaluates another interface over the same names first"),
    "C17": dict(file="lineage/lineage.pyx (LineageVolumeCellState.__init__: `time or t0`)", needs="a cell state at time exactly 0 with a non-zero birth time, then copied", caught_by=["C17"],
                first_run="counterexample found, no replay for data objects: exit 2", strengthened="cell-state replay over a grid with zeros, values set through the setters"),
    "C18": dict(file="bioscrape/analysis.py (compute_Zj forward difference does not restore the parameter)", needs="method='forward_difference'", caught_by=["C18"], first_run="caught"),
    "C19": dict(file="lineage/lineage.pyx (division code without the rule offset)", needs="a model with a division rule and a division event whose splitters differ", caught_by=["C19"],
                first_run="counterexample found, not replayed: exit 2", strengthened="lineage replay with a rule (perfect) and an event (duplicate)"),
    "C20": dict(file="bioscrape/simulator.pyx (ArrayDelayQueue.binomial_partition starts at start_index)", needs="partition of an advanced queue with far-ahead entries", caught_by=["C20"], first_run="caught"),
}


META4 = {
    "C01": dict(file="bioscrape/simulator.pyx (SafeModelCSimInterface: the disabled flag is reset once per call, not once per reaction)", needs="safe + stochastic, two reactions, the lower-indexed one disabled by a missing reactant", caught_by=["C01"], first_run="caught"),
    "C02": dict(file="bioscrape/types.pyx (sympy_recursion: module-level cache of parsed expressions keyed by text)", needs="the same expression text parsed for two models that number their species differently", caught_by=["C02"],
                first_run="missed: each expression was parsed for one model only", strengthened="every expression is parsed a second time under the reversed species numbering and must evaluate to the same value"),
    "C03": dict(file="bioscrape/types.pyx (Model: the missing-value check looks at the last parameter only)", needs="a parameter without a value that is not the last one registered", caught_by=["C03"],
                first_run="missed: the missing parameter was the last one in every case", strengthened="missing parameter at every position of the table (numeric rate after it, Hill parameters, rule parameters)"),
    "C04": dict(file="bioscrape/types.pyx (Model.create_reaction writes the default 'species' string into the caller's propensity dict)", needs="one parameter dict passed to two mass-action reactions with different reactants", caught_by=["C04"],
                first_run="missed: every reaction had its own dict", strengthened="C04 model `shared_dict`; C03 obligation: create_reaction leaves its arguments unmodified"),
    "C05": dict(file="bioscrape/simulator.pyx (ModelCSimInterface.compute_stochastic_propensities)", needs="stochastic, non-volume, mass action with a repeated reactant", caught_by=["C05"], first_run="caught"),
    "C06": dict(file="bioscrape/types.pyx (MassActionPropensity: repeat detection compares neighbours only)", needs="order >= 3 with a repeated reactant that is not adjacent in the list (A+B+A)", caught_by=["C06"],
                first_run="missed: repeats were always adjacent", strengthened="reactant lists with non-adjacent repeats in C06 and C01"),
    "C07": dict(file="bioscrape/simulator.pyx (DelayVolumeSSASimulator works on the interface's initial-state buffer instead of a copy)", needs="delay + volume, then any later simulation on the same model", caught_by=["C07"],
                first_run="missed: the delay+volume loop had step obligations only, no initialisation obligations", strengthened="[delay-volume-loop init] obligations: the loop starts from a copy and the interface's initial state is unchanged afterwards; reuse replay"),
    "C08": dict(file="bioscrape/types.pyx/.pxd (Rule keeps a 'fired' latch for timed rules)", needs="a rule with a firing time + the same model simulated twice", caught_by=["C08"],
                first_run="missed: no obligation on the Rule objects' own state", strengthened="stateless_job: rules, propensities and delays have no attribute that differs after an execution; replay simulates one model twice on one stream"),
    "C09": dict(file="bioscrape/simulator.pyx (VolumeSSASimulator: `<=` -> `<` in the volume-step tie)", needs="total propensity 0 with the grid time equal to the next volume-step time", caught_by=["C09"], first_run="caught"),
    "C10": dict(file="bioscrape/simulator.pyx (ArrayDelayQueue.set_current_time shifts the pending entries)", needs="a queue handed to a second delay simulation that starts at another time", caught_by=["C10"],
                first_run="missed: set_current_time was only run on an empty queue", strengthened="queue re-timing job: pending entries keep their absolute due times; replay continues a simulation with the previous queue"),
    "C11": dict(file="bioscrape/types.pyx (StochasticTimeThresholdVolume.initialize drops the start time)", needs="a growing volume initialised at a time other than 0", caught_by=["C11"],
                first_run="counterexample found, not replayed (battery initialises at 0): exit 2", strengthened="replay of the division model against the real class: division time located through py_cell_divided, same stream"),
    "C12": dict(file="bioscrape/sbmlutil.py (import_sbml_parameters zeroes non-constant parameters)", needs="a rule whose target is a parameter with a non-zero value", caught_by=["C12"], first_run="caught"),
    "C13": dict(file="bioscrape/types.pyx (parse_expression wraps the law in Max(0, .))", needs="a kinetic law or rate rule that is negative at some state", caught_by=["C13"], first_run="caught"),
    "C14": dict(file="bioscrape/sbmlutil.py (add_parameter rounds values to 6 decimals)", needs="a parameter value with digits beyond the 6th decimal", caught_by=["C14"],
                first_run="missed: exported values were short decimals", strengthened="exported parameter values must equal the model's (values 0.000123456789012, 2.5000001234567)"),
    "C15": dict(file="bioscrape/inference.pyx (ModelLikelihood.set_init_params no longer hands the new parameter values to the simulator interface)", needs="deterministic cost on a model with a rule + a second evaluation, or per-trajectory parameter conditions", caught_by=["C15"], first_run="caught"),
    "C16": dict(file="bioscrape/pid_interfaces.py (priors paired with parameters by position)", needs="prior dict ordered differently from the parameter vector, differing families", caught_by=["C16"],
                first_run="missed: prior dict and parameter vector had the same order", strengthened="prior dict in reversed order; replay on the real PIDInterface"),
    "C17": dict(file="bioscrape/types.pyx (Schnitz.__getstate__ drops the mother unless reachable from the root)", needs="pickle/deepcopy of a Schnitz with a mother, or of a sub-lineage", caught_by=["C17"],
                first_run="partly: counterexample found, generic replay did not cover Schnitz objects: exit 2", strengthened="Schnitz replay kind: single schnitz with a mother, sub-lineage, list of leaves"),
    "C18": dict(file="bioscrape/analysis.py (module-level cache of the SensitivityAnalysis helper per model)", needs="query, Model.set_params, query again", caught_by=["C18"],
                first_run="missed: each query used a fresh model", strengthened="history jobs: query, set_params, query again is the derivative at the new values and the model keeps them"),
    "C19": dict(file="lineage/lineage.pyx (SimulateCellLineage: divided before reached-the-end)", needs="a cell dividing inside the last grid interval", caught_by=["C19"],
                first_run="counterexample found in the queue step, not replayed (no division in the last interval in the battery): exit 2", strengthened="lineage replay sweeps the end of the grid over a generation time"),
    "C20": dict(file="bioscrape/simulator.pyx (ArrayDelayQueue.copy shares the buffer)", needs="copy, then add/advance on one queue, observe the other", caught_by=["C20"],
                first_run="counterexample found, replay copied an empty queue: exit 2", strengthened="copy replay adds a pending entry to the copy and advances it"),
}


META5 = {
    "C01": dict(file="bioscrape/types.pxd (MassActionPropensity.num_species declared unsigned: `volume ** (num_species - 1)` wraps at order 0)", needs="the general mass-action class initialised directly with no reactants, a volume mode, V != 1", caught_by=["C01"],
                first_run="missed: the class was only reached through Model, which uses it from order 3 on", strengthened="the class initialised directly for every order 0..3 (the engine's unsigned wrap-around is now in its self-test)"),
    "C02": dict(file="bioscrape/types.pyx (Propensity.get_stochastic_volume_propensity falls back on the stochastic, not the volume, form)", needs="a general rate that mentions volume, stochastic + volume, V != 1", caught_by=["C02"],
                first_run="counterexample found; the obligation had no replay (reported as an unconfirmed violation)", strengthened="replay of the general rate / rule modes on the real build"),
    "C03": dict(file="bioscrape/simulator.pyx (ModelCSimInterface.compute_propensities clamps negative rates to 0)", needs="a general rate that is negative at the state (net flux of a reversible step)", caught_by=["C03"],
                first_run="missed: rates through the real interface were mass action only", strengthened="real-model derivative job with the net rate kf*A - kr*B of either sign"),
    "C04": dict(file="bioscrape/types.pyx (MaxTerm / MinTerm evaluate their first two arguments only)", needs="min / max over three or more arguments in a general rate", caught_by=["C04"],
                first_run="missed by C04 (C02 reported it, with spurious side results: fmax / fmin were uninterpreted in the engine)", strengthened="C04 model with n-ary min / max / abs; engine: exact fmax, fmin, floor, ceil, pow"),
    "C05": dict(file="bioscrape/random.pyx (sample_discrete rewritten without the running subtraction)", needs="three or more reactions with non-zero propensity", caught_by=["C05"],
                first_run="the check did not return: the encoder-validation scenario never finished in the interpreter on the changed tree", strengthened="encoder validation bounded in time (reported as inconclusive, the check goes on); the solver's counterexample replays"),
    "C06": dict(file="bioscrape/types.pyx (GeneralAssignmentRule.rule_volume_operation always writes the state)", needs="a volume simulator + an assignment rule whose target is a parameter", caught_by=["C06"],
                first_run="missed: no obligation on rules in C06", strengthened="rules that assign to parameters only leave all species counts unchanged (plain and volume rule pass)"),
    "C07": dict(file="bioscrape/simulator.pyx (ModelCSimInterface.apply_repeated_volume_rules passes time and volume swapped)", needs="a volume mode + a rule that mentions t or volume or fires at the start", caught_by=["C07"],
                first_run="missed by C07 (C09 reported it)", strengthened="the real interface's rule passes over rules with t / volume are part of C07 (first row = initial condition with rules applied); first-row replay over all modes"),
    "C08": dict(file="bioscrape/simulator.pyx (DelayVolumeSSASimulator: np.ascontiguousarray(initial state) instead of a copy)", needs="delay + volume, then anything else on the same model", caught_by=["C08"],
                first_run="engine gap: ascontiguousarray converted the symbolic array to floats: exit 2", strengthened="npshim: ascontiguousarray / asanyarray / require return the argument itself when numpy would; self-test"),
    "C09": dict(file="bioscrape/types.pyx (Rule fires when |scheduled time - t| < dt/2)", needs="a scheduled rule + reactions firing within half a step of its time", caught_by=["C09"], first_run="caught"),
    "C10": dict(file="bioscrape/simulator.pyx (VolumeSSASimulator: `c_stoich += delayed` on the model's own array)", needs="a delay model run without delay support in the volume simulator, then a delay run", caught_by=["C10"],
                first_run="missed by C10 (the same place as r3/C06; C06, C08, C11 report it)", strengthened="C10 covers the non-delay volume loop on delay models: both parts at the firing time, matrices untouched"),
    "C11": dict(file="bioscrape/types.pyx (PowerTerm.volume_evaluate evaluates its base without the volume)", needs="a general rate with volume inside a quotient or power, V != 1", caught_by=["C11"],
                first_run="missed by C11 (C02's node obligations report it)", strengthened="general rates that carry their own volume scaling + the expression nodes' volume-aware evaluation in C11"),
    "C12": dict(file="bioscrape/sbmlutil.py (import_sbml_reactions keeps the previous reaction's delayed reactants / products when the annotation entry is empty)", needs="two delayed reactions in a row, the second with an empty delayed list", caught_by=["C12"],
                first_run="missed: every program had one reaction", strengthened="programs with several delayed / undelayed reactions in every order"),
    "C13": dict(file="bioscrape/sbmlutil.py (import_sbml_species: the concentration overrides a non-zero amount when hasOnlySubstanceUnits is false)", needs="a species carrying both attributes", caught_by=["C13"],
                first_run="missed: libsbml's setters drop one of the two attributes, so no generated document had both", strengthened="the second attribute is written into the document text; hasOnlySubstanceUnits both ways"),
    "C14": dict(file="bioscrape/types.pyx (generate_sbml_model exports delayed reactions in stochastic form)", needs="deterministic export of a delayed mass-action reaction with a repeated reactant", caught_by=["C14"],
                first_run="missed: no delayed reaction among the programs", strengthened="delayed mass-action programs (three families, repeated reactants); replay compares relatively at several states"),
    "C15": dict(file="bioscrape/inference_setup.py (extract_data selects the measured columns with columns.isin: frame order, not measurement order)", needs="two or more measurements listed in another order than the frame's columns", caught_by=["C15"],
                first_run="harness gap: the data-frame model had no .loc / .columns: exit 2", strengthened="the frame model covers columns, loc / iloc, to_numpy, __array__, drop, keys (column order kept)"),
    "C16": dict(file="bioscrape/pid_interfaces.py (gaussian_prior rejects densities above 1)", needs="a gaussian prior with sigma < 0.399 near its mean", caught_by=["C16"], first_run="caught (two wrapper obligations had no replay; added)"),
    "C17": dict(file="lineage/lineage.pyx (LineageModel.__setstate__: death_events_list = state[6])", needs="a lineage model with death or volume events, copied, then initialised", caught_by=["C17"],
                first_run="counterexample found, not replayed (the lineage replay compared definitions only): exit 2", strengthened="lineage behaviour replay: every kind of lineage rule / event, copied before / after initialisation, same-seed single-cell runs and event counts"),
    "C18": dict(file="bioscrape/analysis.py (SensitivityAnalysis builds a SafeModelCSimInterface)", needs="a general rate that is negative at the state", caught_by=["C18"],
                first_run="harness error: the stub model does not fit the safe interface: exit 2", strengthened="real-model job (no stub): net rate kf*A - kr*B of either sign, Jacobian and sensitivities analytic"),
    "C19": dict(file="lineage/lineage.pyx (truncate_timepoints_less_than starts its scan at ceil((value - t0)/dt))", needs="a grid whose step is not a binary fraction (or a non-uniform grid) and a division at an affected index", caught_by=["C19"],
                first_run="engine gap: range() with a symbolic first index: exit 2", strengthened="engine: range(start, stop) forks on a symbolic start below a concrete bound"),
    "C20": dict(file="bioscrape/simulator.pyx (ArrayDelayQueue.advance_time clears column (start_index - 1) % num_cols: unsigned underflow)", needs="a queue length that is not a power of two, advanced past its wrap", caught_by=["C20"], first_run="caught"),
}


META6 = {
    "C01": dict(file="bioscrape/types.pyx (Model.create_reaction copies the propensity dictionary after writing the default 'species' string into it)", needs="one dictionary object shared by two implicit mass-action reactions with different reactants", caught_by=["C01"],
                first_run="missed by C01 (the same aliasing as r4/C04; C03 and C04 report it): every reaction had its own dictionary", strengthened="two-reaction structures that share one dictionary object"),
    "C02": dict(file="bioscrape/types.pyx (PowerTerm takes the absolute value of its base)", needs="a power or quotient whose base is negative with an odd exponent", caught_by=["C02"], first_run="caught"),
    "C03": dict(file="bioscrape/types.pyx (Model.__init__: the no-delay defaults are set once before the loop over reaction tuples)", needs="a plain 4-tuple reaction after a delayed 8-tuple in the constructor's list", caught_by=["C03"], first_run="caught"),
    "C04": dict(file="bioscrape/types.pyx (MassActionPropensity.initialize counts a repeat on the entry added last)", needs="order >= 3 with a repeated reactant that is not adjacent to its first occurrence", caught_by=["C04"],
                first_run="missed by C04 (the same place as r4/C06; C01 and C06 report it)", strengthened="C04 model with A+B+A and B+C+A+B mass-action reactions"),
    "C05": dict(file="bioscrape/random.pyx (array_sum: pairwise summation above 8 entries drops the odd element)", needs="9, 11, 13, 17, 18, 19 ... reactions", caught_by=["C05"],
                first_run="missed: the loops' bound is 3 reactions", strengthened="array_sum and sample_discrete over up to 33 (thorough: 129) symbolic propensities as a job of their own"),
    "C06": dict(file="bioscrape/simulator.pyx (SafeModelCSimInterface.compute_stochastic_propensities: the reactant cursor is reset once, not per reaction)", needs="safe + stochastic, a later reaction with a non-mass-action rate lacking its reactant", caught_by=["C06"], first_run="caught"),
    "C07": dict(file="bioscrape/simulator.pyx (DeterministicSimulator._helper_simulate applies the rules to the initial state before integrating as well)", needs="deterministic mode + rules for which two passes differ from one", caught_by=["C07"],
                first_run="missed by C07 (C09 reports it)", strengthened="C09's deterministic row obligations are part of C07; first-row replay with self-referential rules"),
    "C08": dict(file="bioscrape/simulator.pyx (ModelCSimInterface.__init__ copies the initial state)", needs="interface built, then set_species, then a run through that interface", caught_by=["C08"], first_run="caught (the same place as r3/C05)"),
    "C09": dict(file="bioscrape/simulator.pyx (SSASimulator: rule_step not raised in the Lambda == 0 branch)", needs="plain stochastic mode + a dt / ode rule + a network that runs out of reactions after some firings", caught_by=["C09"],
                first_run="counterexample found, not replayed (no scenario reaches total propensity 0 after firings): exit 2", strengthened="decay-to-exhaustion scenario in every stochastic mode"),
    "C10": dict(file="bioscrape/types.pyx (Model.create_reaction: `=+ 1` for delayed products)", needs="a species twice among the delayed products, or delayed reactant and delayed product at once", caught_by=["C10"],
                first_run="missed by C10 (C03 reports it)", strengthened="C03's stoichiometry obligations over delayed parts with up to two entries are part of C10; accounting replay"),
    "C11": dict(file="bioscrape/types.pyx (StepTerm.volume_evaluate: `>= 0` became `> 0`)", needs="a Heaviside term whose argument is exactly 0, in a volume mode", caught_by=["C11"],
                first_run="missed: the value of the step AT 0 is outside the claim (conventions differ)", strengthened="plain and volume-aware evaluation of a step agree whenever the argument has the same value (also at 0)"),
    "C12": dict(file="bioscrape/sbmlutil.py (import_sbml sets parameters with set_params after the reactions: unknown names are ignored)", needs="a parameter no rate law, delay or rule refers to", caught_by=["C12"], first_run="caught"),
    "C13": dict(file="bioscrape/types.pyx (sympy_recursion: rationals converted with C integer division)", needs="an exact fraction in a kinetic law or rule (division by an integer literal)", caught_by=["C13"],
                first_run="missed: no generated formula contained a fraction", strengthened="generator wraps formulas in /2, 3*( )/4, ( )/3 + kg/2, 5/2*( )"),
    "C14": dict(file="bioscrape/types.pyx (Model.create_reaction copies the propensity dictionary after writing the default 'species' string into it)", needs="one dictionary object shared by two implicit mass-action reactions with different reactants", caught_by=["C14"],
                first_run="missed: one reaction per program", strengthened="programs whose reaction shares its dictionary with an earlier one"),
    "C15": dict(file="bioscrape/inference.pyx (ModelLikelihood.get_initial_state returns the first initial condition when Nx0 == 1)", needs="several trajectories with different initial conditions and no parameter conditions", caught_by=["C15"], first_run="caught"),
    "C16": dict(file="bioscrape/pid_interfaces.py (PIDInterface.__init__ strips the 'positive' flag from the caller's lists)", needs="a second interface built from the same prior dictionary", caught_by=["C16"],
                first_run="missed: one interface per dictionary", strengthened="an earlier interface over the same dictionary object; the caller's dictionary is unchanged"),
    "C17": dict(file="bioscrape/types.pyx (Schnitz.__setstate__ links the daughters only if the first slot is set)", needs="a record with its only daughter in the second slot", caught_by=["C17"],
                first_run="missed: records had two daughters or none", strengthened="records with one daughter in either slot"),
    "C18": dict(file="bioscrape/types.pyx (Model.set_params skips values that are np.isclose to the stored ones)", needs="a parameter of size >= 1000 (the finite-difference step is absolute)", caught_by=["C18"],
                first_run="engine gap: np.isclose on symbolic values: exit 2", strengthened="npshim: isclose / allclose with numpy's definition over the reals; replay at large parameter values"),
    "C19": dict(file="lineage/lineage.pyx (LineageSSASimulator.py_SimulateCellLineage creates its lineage and queues only when they are None)", needs="a second lineage simulation on the same simulator object", caught_by=["C19"],
                first_run="missed: one call per simulator", strengthened="wrapper job: several calls on one simulator object each start from an empty lineage and queues of their own; replay"),
    "C20": dict(file="bioscrape/simulator.pyx (ArrayDelayQueue.set_current_time also resets start_index)", needs="a queue advanced a non-multiple of its length, holding entries, then re-timed", caught_by=["C20"], first_run="caught"),
}


META7 = {
    "C01": dict(file="bioscrape/types.pyx (MassActionPropensity.initialize: num_species = number of distinct reactants)", needs="order >= 3 with a repeat (or the class used directly), a volume mode, V != 1", caught_by=["C01"], first_run="caught (the same place as r3/C11)"),
    "C02": dict(file="bioscrape/types.pyx (MinTerm.evaluate: `cdef float temp`)", needs="min(...) in a non-volume evaluation whose minimum is not a float32 number", caught_by=["C02"],
                first_run="missed: C floats were treated as doubles (reals)", strengthened="engine: a C float local rounds concrete values to single precision and makes symbolic ones an uninterpreted rounding; replay at nearby generic points with a last-place tolerance"),
    "C03": dict(file="bioscrape/simulator.pyx (calculate_deterministic_derivative skips species without reactions before zeroing their entry)", needs="a species with an all-zero net row and an output array with stale contents", caught_by=["C03"],
                first_run="missed: output arrays were zero-initialised", strengthened="output arrays with arbitrary prior contents; a spectator species in the real-model job"),
    "C04": dict(file="bioscrape/simulator.pyx (SafeModelCSimInterface.compute_propensities: count test on the continuous path)", needs="safe + deterministic, a reactant concentration below its stoichiometric coefficient", caught_by=["C04"], first_run="caught"),
    "C05": dict(file="bioscrape/simulator.pyx (SafeModelCSimInterface.initialize_reaction_inputs reads the requirement from the wrong row)", needs="safe + stochastic, reactants that are not the leading species of the model", caught_by=["C05"], first_run="caught"),
    "C06": dict(file="bioscrape/simulator.pyx (ModelCSimInterface.compute_stochastic_volume_propensities calls the deterministic volume form)", needs="volume + stochastic, plain interface, a repeated reactant", caught_by=["C06"], first_run="caught"),
    "C07": dict(file="bioscrape/types.pyx (GeneralAssignmentRule.rule_volume_operation evaluates parameter targets without the volume)", needs="a volume mode, V != 1, a parameter-target rule that mentions volume, a species rule reading that parameter", caught_by=["C07"],
                first_run="missed: no parameter-target rule mentioned the volume", strengthened="rule set with q = k*volume + t, B = q + A, k = A*volume (C09 / C07)"),
    "C08": dict(file="bioscrape/simulator.pyx + vector.pxd (prep_deterministic_simulation: resize instead of clear + push_back)", needs="one interface prepared for a deterministic run more than once", caught_by=["C08"],
                first_run="engine gap: std::vector::resize: exit 2", strengthened="engine: resize / reserve / front / back / pop_back / assign / swap on vectors (self-test); job: an interface prepared three times reports the same derivative"),
    "C09": dict(file="bioscrape/types.pyx (AdditiveAssignmentRule accumulates into its target in place)", needs="an additive rule whose target is one of its own sources", caught_by=["C09"],
                first_run="missed: no self-referential additive rule", strengthened="rule set of accumulators (C = C + A, B = A + B, A = B + A + A)"),
    "C10": dict(file="bioscrape/simulator.pyx (DelaySSASimulator adds the delayed stoichiometry once per due slot, not once per queued firing)", needs="two firings of one reaction due in the same slot", caught_by=["C10"], first_run="caught"),
    "C11": dict(file="bioscrape/simulator.pyx (ModelCSimInterface.compute_stochastic_volume_propensities delegates to compute_volume_propensities)", needs="volume + stochastic, plain interface, a repeated reactant", caught_by=["C11"], first_run="caught (the same place as r7/C06)"),
    "C12": dict(file="bioscrape/sbmlutil.py (import_sbml_rules skips a second assignment rule for the same variable)", needs="two assignment / additive rules with one target", caught_by=["C12"],
                first_run="missed: one rule per program", strengthened="programs with several rules, some with the same target"),
    "C13": dict(file="bioscrape/sbmlutil.py (import_sbml_parameters skips parameters called t or volume)", needs="a global parameter with that id", caught_by=["C13"],
                first_run="missed: fixed parameter names", strengthened="generator renames a global parameter to t / volume in a fifth of the documents"),
    "C14": dict(file="bioscrape/types.pyx (BimolecularPropensity: stochastic homodimer rate halved)", needs="A + A, stochastic export, at least two molecules", caught_by=["C14"], first_run="caught"),
    "C15": dict(file="bioscrape/pid_interfaces.py (uniform_prior: open instead of closed support)", needs="theta exactly on a bound of a uniform prior", caught_by=["C15"],
                first_run="counterexample found, replay at an interior point only: exit 2", strengthened="replay evaluates the cost at both ends of the support as well"),
    "C16": dict(file="bioscrape/pid_interfaces.py (uniform_prior renormalised to [max(lower, 0), upper] under 'positive')", needs="uniform prior with the flag and a negative lower bound", caught_by=["C16"], first_run="caught"),
    "C17": dict(file="bioscrape/types.pyx (Model.__getstate__ rebuilds the reaction list from the initialised propensities)", needs="a model copied before it has been initialised since its last create_reaction", caught_by=["C17"],
                first_run="counterexample found, not replayed: exit 2", strengthened="replay copies a model edited after its last initialisation"),
    "C18": dict(file="bioscrape/simulator.pyx (ModelCSimInterface.compute_propensities calls the stochastic form)", needs="mass action with a repeated reactant", caught_by=["C18"],
                first_run="missed: the real-model job had no repeated reactant", strengthened="dimerisation model 2A -> B with the schemes' exact expectations"),
    "C19": dict(file="lineage/lineage.pyx (LineageVolumeSplitter.partition: `continue` skips the mother's share for exactly splitting perfect species)", needs="a perfect-mode species with an even count and a noise-free volume split", caught_by=["C19"], first_run="caught"),
    "C20": dict(file="bioscrape/simulator.pyx (ArrayDelayQueue.get_next_reactions writes positive amounts only)", needs="one output buffer reused between reads", caught_by=["C20"],
                first_run="missed: a fresh zeroed buffer per read", strengthened="reads into a buffer with arbitrary prior contents (harness) and one reused buffer (replay)"),
}


META8 = {
    "C02": dict(file="bioscrape/types.pyx (Model.create_rule gives valueless parameters of a rule the value 0)", needs="an undeclared name on a rule's right-hand side", caught_by=["C02"], first_run="caught"),
    "C03": dict(file="bioscrape/types.pyx (Model._initialize sets the initialised flag before the checks)", needs="a model object that survives the first refusal (deferred initialisation), then a second attempt", caught_by=["C03"],
                first_run="missed: one attempt per model", strengthened="the same model object is refused on every later attempt (interface, initialisation, simulation)"),
    "C07": dict(file="bioscrape/types.pyx (AdditiveAssignmentRule accumulates in place)", needs="an additive rule whose target is one of its sources", caught_by=["C07"],
                first_run="missed by C07 (the same place as r7/C09, which C09 reports)", strengthened="the accumulator rule set is part of C07's first-row rule passes"),
    "C09": dict(file="bioscrape/types.pyx (Model.__init__ passes input_printout positionally into create_rule's frequency slot)", needs="a rule given to the constructor as a 2-tuple", caught_by=["C09"], first_run="caught"),
    "C10": dict(file="bioscrape/simulator.pyx (ModelCSimInterface.compute_delay returns fabs of the delay)", needs="a Gaussian (or fixed) delay that is negative", caught_by=["C10"],
                first_run="counterexample found, not replayed: exit 2", strengthened="replay: Gaussian(-50, 1), fixed -2 and Gaussian(0, 1) delays deliver at the firing time"),
    "C12": dict(file="bioscrape/sbmlutil.py (import_sbml_species: `sid in (\"volume\" \"t\")` is a substring test)", needs="a species called u, v, m, e, l, o, me, vol, ...", caught_by=["C12"],
                first_run="missed: fixed species names", strengthened="programs over short species names"),
    "C13": dict(file="bioscrape/types.pyx (GeneralPropensity.initialize caches parsed terms under id(params2index))", needs="many imports in one process; the address of a released dictionary is reused", caught_by=["C13"],
                first_run="missed (not deterministic)", strengthened="a change of module-level containers during an import is recorded as a suspicion; the replay then reads 240 documents in one process and checks each against its own text (a suspicion that does not reproduce is noted, not reported)"),
    "C18": dict(file="bioscrape/types.pyx (sympify with _clash2 instead of _clash1)", needs="a general rate over a species or parameter called E, I, N, ...", caught_by=["C18"],
                first_run="missed by C18 (the same place as r3/C04)", strengthened="third real model over species E and parameters N, I; a legal model that cannot be built is a failure"),
    "C19": dict(file="bioscrape/simulator.pyx (GeneralVolumeSplitter.py_set_partitioning honours a 'binomial' key without removing those species from the default set)", needs="options that name species under 'binomial'", caught_by=["C19"],
                first_run="missed: binomial species were left implicit", strengthened="general splitter with the binomial species named explicitly"),
    "C20": dict(file="bioscrape/simulator.pyx (ArrayDelayQueue.__init__ snaps the first slot to a multiple of dt)", needs="a queue constructed at a time that is not a multiple of dt", caught_by=["C20"],
                first_run="missed: queues were made by setup_queue (time 0)", strengthened="the constructor with an arbitrary current time"),
}


META9 = {
    "C05": dict(file="bioscrape/simulator.pyx (py_simulate_model moves the interface's initial time to the first requested time point)", needs="stochastic run on a grid that does not start at 0", caught_by=["C05"],
                first_run="missed: every grid started at the initial time", strengthened="the entry point's grid starts at an arbitrary offset; the simulation clock stays at the interface's initial time (C05, C07); replay over 20 seeds on a late grid"),
    "C06": dict(file="bioscrape/simulator.pyx (DelaySSASimulator applies the delayed stoichiometry once per due slot)", needs="two firings of one reaction due in the same slot", caught_by=["C06"], first_run="caught (the same place as r7/C10)"),
    "C08": dict(file="bioscrape/simulator.pyx (SSASimulator: `c_stoich += delayed` on the model's own array)", needs="a delay model run in the plain stochastic simulator, then again", caught_by=["C08"], first_run="caught"),
    "C11": dict(file="bioscrape/types.pyx (PositiveProportionalHillPropensity divides the proportional species by the volume as well)", needs="proportionalhillpositive, a volume mode, V != 1", caught_by=["C11"], first_run="caught"),
    "C15": dict(file="bioscrape/inference.pyx (ModelLikelihood.get_initial_params treats an empty per-trajectory condition as no conditions)", needs="a list of parameter conditions with an empty entry after a non-empty one", caught_by=["C15"],
                first_run="missed: the list cases had two trajectories, none of them empty", strengthened="three trajectories whose third condition is empty"),
    "C17": dict(file="lineage/lineage.pyx (LineageVolumeCellState.__reduce__ passes dead and divided swapped)", needs="a cell state with divided != dead", caught_by=["C17"],
                first_run="counterexample found, replay compared fields with getters only: exit 2", strengthened="replay compares the divided / dead flags from the state tuple"),
}


def main():
    results = {}
    rp = "/verif/seeded/results.json"
    if os.path.exists(rp):
        results = json.load(open(rp))
    rounds = [(META, SRC, DST, ("patch.diff", "demo.py", "notes.md"))]
    if os.path.isdir("/tmp/seed2_out") or os.path.isdir(os.path.join(DST, "r2")):
        rounds.append((META2, "/tmp/seed2_out", os.path.join(DST, "r2"), ("patch.diff", "demo.py", "notes.md", "patch_original_base.diff")))
    if os.path.isdir("/tmp/seed3_out") or os.path.isdir(os.path.join(DST, "r3")):
        rounds.append((META3, "/tmp/seed3_out", os.path.join(DST, "r3"), ("patch.diff", "demo.py", "notes.md")))
    if os.path.isdir("/tmp/seed4_out") or os.path.isdir(os.path.join(DST, "r4")):
        rounds.append((META4, "/tmp/seed4_out", os.path.join(DST, "r4"), ("patch.diff", "demo.py", "notes.md")))
    if os.path.isdir("/tmp/seed5_out") or os.path.isdir(os.path.join(DST, "r5")):
        rounds.append((META5, "/tmp/seed5_out", os.path.join(DST, "r5"), ("patch.diff", "demo.py", "notes.md")))
    if os.path.isdir("/tmp/seed6_out") or os.path.isdir(os.path.join(DST, "r6")):
        rounds.append((META6, "/tmp/seed6_out", os.path.join(DST, "r6"), ("patch.diff", "demo.py", "notes.md")))
    if os.path.isdir("/tmp/seed7_out") or os.path.isdir(os.path.join(DST, "r7")):
        rounds.append((META7, "/tmp/seed7_out", os.path.join(DST, "r7"), ("patch.diff", "demo.py", "notes.md")))
    if os.path.isdir("/tmp/seed8_out") or os.path.isdir(os.path.join(DST, "r8")):
        rounds.append((META8, "/tmp/seed8_out", os.path.join(DST, "r8"), ("patch.diff", "demo.py", "notes.md")))
    if os.path.isdir("/tmp/seed9_out") or os.path.isdir(os.path.join(DST, "r9")):
        rounds.append((META9, "/tmp/seed9_out", os.path.join(DST, "r9"), ("patch.diff", "demo.py", "notes.md")))
    for table, src_root, dst_root, files in rounds:
      for pid, m in sorted(table.items()):
        src = os.path.join(src_root, pid)
        dst = os.path.join(dst_root, pid)
        os.makedirs(dst, exist_ok=True)
        for fn in files:
            if os.path.exists(os.path.join(src, fn)):
                shutil.copy(os.path.join(src, fn), os.path.join(dst, fn))
        key = pid if table is META else ("r2/" if table is META2 else "r3/" if table is META3 else "r4/" if table is META4 else "r5/" if table is META5 else "r6/" if table is META6 else "r7/" if table is META7 else "r8/" if table is META8 else "r9/") + pid
        meta = dict(property=pid, changed=m["file"], needs_to_manifest=m["needs"], reported_by_checks=m["caught_by"],
                    first_run=m["first_run"], strengthened=m.get("strengthened", ""),
                    confirmed=["tools/try_seed.sh: (1) `git diff` of the sub-agent's worktree equals patch.diff; (2) the pinned suite run in that worktree: 54 passed; "
                               "(3) demo.py against the changed tree exits 1 and against /repo exits 0; (4) `git -C /repo apply patch.diff`, "
                               "`./vf check <id> --tier quick` for the checks listed, `git -C /repo checkout -- .`"],
                    trial_output=results.get(key, []))
        if m.get("note"):
            meta["note"] = m["note"]
        with open(os.path.join(dst, "meta.json"), "w") as f:
            json.dump(meta, f, indent=1)
    print("wrote", sum(len(r[0]) for r in rounds), "seed directories")


if __name__ == "__main__":
    main()
