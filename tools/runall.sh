#!/bin/sh
# runs every check's quick (or $1) tier sequentially; prints the verdict lines
cd "$(dirname "$0")/.."
tier="${1:-quick}"
for i in 01 02 03 04 05 06 07 08 09 10 11 12 13 14 15 16 17 18 19 20; do
  timeout 1500 ./vf check C$i --tier "$tier" 2>&1 | grep -E "^C$i |VIOLATION|INCONCLUSIVE|SPURIOUS|NOTE mutant" | cut -c1-220
done
