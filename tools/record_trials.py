"""usage: record_trials.py <round, e.g. r5> <log> [<log> ...]
Stores the output blocks ("######## rN/Cxx" ... ) of official try_seed.sh runs in seeded/results.json (later logs override earlier ones)."""
import json
import re
import sys

rnd, logs = sys.argv[1], sys.argv[2:]
path = "/verif/seeded/results.json"
res = json.load(open(path))
blocks = {}
for lg in logs:
    cur = None
    for l in open(lg):
        m = re.match(r"######## (%s/C\d+)" % re.escape(rnd), l)
        if m:
            cur = m.group(1)
            blocks[cur] = []
            continue
        if cur:
            blocks[cur].append(l.rstrip()[:260])
for k, v in sorted(blocks.items()):
    verdict = "VIOLATION" if any(x.startswith("VIOLATION") or " VIOLATION " in x for x in v) else \
        "INCONCLUSIVE" if any("INCONCLUSIVE" in x for x in v) else "NOT REPORTED"
    print(k, verdict, [x for x in v if "passed" in x][:1], [x for x in v if x.startswith("exit")])
    res[k] = v
json.dump(res, open(path, "w"), indent=1)
