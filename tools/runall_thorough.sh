#!/bin/sh
cd /verif
for i in 01 02 03 04 05 06 07 08 09 10 11 12 13 14 15 16 17 18 19 20; do
  s=$(date +%s)
  VERIF_EVIDENCE_DIR=/verif/evidence/thorough timeout 3600 ./vf check C$i --tier thorough 2>&1 | grep -E "^C$i |VIOLATION|INCONCLUSIVE|SPURIOUS|NOTE mutant|KNOWN" | cut -c1-260
  echo "   [C$i took $(( $(date +%s) - s )) s]"
done
echo ALL DONE
