"""usage: mkprompts.py <round number> <ideas text file or '-'> <ids...>
Writes /tmp/seed<N>_prompt_<id>.txt and /tmp/seed<N>_out/<id>.prop.txt for fresh sub-agents (one per property), each with its own
scratch worktree /tmp/s<N>_<id> (create with tools/mkworktree.sh).  The sub-agent sees the property text only - nothing from /verif."""
import importlib.util
import json
import os
import sys

T = """You are helping evaluate how well a project's safeguards detect subtle regressions. You have your own scratch git worktree of the Python/Cython project biocircuits/bioscrape at WT (already built: the compiled extension modules are in place; after editing a .pyx/.pxd file rebuild with `cd WT && timeout 900 /venv/bin/python setup.py build_ext --inplace -j 4`, which recompiles only what changed, ~1-3 minutes; pure-Python files need no rebuild). Work ONLY inside WT and OUT. Do not touch or read /repo, /verif or any other directory. Do NOT use `git stash` (the stash is shared with other worktrees), do not commit, and do not create branches. There is no network.

The property text you are to break is in OUT.prop.txt - read it first. Then read the code it concerns in WT.

Task: make ONE small, realistic change to the project's source (the kind of mistake or 'cleanup' a maintainer could plausibly make) that BREAKS this property, while
 (a) the project still compiles/builds,
 (b) the existing test suite still passes: `cd WT && PYTHONPATH=WT timeout 1500 /venv/bin/python -m pytest -q -p no:cacheprovider --timeout=900` (54 tests must pass),
 (c) the breakage needs something specific to manifest (a particular kind of model, input shape, parameter value, option combination, event order, history of calls...), i.e. it is not visible on every trivial input.
Other engineers have already tried changes in: PREV. Pick a DIFFERENT function and a different kind of mistake from all of them. IDEAS
Do not change tests, build files or docs. Keep the diff small (ideally < 15 lines) and in the library source only.

Deliverables in OUT/:
 - patch.diff : output of `git -C WT diff` (must apply with `git apply` to a clean checkout of the same commit)
 - demo.py    : a standalone script using only the project's public Python API (run as `cd /tmp && PYTHONPATH=WT /venv/bin/python OUT/demo.py`) that exits 1 and prints what went wrong on the changed tree, and exits 0 on the unchanged tree. It should judge the property itself (e.g. compare against an independent computation), not just compare against hard-coded output.
 - notes.md   : what you changed, why it is plausible, exactly what is needed for it to manifest, and what you ran (commands and results: build, tests, demo with and without the change).
Verify the demo in both directions yourself (for 'without the change': `git -C WT diff > OUT/patch.diff; git -C WT checkout -- .`, rebuild, run, then `git -C WT apply OUT/patch.diff` and rebuild). Leave the worktree in the CHANGED, built state with `git -C WT diff` identical to patch.diff.
Final answer: a short summary of the change, what it needs to manifest, and the verification results.
"""


def main():
    n, ideas_file, ids = sys.argv[1], sys.argv[2], sys.argv[3:]
    here = os.path.dirname(os.path.abspath(__file__))
    spec = importlib.util.spec_from_file_location("mk", os.path.join(here, "mkseeded.py"))
    mk = importlib.util.module_from_spec(spec)
    spec.loader.exec_module(mk)
    tables = [getattr(mk, nm) for nm in sorted(dir(mk), key=lambda s: (len(s), s)) if nm.startswith("META")]
    props = {json.loads(l)["id"]: json.loads(l) for l in open(os.path.join(here, "..", "properties.jsonl"))}
    ideas = "" if ideas_file == "-" else open(ideas_file).read().strip()
    os.makedirs("/tmp/seed%s_out" % n, exist_ok=True)
    for pid in ids:
        prev = "; ".join(t[pid]["file"] for t in tables if pid in t)
        wt, out = "/tmp/s%s_%s" % (n, pid), "/tmp/seed%s_out/%s" % (n, pid)
        os.makedirs(out, exist_ok=True)
        p = props[pid]
        open(out + ".prop.txt", "w").write("%s - %s\n\n%s\n\nQuantified over: %s\n" % (pid, p["title"], p["statement"], p["quantifier"]["text"]))
        open("/tmp/seed%s_prompt_%s.txt" % (n, pid), "w").write(T.replace("WT", wt).replace("OUT", out).replace("PREV", prev).replace("IDEAS", ideas))
    print("wrote prompts for", ids)


if __name__ == "__main__":
    main()
