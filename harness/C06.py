"""C06 - every stochastic trajectory is a feasible reaction path.

Obligations:
 * the four event loops (plain, delay, volume, delay+volume): one inductive step each from an arbitrary
   pre-state: the state changes only by stoichiometry columns of reactions with positive propensity
   (or queued deliveries), zero total propensity fires nothing, the clock never runs backwards;
 * mass action: through the real Model/ModelCSimInterface code, a positive stochastic propensity implies
   that applying the reaction keeps every count non-negative;
 * safe mode: SafeModelCSimInterface with ARBITRARY propensity objects and symbolic stoichiometry never
   gives a positive propensity to a reaction lacking its full complement of reactants.
"""
import itertools

import numpy as np

from .common import Check, model_env
from .stubs import ptr, sym_array
from pyxsym.sym import s_and, s_or, s_not, s_implies, s_max, ite, is_sym, CFault
from pyxsym.values import CVector, VecPtr

REPLAY = ("replay_drivers.C06", "replay")
SPECIES = ["A", "B", "C"]
FACETS = ["feasible", "invariant", "absorbing", "loop", "init"]      # oracle-free consequences of the step relations


def _report(c, cond, label, sig, rp=None, syms=None):
    ok = c.prove(cond, label, info={"sig": sig, "what": label})
    if ok is False and rp is not None:
        f = c.failures[-1]
        env = model_env(c, f["model"], syms or {})
        f["replay"] = dict(rp, values=env)
        f["info"]["what"] = "%s at %s" % (label, env)
    return ok


def param_rules_job(interp, c, case):
    """'when no rule overwrites species': rules whose targets are all PARAMETERS leave every species count as it is, in the plain
    and in the volume-aware rule pass, whatever the rule type and whether or not the step flag is set.  The parameters are declared
    so that a target parameter's index coincides with a species index."""
    ptargets, = case
    T = interp.load("bioscrape.types")
    S = interp.load("bioscrape.simulator")
    pv = {p: c.real("p_" + p) for p in ("q", "r", "k")}
    sv = {sp: c.int("s_" + sp, lo=0) for sp in SPECIES}
    rules = []
    for i, (typ, tgt) in enumerate(ptargets):
        if typ == "assignment":
            rules.append(("assignment", {"equation": "%s = k*A + volume + t" % tgt}, "repeated"))
        elif typ == "assignment-dt":
            rules.append(("assignment", {"equation": "%s = k + B" % tgt}, "dt"))
        else:
            rules.append(("ode", {"equation": "k*B + volume", "target": tgt}, "dt"))
    M = T.ns["Model"](species=list(SPECIES), parameters=list(pv.items()), rules=rules, initial_condition_dict=dict(sv))
    itf = S.ns["ModelCSimInterface"](M)
    dt = c.real("dt", lo=0, lo_strict=True)
    itf.py_set_dt(dt)
    t, V = c.real("t", lo=0), c.real("V", lo=0, lo_strict=True)
    rs = c.int("rs", lo=0, hi=1)
    order = M.get_species_list()
    for vol in (False, True):
        st = np.array([sv[sp] for sp in order], dtype=object)
        try:
            if vol:
                itf.apply_repeated_volume_rules(ptr(interp, st), V, t, rs)
            else:
                itf.apply_repeated_rules(ptr(interp, st), t, rs)
        except CFault as e:
            _report(c, False, "rules %s (%s pass): memory-unsafe access (%s)" % (ptargets, "volume" if vol else "plain", e), "parameter rule unsafe",
                    dict(kind="param_rules", rules=[list(x) for x in ptargets]))
            continue
        _report(c, s_and(*[st[i] == sv[sp] for i, sp in enumerate(order)]),
                "rules that assign to parameters only (%s) leave all species counts unchanged in the %s rule pass" % (ptargets, "volume-aware" if vol else "plain"),
                "parameter rule writes species (%s)" % ("volume" if vol else "plain"), dict(kind="param_rules", rules=[list(x) for x in ptargets]))


def massaction_job(interp, c, case):
    """case = (reactants, products, delay_reactants, delay_products)"""
    reactants, products, dre, dpr = case
    T = interp.load("bioscrape.types")
    S = interp.load("bioscrape.simulator")
    k = c.real("k", lo=0, lo_strict=True)
    V = c.real("V", lo=0, lo_strict=True)
    state = {sp: c.int("s_" + sp, lo=0) for sp in SPECIES}
    if dre or dpr:
        rx = (list(reactants), list(products), "massaction", {"k": "k1"}, "fixed", list(dre), list(dpr), {"delay": "tau"})
        params = [("k1", k), ("tau", c.real("tau", lo=0, lo_strict=True))]
    else:
        rx = (list(reactants), list(products), "massaction", {"k": "k1"})
        params = [("k1", k)]
    M = T.ns["Model"](species=list(SPECIES), reactions=[rx], parameters=params)
    itf = S.ns["ModelCSimInterface"](M)
    sv = np.array([state[sp] for sp in M.get_species_list()], dtype=object)
    order = M.get_species_list()
    U, D = M.update_array, M.delay_update_array
    tag = "%s -> %s (delayed: %s -> %s)" % ("+".join(reactants) or "0", "+".join(products) or "0",
                                             "+".join(dre) or "-", "+".join(dpr) or "-")
    rp = dict(kind="massaction", reactants=list(reactants), products=list(products), dre=list(dre), dpr=list(dpr))
    syms = dict(k=k, V=V, **{"s_" + s: v for s, v in state.items()})
    for mode in ("stochastic", "stochastic_volume"):
        dest = np.zeros(1, dtype=object)
        if mode == "stochastic":
            itf.compute_stochastic_propensities(ptr(interp, sv.copy()), ptr(interp, dest), 0)
        else:
            itf.compute_stochastic_volume_propensities(ptr(interp, sv.copy()), ptr(interp, dest), V, 0)
        a = dest[0]
        _report(c, a >= 0, "%s [%s]: propensity is non-negative" % (tag, mode), "massaction negative propensity", rp, syms)
        # simulators without delay support apply immediate + delayed stoichiometry at the firing time
        net_ok = s_and(*[sv[i] + U[i, 0] + D[i, 0] >= 0 for i in range(len(order))])
        sig = "massaction net update goes negative: delayed reactants not required by the propensity" if dre else \
            "massaction net update goes negative"
        _report(c, s_implies(a > 0, net_ok),
                "%s [%s]: a positive propensity implies the net update (immediate + delayed) keeps all counts >= 0" % (tag, mode),
                sig, dict(rp, mode=mode, sim="plain"), syms)
        # delay-capable simulators apply the immediate part at the firing time
        imm_ok = s_and(*[sv[i] + U[i, 0] >= 0 for i in range(len(order))])
        _report(c, s_implies(a > 0, imm_ok),
                "%s [%s]: a positive propensity implies the immediate update keeps all counts >= 0" % (tag, mode),
                "massaction immediate update goes negative", dict(rp, mode=mode, sim="delay"), syms)


class _StubModel:
    _pyxsym_duck = True
    initialized = True

    def __init__(self, props, U, D, x0, params):
        self._p = CVector(props)
        self._d = CVector([None] * len(props))
        self._r = CVector()
        self.U, self.D, self.x0, self.params = U, D, x0, params

    def py_initialize(self):
        pass

    def get_c_propensities(self):
        return VecPtr(self._p)

    def get_c_delays(self):
        return VecPtr(self._d)

    def get_c_repeat_rules(self):
        return VecPtr(self._r)

    def get_update_array(self):
        return self.U

    def get_delay_update_array(self):
        return self.D

    def get_species_values(self):
        return self.x0

    def get_params_values(self):
        return self.params


class _AnyPropensity:
    """arbitrary rate law: any real value (also negative), any dependence on the state"""
    _pyxsym_duck = True

    def __init__(self, c, j):
        self.c, self.j = c, j
        self.values = {}          # mode -> the value returned last

    def get_stochastic_propensity(self, state, params, t):
        self.values["stochastic"] = self.c.fresh_real("raw%d" % self.j)
        return self.values["stochastic"]

    def get_stochastic_volume_propensity(self, state, params, V, t):
        self.values["stochastic_volume"] = self.c.fresh_real("rawv%d" % self.j)
        return self.values["stochastic_volume"]

    def get_propensity(self, state, params, t):
        return self.c.fresh_real("rawd%d" % self.j)

    def get_volume_propensity(self, state, params, V, t):
        return self.c.fresh_real("rawdv%d" % self.j)


def safe_job(interp, c, case, aspect="safety"):
    """aspect = safety (C06: no firing without the full complement) | liveness (C01: with the full complement present the
    safe interface passes the rate law's own value through unchanged)"""
    S_, R_, lo, hi = case
    S = interp.load("bioscrape.simulator")
    U = sym_array(c, "U", (S_, R_), "int", lo=lo, hi=hi)
    D = sym_array(c, "D", (S_, R_), "int", lo=lo, hi=hi)
    x = sym_array(c, "x", S_, "int", lo=0)
    V = c.real("V", lo=0, lo_strict=True)
    props = [_AnyPropensity(c, j) for j in range(R_)]
    M = _StubModel(props, U, D, x.copy(), np.array([c.real("p0")], dtype=object))
    try:
        itf = S.ns["SafeModelCSimInterface"](M)
    except CFault as e:
        _report(c, False, "safe interface: memory-unsafe access while building the input table: %s" % e, "safe table unsafe access")
        return
    for mode in ("stochastic", "stochastic_volume"):
        dest = sym_array(c, "dest_" + mode, R_, "real")
        try:
            if mode == "stochastic":
                itf.compute_stochastic_propensities(ptr(interp, x.copy()), ptr(interp, dest), 0)
            else:
                itf.compute_stochastic_volume_propensities(ptr(interp, x.copy()), ptr(interp, dest), V, 0)
        except CFault as e:
            _report(c, False, "safe interface [%s]: memory-unsafe access: %s" % (mode, e), "safe scan unsafe access")
            return
        for j in range(R_):
            a = dest[j]
            conds = [a >= 0]
            for i in range(S_):
                # full complement: what the reaction removes now, and in total once its delayed part is applied
                conds.append(s_implies(a > 0, s_and(x[i] + U[i, j] >= 0, x[i] + U[i, j] + D[i, j] >= 0)))
            if aspect == "liveness":
                raw = props[j].values.get(mode)
                enough = s_and(*[x[i] >= s_max(-U[i, j], 0) + s_max(-D[i, j], 0) for i in range(S_)])
                if raw is None:
                    # the rate law was not even evaluated: the interface decided that a reactant is missing
                    raw = None
                    cond_ = s_not(enough)
                else:
                    cond_ = s_implies(s_and(enough, raw >= 0), a == raw)
                if True:
                    _report(c, cond_,
                            "safe mode [%s]: when every species reaction %d consumes (now or after its delay) is present in full, its propensity "
                            "is the rate law's own value" % (mode, j), "safe mode zeroes a reaction that has its reactants",
                            rp=dict(kind="safe_block", S=S_, R=R_, mode=mode, rxn=j, liveness=True),
                            syms=dict([("U_%d_%d" % (i_, j_), U[i_, j_]) for i_ in range(S_) for j_ in range(R_)]
                                      + [("D_%d_%d" % (i_, j_), D[i_, j_]) for i_ in range(S_) for j_ in range(R_)]
                                      + [("x_%d" % i_, x[i_]) for i_ in range(S_)] + [("V", V)]))
                continue
            _report(c, s_and(*conds),
                    "safe mode [%s]: whatever the rate law returns, reaction %d gets a positive propensity only if every "
                    "species it consumes (immediately or after its delay) is present in full" % (mode, j),
                    "safe mode lets a reaction fire without its reactants",
                    rp=dict(kind="safe_block", S=S_, R=R_, mode=mode, rxn=j),
                    syms=dict([("U_%d_%d" % (i_, j_), U[i_, j_]) for i_ in range(S_) for j_ in range(R_)]
                              + [("D_%d_%d" % (i_, j_), D[i_, j_]) for i_ in range(S_) for j_ in range(R_)]
                              + [("x_%d" % i_, x[i_]) for i_ in range(S_)] + [("V", V)]))


def ma_cases(tier):
    out = []
    pool = SPECIES[:2] if tier == "quick" else SPECIES
    for order in range(0, 4 if tier == "quick" else 5):
        for r in itertools.combinations_with_replacement(pool, order):
            out.append((r, ("C",), (), ()))
            if order <= 2:
                out.append((r, (), (), ("B",)))
                out.append((r, ("A",), (), ("C", "C")))
    # the same reactant multiset written with its repeats apart
    out += [(("A", "B", "A"), ("C",), (), ()), (("B", "A", "B", "A"), ("C",), (), ())]
    # delayed reactants (the delayed part consumes something): expected to be the known finding
    out += [(("A",), (), ("A",), ("B",)), (("A",), (), ("B",), ()), (("A", "A"), ("C",), ("A",), ())]
    return out


def check(tier):
    from . import C05
    ck = Check("C06", "model_checking", tier)
    # the four loops
    ssa_cases = C05.cases(tier)
    for cse in ssa_cases:
        ck.add("ssa-step/S%dR%dT%d/ci%d" % cse, "harness.C05", "step_job", dict(cases=[cse], facets=["init", "feasible", "absorbing", "invariant"]))
    sizes = [(2, 2, 2, 2)] if tier == "quick" else [(2, 2, 2, 2), (2, 2, 3, 3), (3, 2, 3, 2)]
    for (S, R, T, C) in sizes:
        for ci in range(T):
            for start in range(C):
                ck.add("delay-step/S%dR%dT%dC%d/ci%d/s%d" % (S, R, T, C, ci, start), "harness.steps", "delay_step",
                       dict(cases=[(S, R, T, ci, C, start)], facets=FACETS))
                ck.add("dv-step/S%dR%dT%dC%d/ci%d/s%d" % (S, R, T, C, ci, start), "harness.steps", "delay_volume_step",
                       dict(cases=[(S, R, T, ci, C, start)], facets=FACETS))
    vs = [(2, 2, 2), (2, 2, 3)] if tier == "quick" else [(2, 2, 2), (2, 2, 3), (3, 3, 3), (2, 3, 4)]
    for (S, R, T) in vs:
        for ci in range(T):
            ck.add("volume-step/S%dR%dT%d/ci%d" % (S, R, T, ci), "harness.steps", "volume_step", dict(cases=[(S, R, T, ci)], facets=FACETS))
    mc = ma_cases(tier)
    n = 6
    k = max(1, (len(mc) + n - 1) // n)
    for i in range(0, len(mc), k):
        ck.add("massaction/%d" % (i // k), "harness.C06", "massaction_job", dict(cases=mc[i:i + k]))
    ck.add("parameter-rules", "harness.C06", "param_rules_job",
           dict(cases=[((("assignment", "q"),),), ((("ode", "r"),),), ((("assignment-dt", "k"),),), ((("assignment", "r"), ("ode", "q"), ("assignment-dt", "q")),)]))
    safe = [(1, 1, -3, 3), (2, 1, -2, 2), (1, 2, -2, 2)] + ([(2, 2, -1, 1)] if tier == "thorough" else [])
    for cse in safe:
        ck.add("safe/S%dR%d" % cse[:2], "harness.C06", "safe_job", dict(cases=[cse]), max_paths=200000)
    ck.bounds = dict(species="<= 3", reactions="<= 3", time_points="<= 4", queue_slots="2..3",
                     stoichiometry="integers in [-3,3]", massaction_orders="0..%d" % (3 if tier == "quick" else 4),
                     loops="one iteration of each of the four event loops from an arbitrary pre-state (inductive)")
    ck.assumptions = [
        "abstract interface in the loop steps: arbitrary non-negative propensities; in the safe-mode job the rate law is an "
        "arbitrary real-valued function (also negative) and the stoichiometry is symbolic",
        "delayed REACTANTS of delay-capable simulators are consumed at delivery time; whether they are still present then "
        "is outside the claim (the property excludes it for non-safe mode); ties of measure zero are excluded",
        "integrality and conservation laws follow by induction from 'each step adds an integer combination of stoichiometry "
        "columns' (x' - x is 0, a column of reaction j with a_j > 0, or the queued deliveries' delayed columns)",
    ]
    mut = [
        ("safe-requirement-off-by-one", dict(module="bioscrape.simulator",
                                            old="if state[self.reaction_input_indices[self.rxn_ind, self.s_ind, 0]] < self.reaction_input_indices[self.rxn_ind, self.s_ind, 1]:\n                    propensity_destination[self.rxn_ind] = 0\n                    self.prop_is_0 = 1\n                self.s_ind+=1\n            if self.prop_is_0 == 0:\n                propensity_destination[self.rxn_ind] = (<Propensity> (self.c_propensities[0][self.rxn_ind]) ).get_stochastic_propensity(",
                                            new="if state[self.reaction_input_indices[self.rxn_ind, self.s_ind, 0]] < self.reaction_input_indices[self.rxn_ind, self.s_ind, 1] - 1:\n                    propensity_destination[self.rxn_ind] = 0\n                    self.prop_is_0 = 1\n                self.s_ind+=1\n            if self.prop_is_0 == 0:\n                propensity_destination[self.rxn_ind] = (<Propensity> (self.c_propensities[0][self.rxn_ind]) ).get_stochastic_propensity("),
         "safe"),
        ("safe-ignores-delayed-consumption", dict(module="bioscrape.simulator",
                                                 old="if (self.update_array[self.s_ind, self.rxn_ind] < 0) or (self.delay_update_array[self.s_ind, self.rxn_ind] < 0):",
                                                 new="if (self.update_array[self.s_ind, self.rxn_ind] < 0):"), "safe"),
        ("bimolecular-same-species-no-clamp", dict(module="bioscrape.types",
                                                  old="return params[self.rate_index]*state[self.s1_index]*max(state[self.s1_index]-1, 0)\n",
                                                  new="return params[self.rate_index]*state[self.s1_index]*state[self.s1_index]\n"), "ma"),
    ]
    for name, m, which in mut:
        if which == "safe":
            ck.add_mutant(name, m, "safe", "harness.C06", "safe_job", dict(cases=[(2, 1, -2, 2), (1, 1, -3, 3)]))
        else:
            ck.add_mutant(name, m, "ma", "harness.C06", "massaction_job", dict(cases=[x for x in mc if len(x[0]) >= 2 and len(set(x[0])) < len(x[0])][:8] + mc[:6]))
    ck.oracle_selftest = [{'kind': 'ssa'}, {'kind': 'delay'}]
    ck.validate = ['delay_ssa', 'ssa']
    ck.run()
    return ck.finish(replay=REPLAY)
