"""C16 - built-in priors are the log-densities they are named after.

Real code executed symbolically: PIDInterface.__init__, check_prior, the seven *_prior methods and
DeterministicInference/StochasticInference.get_likelihood_function (non-finite test), from
bioscrape/pid_interfaces.py.
"""
from fractions import Fraction

from .common import Check, model_env
from pyxsym.sym import (Sym, is_sym, s_exp, s_log, s_sqrt, sym_pow, s_and, s_or, s_not, PI, ite, Unsupported)
from pyxsym import sym as _sym

REPLAY = ("replay_drivers.C16", "replay")
FAMILIES = ["uniform", "gaussian", "exponential", "gamma", "beta", "log-uniform", "log-gaussian"]


class _StubModel:
    def get_parameter_dictionary(self):
        return {"p0": 1.0, "p1": 1.0, "p2": 1.0}


def _hyper(c, fam, i, shape):
    """symbolic hyper-parameters in their documented ranges; shape: 'sym' or (int, int)"""
    n = lambda s: "%s%d" % (s, i)
    if fam == "uniform":
        a = c.real(n("a"))
        b = c.real(n("b"))
        c.assume(a < b)
        return [a, b]
    if fam == "log-uniform":
        a = c.real(n("a"), lo=0, lo_strict=True)
        b = c.real(n("b"))
        c.assume(a < b)
        return [a, b]
    if fam in ("gaussian", "log-gaussian"):
        return [c.real(n("mu")), c.real(n("sigma"), lo=0, lo_strict=True)]
    if fam == "exponential":
        return [c.real(n("lam"), lo=0, lo_strict=True)]
    if fam == "gamma":
        al = c.real(n("alpha"), lo=0, lo_strict=True) if shape == "sym" else shape[0]
        return [al, c.real(n("beta"), lo=0, lo_strict=True)]
    if fam == "beta":
        if shape == "sym":
            return [c.real(n("alpha"), lo=0, lo_strict=True), c.real(n("beta"), lo=0, lo_strict=True)]
        return [shape[0], shape[1]]
    raise ValueError(fam)


def _gamma_fn(a):
    from pyxsym.npshim import _Special
    return _Special().gamma(a)


def _beta_fn(a, b):
    from pyxsym.npshim import _Special
    return _Special().beta(a, b)


def density(fam, h, x):
    """(support condition, density, boundary condition excluded from the claim)"""
    pi = Sym(PI)
    if fam == "uniform":
        a, b = h
        return s_and(x >= a, x <= b), 1 / (b - a), s_or(x == a, x == b)
    if fam == "gaussian":
        mu, sg = h
        return True, s_exp(-((x - mu) * (x - mu)) / (2 * sg * sg)) / (sg * s_sqrt(2 * pi)), False
    if fam == "exponential":
        lam, = h
        return x >= 0, lam * s_exp(-lam * x), x == 0
    if fam == "gamma":
        al, be = h
        return x > 0, sym_pow(be, al) / _gamma_fn(al) * sym_pow(x, al - 1) * s_exp(-be * x), x == 0
    if fam == "beta":
        al, be = h
        return s_and(x > 0, x < 1), sym_pow(x, al - 1) * sym_pow(1 - x, be - 1) / _beta_fn(al, be), \
            s_or(x == 0, x == 1)
    if fam == "log-uniform":
        a, b = h
        return s_and(x >= a, x <= b), 1 / (x * (s_log(b) - s_log(a))), s_or(x == a, x == b)
    if fam == "log-gaussian":
        mu, sg = h
        lx = s_log(x)
        return x > 0, s_exp(-((lx - mu) * (lx - mu)) / (2 * sg * sg)) / (x * sg * s_sqrt(2 * pi)), x == 0
    raise ValueError(fam)


def _finite(v):
    if is_sym(v):
        return True
    if isinstance(v, float):
        return v == v and v not in (float("inf"), float("-inf"))
    return True


def prior_job(interp, c, case):
    """case = (families tuple, shapes tuple, positive flags tuple, region)
    region: 'inside' (all in support) or index k of the parameter that is outside its support."""
    fams, shapes, positives, region = case
    P = interp.load("bioscrape.pid_interfaces")
    xs, hs, prior = [], [], {}
    syms = {}
    for i, fam in enumerate(fams):
        x = c.real("x%d" % i)
        h = _hyper(c, fam, i, shapes[i])
        xs.append(x)
        hs.append(h)
        prior["p%d" % i] = [fam] + list(h) + (["positive"] if positives[i] else [])
        syms["x%d" % i] = x
        for j, hv in enumerate(h):
            if is_sym(hv):
                syms["h%d_%d" % (i, j)] = hv
    dens = [density(f, h, x) for f, h, x in zip(fams, hs, xs)]
    insup = []
    for i, (sup, d, bnd) in enumerate(dens):
        cond = sup if not positives[i] else (s_and(sup, xs[i] >= 0) if sup is not True else xs[i] >= 0)
        insup.append(cond)
        if bnd is not False:
            c.assume(s_not(bnd))           # measure-zero boundary points are not part of the claim
    if region == "inside":
        for cond in insup:
            if cond is not True:
                c.assume(cond)
    else:
        for i, cond in enumerate(insup):
            if i == region:
                c.assume(s_not(cond))
            elif cond is not True:
                c.assume(cond)
    # the prior dictionary need not list the parameters in the order of the parameter vector
    prior = dict(reversed(list(prior.items())))
    # the library itself builds several interfaces from one prior dictionary (InferenceSetup, then the sampler set-up): an earlier interface
    # over the same dictionary object must leave it - and so every later interface - as it was
    snapshot = {k_: list(v_) for k_, v_ in prior.items()}
    try:
        P.ns["PIDInterface"](["p%d" % i for i in range(len(fams))], _StubModel(), prior)
    except (ValueError, ZeroDivisionError, TypeError):
        pass
    pid = P.ns["PIDInterface"](["p%d" % i for i in range(len(fams))], _StubModel(), prior)
    tag = "+".join("%s%s%s" % (f, "" if shapes[i] == "sym" else list(shapes[i]), "/positive" if positives[i] else "")
                   for i, f in enumerate(fams))
    rp = dict(fams=list(fams), shapes=[s if s == "sym" else list(s) for s in shapes], positives=list(positives),
              region=region)
    same = list(prior) == list(snapshot) and all(len(prior[k_]) == len(snapshot[k_]) and all(a_ is b_ or (not is_sym(a_) and a_ == b_) for a_, b_ in zip(prior[k_], snapshot[k_]))
                                                 for k_ in snapshot)
    _report(c, same, "%s: building interfaces leaves the caller's prior dictionary as it was (now %s)" % (
        "+".join(fams), {k_: [str(x_)[:12] for x_ in v_] for k_, v_ in prior.items()}), "prior dictionary modified by the interface", dict(
        fams=list(fams), shapes=[s_ if s_ == "sym" else list(s_) for s_ in shapes], positives=list(positives), region=region), syms)
    try:
        lp = pid.check_prior({"p%d" % i: x for i, x in enumerate(xs)})
    except (ValueError, ZeroDivisionError, TypeError) as e:
        _report(c, False, "%s [%s]: check_prior raised %s" % (tag, region, type(e).__name__),
                "%s raises %s" % (tag, type(e).__name__), rp, syms)
        return
    if region == "inside":
        want = 0
        for sup, d, bnd in dens:
            want = want + s_log(d)
        if not _finite(lp):
            _report(c, False, "%s: log-prior inside the support is %r, not the log-density" % (tag, lp),
                    "%s inside-support value" % tag, rp, syms)
        else:
            _report(c, lp == want, "%s: log-prior equals the sum of log-densities inside the support" % tag,
                    "%s inside-support value" % tag, rp, syms)
    else:
        if _finite(lp):
            _report(c, False, "%s: finite log-prior %s for p%d outside its support" % (tag, "", region),
                    "%s finite outside support (param %d)" % (tag, region), rp, syms)
        else:
            c.prove(True, "%s: rejected outside support (param %d)" % (tag, region))


def _prove_log_sum(c, lp, want, dens):
    return lp == want


def _report(c, cond, label, sig, rp, syms):
    ok = c.prove(cond, label, info={"sig": sig, "what": label})
    if ok is False:
        f = c.failures[-1]
        env = model_env(c, f["model"], syms)
        f["replay"] = dict(rp, values=env)
        f["info"]["what"] = "%s at %s" % (label, env)


def wrapper_job(interp, c, case):
    """get_likelihood_function: -inf when the prior rejects, prior + likelihood otherwise."""
    cls, fam, region = case
    P = interp.load("bioscrape.pid_interfaces")
    x = c.real("x0")
    h = _hyper(c, fam, 0, (2, 2))
    sup, d, bnd = density(fam, h, x)
    if bnd is not False:
        c.assume(s_not(bnd))
    if region == "inside":
        if sup is not True:
            c.assume(sup)
    else:
        c.assume(s_not(sup))
    L = c.real("LL")
    calls = []

    class _LL:
        _pyxsym_duck = True

        def set_init_params(self, d):
            calls.append(dict(d))

        def py_log_likelihood(self):
            return L
    obj = P.ns[cls](["p0"], _StubModel(), {"p0": [fam] + list(h)})
    if cls == "DeterministicInference":
        obj.LL_det = _LL()
    else:
        obj.LL_stoch = _LL()
    r = obj.get_likelihood_function([x])
    rp = dict(kind="wrapper", cls=cls, fams=[fam], shapes=["sym"], positives=[False], region=region)
    syms = {"x0": x}
    for j, hv in enumerate(h):
        if is_sym(hv):
            syms["h0_%d" % j] = hv
    if region == "inside":
        ok = c.prove(r == s_log(d) + L if is_sym(r) else False, "%s/%s posterior = log-prior + log-likelihood" % (cls, fam),
                     info={"sig": "%s wrapper inside" % cls, "what": "%s/%s returns %r" % (cls, fam, r)})
        if ok is False:
            c.failures[-1]["replay"] = dict(rp, values=model_env(c, c.failures[-1]["model"], syms))
        ok = c.prove(len(calls) == 2 and calls[0] == {"p0": 1.0, "p1": 1.0, "p2": 1.0} and list(calls[1]) == ["p0"],
                     "%s resets parameters to defaults, then applies theta" % cls)
        if ok is False:
            c.failures[-1]["replay"] = dict(rp, values=model_env(c, c.failures[-1]["model"], syms))
    else:
        ok = c.prove(r == float("-inf") if not is_sym(r) else False, "%s/%s posterior is -inf outside the support" % (cls, fam),
                     info={"sig": "%s/%s wrapper outside" % (cls, fam), "what": "%s/%s returns %r outside support" % (cls, fam, r)})
        if ok is False:
            c.failures[-1]["replay"] = dict(rp, values=model_env(c, c.failures[-1]["model"], syms))


def cases(tier):
    out = []
    ints = [(1, 1), (2, 1), (1, 2), (2, 2), (3, 2), (2, 3), (3, 3)] if tier == "thorough" else \
        [(1, 1), (2, 1), (2, 2), (3, 3), (3, 2)]
    for fam in FAMILIES:
        shapes = ["sym"] if fam not in ("gamma", "beta") else ["sym"] + ints
        for sh in shapes:
            for pos in (False, True):
                out.append(((fam,), (sh,), (pos,), "inside"))
                if sh == "sym" and fam in ("gamma", "beta"):
                    continue       # pow(x<0, real) is NaN in C: outside-support behaviour checked on integer shapes
                if fam == "gaussian" and not pos:
                    continue
                out.append(((fam,), (sh,), (pos,), 0))
    pairs = [("uniform", "gaussian"), ("exponential", "gamma"), ("beta", "log-uniform"), ("log-gaussian", "uniform"),
             ("gamma", "beta"), ("gaussian", "exponential")]
    if tier == "thorough":
        # (log-gaussian, log-gaussian) is left out: z3 needs ~10 minutes for that single sum of two uninterpreted log/exp/sqrt terms
        pairs += [(a, b) for a in FAMILIES for b in FAMILIES if (a, b) not in pairs and (a, b) != ("log-gaussian", "log-gaussian")]
    for a, b in pairs:
        sa = (2, 2) if a in ("gamma", "beta") else "sym"
        sb = (2, 2) if b in ("gamma", "beta") else "sym"
        out.append(((a, b), (sa, sb), (False, False), "inside"))
        if b != "gaussian":
            out.append(((a, b), (sa, sb), (False, False), 1))
        out.append(((a, b), (sa, sb), (False, True), 1))
    if tier == "thorough":
        out.append((("uniform", "exponential", "beta"), ("sym", "sym", (2, 3)), (False, False, False), "inside"))
        out.append((("uniform", "exponential", "beta"), ("sym", "sym", (2, 3)), (False, False, False), 2))
        out.append((("gamma", "log-uniform", "gaussian"), ((3, 1), "sym", "sym"), (False, False, True), "inside"))
        out.append((("log-gaussian", "beta", "exponential"), ("sym", (2, 2), "sym"), (False, False, False), "inside"))
        # (a four-family vector with log-gaussian needed a single 11-minute query: left out, vectors are sums of the proven terms)
    return out


def check(tier):
    ck = Check("C16", "model_checking", tier)
    cs = cases(tier)
    n = 16
    k = max(1, (len(cs) + n - 1) // n)
    for i in range(0, len(cs), k):
        ck.add("priors/%d" % (i // k), "harness.C16", "prior_job", dict(cases=cs[i:i + k]))
    ws = [(cls, fam, reg) for cls in ("DeterministicInference", "StochasticInference")
          for fam in ("uniform", "exponential", "gaussian", "beta", "log-uniform", "log-gaussian") for reg in ("inside", "outside")
          if not (fam == "gaussian" and reg == "outside")]
    ck.add("wrappers", "harness.C16", "wrapper_job", dict(cases=ws))
    ck.bounds = dict(parameters="1..%d per vector" % (3 if tier == "thorough" else 2), families=7,
                     shape_parameters="free positive reals (pow/Gamma/Beta uninterpreted) and small integers",
                     cases=len(cs))
    ck.assumptions = [
        "reals for doubles; exp/log/sqrt/pow/Gamma/Beta are uninterpreted functions with sign/monotonicity lemmas, shared "
        "by code and oracle; pi is a constant in (3.14159, 3.1416)",
        "oracle: textbook densities with support: uniform [a,b]; normal; exponential x>=0; gamma(shape,rate) x>0; beta 0<x<1; "
        "log-uniform [a,b] in R+; log-normal x>0; boundary points of the support are excluded from the claim",
        "outside-support behaviour for gamma/beta is checked for integer shape parameters (a negative base with a real "
        "exponent is NaN in C and is not modelled)",
    ]
    mut = [
        ("gaussian-variance-not-squared", dict(module="bioscrape.pid_interfaces",
                                              old="np.exp(-0.5*(param_value - mu)**2/sigma**2)",
                                              new="np.exp(-0.5*(param_value - mu)**2/sigma)")),
        ("uniform-upper-bound-ignored", dict(module="bioscrape.pid_interfaces",
                                            old="if param_value > upper_bound or param_value < lower_bound:\n            return np.inf\n        else:\n            return np.log( 1/(upper_bound - lower_bound) )",
                                            new="if param_value < lower_bound:\n            return np.inf\n        else:\n            return np.log( 1/(upper_bound - lower_bound) )")),
        ("sum-overwritten", dict(module="bioscrape.pid_interfaces", old="lp += self.gaussian_prior(key, value)",
                                 new="lp = self.gaussian_prior(key, value)")),
        ("positive-flag-ignored", dict(module="bioscrape.pid_interfaces",
                                      old="if 'positive' in self.prior[key] and value  < 0:",
                                      new="if 'positive' in self.prior[key] and value  < -1:")),
    ]
    for name, m in mut:
        ck.add_mutant(name, m, "priors", "harness.C16", "prior_job", dict(cases=cs))
    ck.validate = ['inference']
    ck.run()
    return ck.finish(replay=REPLAY)
