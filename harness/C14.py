"""C14 - exported kinetic laws equal the model's own rate laws.

Translation validation: for each generated model the REAL Model.generate_sbml_model / sbmlutil.add_* code is executed
(interpreter for types.pyx and sbmlutil.py, real libsbml underneath); each reaction's kinetic law is then read back as
plain SBML mathematics by an independent AST evaluator over symbolic species and global parameters, and z3 decides
equality with the model's own (symbolically executed) rate for ALL states and parameter values.
"""
import re
import itertools

import numpy as np

from .common import Check, model_env
from .stubs import ptr
from pyxsym.sym import s_and, s_not, is_sym, Sym, sym_pow, s_exp, s_log, s_fabs, s_max, s_min, Unsupported
from replay_drivers.sbmlmath import evaluate, names_in, UndefinedIdentifier

REPLAY = ("replay_drivers.C14", "replay")
SPECIES = ["A", "B", "C"]


class SymOps:
    pow = staticmethod(sym_pow)
    exp = staticmethod(s_exp)
    log = staticmethod(s_log)
    abs = staticmethod(s_fabs)
    min = staticmethod(s_min)
    max = staticmethod(s_max)

    @staticmethod
    def const(x):
        from fractions import Fraction
        return Fraction(repr(float(x)))


def programs(tier):
    out = []
    pool = SPECIES[:2]
    for order in range(0, 5 if tier == "thorough" else 4):
        for r0 in itertools.combinations_with_replacement(pool, order):
            # every way of writing the same reactant multiset (repeats need not be adjacent)
            for r in sorted(set(itertools.permutations(r0))):
                for named in (True, False):
                    if tier == "quick" and order >= 3 and named and list(r) != sorted(r):
                        continue
                    out.append(("massaction", dict(reactants=list(r), products=["C"], named=named)))
    # one parameter dictionary object shared with an earlier reaction that has other reactants
    for first, r in ((["A"], ["B"]), ([], ["A", "B"]), (["A", "B"], ["A", "A"]), (["B", "B"], ["A"])):
        out.append(("massaction", dict(reactants=r, products=["C"], named=True, shared_first=first)))
    # delayed reactions: the exported law is the rate of the firing itself, whatever happens later
    for fam in ("fixed", "gaussian", "gamma"):
        for r, dre, dpr in ((["A", "A"], [], ["C"]), (["A", "B", "A"], ["B"], ["C", "C"]), (["A"], [], ["C"])):
            if tier == "quick" and fam == "gaussian" and len(r) != 2:
                continue
            out.append(("massaction", dict(reactants=r, products=[], named=(fam != "gamma"), delay=[fam, dre, dpr])))
    for pt in ("hillpositive", "hillnegative", "proportionalhillpositive", "proportionalhillnegative"):
        for named in ("roles", "n", False):
            for reactants in ([], ["A"]):
                out.append((pt, dict(reactants=reactants, products=["C"], named=named, s1="A", d="B")))
    out.append(("general", dict(reactants=["A"], products=["C"], rate="kg*A*B/(1 + A)")))
    out.append(("general", dict(reactants=["A", "A"], products=[], rate="kg*A^2 + B")))
    for rate in ("kg*exp(-A^2/4)", "30 - B^2 - -A", "-(A - kg)^2 + 40", "kg*log(A + 1) + exp(-B)", "2^-A + A^3",
                 "abs(A - B) + A/(B + 1)/2 - A*B/(A + 1)"):
        out.append(("general", dict(reactants=["A"], products=["C"], rate=rate)))
    return out


def build(T, ptype, spec, values):
    """reaction tuple + parameter list (concrete values so that libsbml can store them)"""
    params = []
    if ptype == "massaction":
        if spec["named"]:
            pd = {"k": "kf"}
            params.append(("kf", values["k"]))
        else:
            pd = {"k": values["k"]}
    elif ptype == "general":
        pd = {"rate": spec["rate"]}
        params.append(("kg", values["k"]))
    else:
        if spec["named"] == "roles":
            pd = {"k": "kf", "K": "KH", "n": "nH"}
            params += [("kf", values["k"]), ("KH", values["K"]), ("nH", values["n"])]
        elif spec["named"] == "n":
            pd = {"k": "k", "K": "K", "n": "n"}
            params += [("k", values["k"]), ("K", values["K"]), ("n", values["n"])]
        else:
            pd = {"k": values["k"], "K": values["K"], "n": values["n"]}
        pd["s1"] = spec["s1"]
        if "proportional" in ptype:
            pd["d"] = spec["d"]
    rx = (list(spec["reactants"]), list(spec["products"]), ptype, pd)
    if spec.get("delay"):
        fam, dre, dpr = spec["delay"]
        rx = rx + (fam, list(dre), list(dpr), {"fixed": {"delay": 0.5}, "gaussian": {"mean": 2.0, "std": 0.25}, "gamma": {"k": 3.0, "theta": 0.5}}[fam])
    return rx, params


def role_shape(text, M_names):
    for name, role in sorted(M_names.items(), key=lambda kv: -len(kv[0])):
        text = re.sub(r"(?<![A-Za-z0-9_])%s(?![A-Za-z0-9_])" % re.escape(name), role, text)
    return re.sub(r"\s+", "", text)


def export_job(interp, c, case):
    ptype, spec, stochastic = case
    import libsbml
    T = interp.load("bioscrape.types")
    values = {"k": 0.000123456789012, "K": 2.5000001234567, "n": 2.0}       # values with many significant digits, one of them small
    rx, params = build(T, ptype, spec, values)
    ri = 0
    rxs = [rx]
    if spec.get("shared_first") is not None:
        # an earlier mass-action reaction written with the SAME parameter dictionary object (other reactants): the reaction under test is the second
        rxs = [(list(spec["shared_first"]), ["C"], ptype, rx[3]), rx]
        ri = 1
    M = T.ns["Model"](species=list(SPECIES), reactions=rxs, parameters=params,
                      initial_condition_dict={"A": 3, "B": 4, "C": 0})
    doc, sm = M.generate_sbml_model(stochastic_model=stochastic)
    tag = "%s %s %s export" % (ptype, {k: v for k, v in spec.items() if k != "products"}, "stochastic" if stochastic else "deterministic")
    rp = dict(ptype=ptype, spec=spec, stochastic=stochastic)
    # the file written by write_sbml_model with the same options carries the same kinetic law
    import os
    import tempfile
    fd, path = tempfile.mkstemp(suffix=".xml")
    os.close(fd)
    try:
        M.write_sbml_model(path, stochastic_model=stochastic)
        fdoc = libsbml.readSBMLFromFile(path)
    finally:
        os.unlink(path)
    law_g = libsbml.formulaToL3String(sm.getReaction(ri).getKineticLaw().getMath())
    law_f = libsbml.formulaToL3String(fdoc.getModel().getReaction(ri).getKineticLaw().getMath())
    ok = c.prove(law_f == law_g, "%s: write_sbml_model writes the kinetic law of generate_sbml_model with the same options (%s / %s)" % (tag, law_f, law_g),
                 info={"sig": "write_sbml_model law differs from generate_sbml_model (%s)" % ("stochastic" if stochastic else "deterministic"),
                       "what": "%s: file law '%s', generated law '%s'" % (tag, law_f, law_g)})
    if ok is False:
        c.failures[-1]["replay"] = dict(rp, values={}, via="file")
    # the exported global parameters carry the model's own values (the laws are evaluated over them)
    mp = M.get_parameter_dictionary()
    bad_vals = []
    for p_ in sm.getListOfParameters():
        nm_ = p_.getId() if p_.getId() in mp else "_" + p_.getId()
        if nm_ in mp and float(p_.getValue()) != float(mp[nm_]):
            bad_vals.append((p_.getId(), p_.getValue(), float(mp[nm_])))
    ok = c.prove(not bad_vals, "%s: every exported global parameter has exactly the model's value (differ: %s)" % (tag, bad_vals),
                 info={"sig": "exported parameter value differs from the model's", "what": "%s: %s" % (tag, bad_vals)})
    if ok is False:
        c.failures[-1]["replay"] = dict(rp, values={}, aspect="parameter-values")
    # symbolic parameter values, shared by the model and by the document's global parameters
    psym = {}
    for name, idx in M.get_params2index().items():
        psym[name] = c.real("p_" + re.sub(r"\W", "_", name), lo=0, lo_strict=True)
        M.params_values[idx] = psym[name]
    if stochastic:
        state = {s: c.int("s_" + s, lo=0) for s in SPECIES}
    else:
        state = {s: c.real("s_" + s, lo=0) for s in SPECIES}
    syms = dict(**{"s_" + k: v for k, v in state.items()})
    env = dict(state)
    doc_params = set()
    for p in sm.getListOfParameters():
        doc_params.add(p.getId())
        mname = p.getId() if p.getId() in psym else "_" + p.getId()
        if mname in psym:
            env[p.getId()] = psym[mname]
    doc_species = {s.getId() for s in sm.getListOfSpecies()}
    r = sm.getReaction(ri)
    kl = r.getKineticLaw()
    law = kl.getMath()
    text = libsbml.formulaToL3String(law)
    pd = M.reaction_definitions[ri][3]       # parameter dict after numeric values were replaced by dummy parameters
    roles = {}
    if ptype not in ("massaction", "general"):
        roles = {str(pd["k"]): "<k>", str(pd["K"]): "<K>", str(pd["n"]): "<n>", spec["s1"]: "<s1>"}
        if "proportional" in ptype:
            roles[spec["d"]] = "<d>"
    shape = role_shape(text, roles) if roles else ptype
    sig = "%s kinetic law %s" % (ptype, shape)

    def rep(cond, label, values_from=None):
        ok = c.prove(cond, "%s: %s" % (tag, label), info={"sig": sig, "what": "%s: %s [law: %s]" % (tag, label, text)})
        if ok is False:
            f = c.failures[-1]
            f["replay"] = dict(rp, values=model_env(c, f["model"], dict(syms, **{"p:" + k: v for k, v in psym.items()})))
        return ok
    undefined = sorted(n for n in names_in(law) if n not in doc_species and n not in doc_params)
    rep(not undefined, "the kinetic law refers only to identifiers defined in the document (undefined: %s)" % undefined)
    # stoichiometries
    want_r = {s: rx[0].count(s) for s in set(rx[0])}
    want_p = {s: rx[1].count(s) for s in set(rx[1])}
    got_r = {x.getSpecies(): x.getStoichiometry() for x in r.getListOfReactants()}
    got_p = {x.getSpecies(): x.getStoichiometry() for x in r.getListOfProducts()}
    rep(got_r == want_r and got_p == want_p, "reactant and product stoichiometries equal the reaction's multiplicities")
    if undefined:
        return
    try:
        val = evaluate(law, env, SymOps)
    except (UndefinedIdentifier, ValueError) as e:
        rep(False, "the kinetic law cannot be evaluated as plain SBML mathematics: %s" % e)
        return
    prop = M.propensities[ri]
    sv = np.array([state[s] for s in M.get_species_list()], dtype=object)
    if stochastic:
        mine = prop.get_stochastic_propensity(ptr(interp, sv), ptr(interp, M.params_values), 0)
    else:
        mine = prop.get_propensity(ptr(interp, sv), ptr(interp, M.params_values), 0)
    rep(val == mine, "the kinetic law evaluates to the model's own %s rate at every state and parameter value"
        % ("stochastic" if stochastic else "deterministic"))


def check(tier):
    ck = Check("C14", "translation_validation", tier)
    progs = programs(tier)
    cs = [(pt, sp, st) for (pt, sp) in progs for st in (False, True)]
    n = 12
    k = max(1, (len(cs) + n - 1) // n)
    for i in range(0, len(cs), k):
        ck.add("export/%d" % (i // k), "harness.C14", "export_job", dict(cases=cs[i:i + k]))
    ck.extra_cov = dict(programs=len(cs))
    ck.bounds = dict(programs=len(cs), reaction_orders="0..%d" % (4 if tier == "thorough" else 3),
                     hill_parameters="named by role, named k/K/n, numeric", exports="deterministic and stochastic")
    ck.assumptions = [
        "libsbml (formula parser/printer, document model) runs natively and is trusted; the kinetic law is read as plain SBML "
        "mathematics by an independent 60-line AST evaluator, identifiers resolved against the document's species and global "
        "parameters; bioscrape annotations are ignored",
        "states >= 0 (integers for the stochastic export), parameters > 0; Hill exponent symbolic (uninterpreted pow shared)",
    ]
    mut = [
        ("massaction-exponent-dropped", dict(module="bioscrape.sbmlutil", old='                ratestring += f" * {species_id}^{stoichiometry}"',
                                            new='                ratestring += f" * {species_id}"')),
        ("stochastic-offset", dict(module="bioscrape.sbmlutil", old='                    ratestring += f" * ( {species_id} - {i} )"',
                                   new='                    ratestring += f" * ( {species_id} - {i + 1} )"')),
        ("product-stoichiometry-one", dict(module="bioscrape.sbmlutil", old="        product.setStoichiometry(stoichiometry)", new="        product.setStoichiometry(1.0)")),
    ]
    ms = [x for x in cs if x[0] == "massaction"]
    for name, m in mut:
        sub = [x for x in ms if len(x[1]["reactants"]) >= 2] + [("massaction", dict(reactants=["A"], products=["C", "C"], named=True), False)]
        ck.add_mutant(name, m, "export", "harness.C14", "export_job", dict(cases=sub))
    ck.validate = ['sbml']
    ck.run()
    return ck.finish(replay=REPLAY)
