"""Shared harness infrastructure: job runner, evidence writer, known-findings matcher,
scratch build + replay runner."""
import os
import sys
import json
import time
import fcntl
import shutil
import hashlib
import traceback
import subprocess
import multiprocessing as mp
from fractions import Fraction

VERIF = os.path.dirname(os.path.dirname(os.path.abspath(__file__)))
REPO = os.environ.get("VERIF_REPO", "/repo")
SCRATCH_ROOT = os.environ.get("VERIF_SCRATCH", "/var/tmp")
REAL_PY = "/venv/bin/python"

sys.path.insert(0, VERIF)

from pyxsym import sym as _sym                      # noqa: E402
from pyxsym.sym import (Context, Unsupported, UnwindExceeded, PathBudget, EngineSignal, Sym, SymBool,
                        is_sym, zval)              # noqa: E402
from pyxsym.interp import Interp                     # noqa: E402

EXIT_OK, EXIT_VIOLATION, EXIT_INCONCLUSIVE = 0, 1, 2


def jsonable(v):
    if isinstance(v, Fraction):
        if v.denominator == 1:
            return int(v)
        return {"frac": [v.numerator, v.denominator], "approx": float(v)}
    if isinstance(v, (Sym, SymBool)):
        return str(v)
    if isinstance(v, dict):
        return {str(k): jsonable(x) for k, x in v.items()}
    if isinstance(v, (list, tuple)):
        return [jsonable(x) for x in v]
    if isinstance(v, (int, float, str, bool)) or v is None:
        return v
    try:
        import numpy as np
        if isinstance(v, np.ndarray):
            return jsonable(v.tolist())
        if isinstance(v, np.generic):
            return v.item()
    except ImportError:
        pass
    return str(v)


def unfrac(v):
    """inverse of jsonable for numbers (used by replay drivers)."""
    if isinstance(v, dict) and "frac" in v:
        return v["frac"][0] / v["frac"][1]
    if isinstance(v, list):
        return [unfrac(x) for x in v]
    if isinstance(v, dict):
        return {k: unfrac(x) for k, x in v.items()}
    return v


def model_env(c, m, syms):
    """Concrete values of named symbolic inputs under model m."""
    return {k: jsonable(c.model_value(m, v)) for k, v in syms.items()}


# --------------------------------------------------------------------------------------
# one job = one exploration (one harness function over all its paths), run in a worker

class JobResult:
    def __init__(self, name):
        self.name = name
        self.status = "ok"         # ok | fail | inconclusive
        self.reason = ""
        self.stats = {}
        self.failures = []         # dicts: label, sig, what, replay (json spec), model
        self.proved = {}
        self.reached = {}
        self.unknowns = []
        self.samples = []
        self.encoded = {}
        self.extra = {}


_INTERP_CACHE = {}


def run_job(job):
    """job = (name, module, funcname, kwargs).  The function has signature
    f(interp, ctx, **kwargs) -> None and is executed once per path."""
    name, modname, fname, kwargs, opts = job
    res = JobResult(name)
    t0 = time.time()
    try:
        mod = __import__(modname, fromlist=["x"])
        fn = getattr(mod, fname)
        mut = opts.get("mutant")
        ckey = json.dumps(mut, sort_keys=True) if mut else ""
        interp = None if opts.get("fresh") else _INTERP_CACHE.get(ckey)
        if interp is None:
            interp = Interp(REPO)
            if mut is not None:
                _install_mutant(interp, mut)
            if not opts.get("fresh"):
                _INTERP_CACHE[ckey] = interp
        prep = getattr(mod, fname + "_prepare", None)
        shared = prep(interp, **kwargs) if prep else None
        cases = kwargs.pop("cases", None) if isinstance(kwargs, dict) and "cases" in kwargs else None
        kwargs = dict(kwargs)
        caselist = cases if cases is not None else [None]
        agg = dict(paths=0, queries=0, solver_s=0.0, proved=0, failed=0, unknown=0, infeasible=0, reach=0,
                   unwind_fail=0, x_agree=0, x_disagree=0, **{"x_no-opinion": 0}, x_solver_s=0.0)
        xc_left = [int(opts.get("cross_check_max", 60))]
        n_vacuous = 0
        for ci, case in enumerate(caselist):
            c = Context(name=name, timeout_ms=opts.get("timeout_ms", 20000),
                        max_paths=opts.get("max_paths", 20000), unwind=opts.get("unwind", 64),
                        exact=opts.get("exact", True))
            c.max_wall_s = opts.get("max_wall_s", 600)
            c.cross_check = bool(opts.get("cross_check")) or os.environ.get("VERIF_CROSS_CHECK") == "1"
            c.cross_check_left = xc_left

            def harness(cx):
                kw = dict(kwargs)
                if cases is not None:
                    kw["case"] = case
                if shared is not None:
                    kw["shared"] = shared
                fn(interp, cx, **kw)
            try:
                c.run(harness)
            finally:
                for k in agg:
                    agg[k] += c.stats.get(k, 0)
                agg["max_query_s"] = max(agg.get("max_query_s", 0.0), c.stats.get("max_query_s", 0.0))
                for l, nn in c.proved_labels.items():
                    res.proved[l] = res.proved.get(l, 0) + nn
                for l, nn in c.reach_labels.items():
                    res.reached[l] = res.reached.get(l, 0) + nn
                res.unknowns += c.unknowns
                for f in c.failures:
                    rp = f.get("replay")
                    info = f.get("info") or {}
                    res.failures.append(dict(label=f["label"], sig=info.get("sig", f["label"]),
                                             what=info.get("what", f["label"]), replay=jsonable(rp),
                                             model=str(f["model"])[:600], job=name))
            if c.stats["paths"] == 0:
                if getattr(c, "vacuous_ok", False):
                    n_vacuous += 1          # the harness declared that this case's domain may legitimately be empty
                else:
                    res.status = "inconclusive"
                    res.reason = "no feasible path (vacuous harness) in case %r" % (case,)
        agg["vacuous_cases"] = n_vacuous
        if n_vacuous and n_vacuous == len(caselist):
            res.status = "inconclusive"
            res.reason = "every case of this job has an empty domain (vacuous)"
        res.stats = agg
        res.encoded = dict(interp.encoded)
        if res.failures:
            res.status = "fail"
        elif res.unknowns:
            res.status = "inconclusive"
            res.reason = "solver unknown: %s" % res.unknowns[:2]
    except (Unsupported, UnwindExceeded, PathBudget) as e:
        res.status = "inconclusive"
        res.reason = "%s: %s" % (type(e).__name__, e)
    except EngineSignal as e:
        res.status = "inconclusive"
        res.reason = "engine signal %s: %s" % (type(e).__name__, e)
    except Exception as e:
        res.status = "inconclusive"
        res.reason = "harness error %s: %s\n%s" % (type(e).__name__, e, traceback.format_exc()[-1500:])
    if res.failures and res.status == "inconclusive":
        res.status = "fail"        # a counterexample was already found before the harness gave up
    res.stats["wall_s"] = time.time() - t0
    return res


def _install_mutant(interp, mut):
    module, old, new = mut["module"], mut["old"], mut["new"]
    count = mut.get("count", 1)

    def patch(src):
        if src.count(old) < 1:
            raise Unsupported("mutant anchor not found in %s: %r" % (module, old[:60]))
        return src.replace(old, new, count) if count else src.replace(old, new)
    interp.source_patches[module] = patch


# --------------------------------------------------------------------------------------
class Check:
    def __init__(self, pid, level, tier=None, seed=None):
        self.pid = pid
        self.level = level
        self.tier = tier or os.environ.get("VERIF_TIER", "quick")
        self.seed = int(seed if seed is not None else os.environ.get("VERIF_SEED", "0") or 0)
        self.t0 = time.time()
        self.jobs = []
        self.mutant_jobs = []
        self.results = []
        self.assumptions = []
        self.bounds = {}
        self.notes = []
        self.trusted = []
        self.samples = []
        self.traces_validated = 0
        self.oracle_selftest = []   # thorough tier: replay specs whose driver must NOT report a difference on this tree
        self.validate = []          # encoder-validation scenarios (replay_drivers/scenarios.py)
        self.validation = {}
        self.extra_cov = {}
        self.replay_fn = None       # name of replay function in the harness module
        self.harness_module = None
        self.procs = int(os.environ.get("VERIF_PROCS", "16"))

    def add(self, name, module, func, kwargs=None, **opts):
        if self.tier == "thorough":
            opts.setdefault("timeout_ms", 120000)
            opts.setdefault("cross_check", True)
        self.jobs.append((name, module, func, kwargs or {}, opts))

    def add_mutant(self, mname, mutant, name, module, func, kwargs=None, **opts):
        """Sensitivity self-test: the same job on an in-memory mutation of the source must fail."""
        opts = dict(opts)
        opts["mutant"] = mutant
        self.mutant_jobs.append((mname, (name + "#" + mname, module, func, kwargs or {}, opts)))

    def _map(self, jobs):
        if not jobs:
            return []
        if self.procs <= 1 or len(jobs) == 1:
            return [run_job(j) for j in jobs]
        with mp.get_context("fork").Pool(min(self.procs, len(jobs))) as pool:
            return pool.map(run_job, jobs, chunksize=1)

    def run(self):
        self.results = self._map(self.jobs)
        self.t_solve = time.time() - self.t0
        self.mutant_results = []
        if self.tier == "thorough" and self.mutant_jobs:
            rs = self._map([j for _, j in self.mutant_jobs])
            for (mname, _), r in zip(self.mutant_jobs, rs):
                self.mutant_results.append((mname, r.status == "fail", r.status, r.reason[:200]))
        return self.results

    # ---------------------------------------------------------------- encoder validation
    def validate_encoder(self, build):
        """Run each scenario concretely inside the interpreter over /repo's source and on the real build; compare."""
        if not self.validate:
            return []
        names = list(self.validate)
        # bounded: a changed tree may make a concrete scenario run for ever (in the interpreter as in the real build)
        pool = mp.get_context("fork").Pool(1)
        try:
            mine = pool.apply_async(_scenarios_in_interpreter, (names,)).get(timeout=int(os.environ.get("VERIF_VALIDATE_TIMEOUT", "420")))
        except mp.TimeoutError:
            pool.terminate()
            return [("encoder-validation", "the interpreter did not finish the concrete scenarios %s within the time limit" % names)]
        finally:
            pool.terminate()
            pool.join()
        verdict, r = run_replay(build, ("replay_drivers.scenarios", "replay"), {"scenarios": names}, timeout=300)
        real = (r or {}).get("outputs") if isinstance(r, dict) else None
        bad = []
        if real is None:
            return [("encoder-validation", "real build did not run the scenarios: %s %s" % (verdict, str(r)[:300]))]
        for nm in names:
            a, b = mine.get(nm), real.get(nm)
            if isinstance(a, dict) or isinstance(b, dict) or a is None or b is None:
                bad.append(("encoder-validation/" + nm, "scenario failed: interpreter %s / real build %s" % (str(a)[:300], str(b)[:300])))
                continue
            n_ok, n_bad = _compare_traces(a, b)
            self.validation[nm] = {"traces": n_ok + n_bad, "agree": n_ok}
            self.traces_validated += n_ok
            if n_bad:
                bad.append(("encoder-validation/" + nm, "interpreter and real build disagree on %d of %d traces: %s vs %s"
                            % (n_bad, n_ok + n_bad, json.dumps(a)[:300], json.dumps(b)[:300])))
        return bad

    # ---------------------------------------------------------------- finish
    def finish(self, replay=None):
        """Classify failures (replay on the real build), write evidence, print verdict lines."""
        failures = [f for r in self.results for f in r.failures]
        inconclusive = [(r.name, r.reason) for r in self.results if r.status == "inconclusive"]
        known = load_known(self.pid)
        violations, known_hits, spurious = [], {}, []
        build = None
        try:
            seen_sigs = {}
            for f in failures:
                seen_sigs.setdefault(f["sig"], []).append(f)
            for sig, fs in seen_sigs.items():
                f = fs[0]
                verdict, detail = ("reproduced", "no replay driver")
                if replay is not None and f.get("replay") is not None:
                    if build is None:
                        build = Build()
                        build.acquire()
                    verdict, detail = run_replay(build, replay, f["replay"])
                    # try a second counterexample of the same signature before giving up
                    if verdict != "reproduced":
                        for g in fs[1:3]:
                            if g.get("replay") is None:
                                continue
                            v2, d2 = run_replay(build, replay, g["replay"])
                            if v2 == "reproduced":
                                verdict, detail, f = v2, d2, g
                                break
                f["verdict"] = verdict
                f["detail"] = detail
                if verdict == "reproduced":
                    if sig in known:
                        known_hits[sig] = (known[sig], f)
                    else:
                        violations.append(f)
                elif (f.get("info") or {}).get("suspicion"):
                    # a structural suspicion (not a consequence of the property by itself): it only counts when the behavioural
                    # replay on the real build shows a violation; otherwise it is noted in the evidence and nothing more
                    self.extra_cov.setdefault("suspicions_not_confirmed", []).append(str(f.get("label", ""))[:200])
                else:
                    spurious.append(f)
            if self.oracle_selftest and replay is not None and self.tier == "thorough" and not violations:
                # the replay oracle on its own: with no obligation failed, the driver's concrete battery must agree with
                # the build too (a difference = a defect the encoding missed, or a wrong oracle: inconclusive either way)
                if build is None:
                    build = Build()
                    build.acquire()
                st = []
                for spec_ in self.oracle_selftest:
                    v_, d_ = run_replay(build, replay, spec_, timeout=900)
                    st.append({"spec": spec_, "verdict": v_})
                    if v_ != "not-reproduced":
                        inconclusive.append(("replay-oracle-selftest", "%s: %s %s" % (spec_, v_, str(d_)[:300])))
                self.extra_cov["replay_oracle_selftest"] = st
            if self.validate and os.environ.get("VERIF_NO_VALIDATE") != "1":
                if build is None:
                    build = Build()
                    build.acquire()
                t1 = time.time()
                inconclusive += self.validate_encoder(build)
                self.t_validate = time.time() - t1
        finally:
            if build is not None:
                build.release()

        exitcode = EXIT_OK
        lines = []
        for sig, (k, f) in sorted(known_hits.items()):
            lines.append("KNOWN-FINDING: property=%s %s" % (self.pid, k.get("what", sig)))
        for f in violations:
            path = write_replay(self.pid, f)
            lines.append("VIOLATION property=%s replay=%s" % (self.pid, path))
            lines.append("  what: %s" % f["what"])
            lines.append("  detail: %s" % str(f.get("detail"))[:400])
            exitcode = EXIT_VIOLATION
        if exitcode == EXIT_OK and (spurious or inconclusive):
            exitcode = EXIT_INCONCLUSIVE
        for f in spurious[:8]:
            lines.append("SPURIOUS (not reproduced on the real build, encoder/stub defect?): %s :: %s"
                         % (f["what"][:200], str(f.get("detail"))[:300]))
        for n, why in inconclusive:
            lines.append("INCONCLUSIVE %s: %s" % (n, why[:200] + (" ... " + why[-700:] if len(why) > 200 else "")))
        surv = [m for m in getattr(self, "mutant_results", []) if not m[1]]
        for m in surv:
            lines.append("NOTE mutant survived (harness weakness): %s [%s %s]" % (m[0], m[2], m[3]))
        self.write_evidence(violations, known_hits, spurious, inconclusive)
        for l in lines:
            print(l)
        tot = self.totals()
        slow = sorted(((r.stats.get("wall_s", 0), r.name) for r in self.results), reverse=True)[:3]
        mq = max([r.stats.get("max_query_s", 0.0) for r in self.results] or [0.0])
        print("  slowest jobs: %s; slowest single obligation query %.1fs (limit %.0fs, then retries); phases: solve %.1fs, replay %.1fs" %
              (", ".join("%s %.1fs" % (n, w) for w, n in slow), mq, 20.0 if self.tier == "quick" else 120.0, getattr(self, "t_solve", 0),
               time.time() - self.t0 - getattr(self, "t_solve", 0)))
        print("%s %s tier=%s jobs=%d paths=%d queries=%d proved=%d failed=%d solver=%.1fs wall=%.1fs -> exit %d"
              % (self.pid, "OK" if exitcode == 0 else ("VIOLATION" if exitcode == 1 else "INCONCLUSIVE"),
                 self.tier, len(self.results), tot["paths"], tot["queries"], tot["proved"], tot["failed"],
                 tot["solver_s"], time.time() - self.t0, exitcode))
        return exitcode

    def totals(self):
        tot = dict(paths=0, queries=0, proved=0, failed=0, solver_s=0.0, reach=0, unknown=0, x_agree=0, x_disagree=0,
                   x_solver_s=0.0, **{"x_no-opinion": 0})
        for r in self.results:
            for k in tot:
                tot[k] += r.stats.get(k, 0)
        return tot

    def write_evidence(self, violations, known_hits, spurious, inconclusive):
        tot = self.totals()
        labels = {}
        for r in self.results:
            for l, n in r.reached.items():
                labels[(r.name, l)] = n
        distinct = len(labels)
        encoded = {}
        for r in self.results:
            encoded.update(r.encoded)
        samples = list(self.samples)
        for r in self.results[:6]:
            samples.append({"job": r.name, "status": r.status, "paths": r.stats.get("paths"),
                            "queries": r.stats.get("queries"),
                            "obligations_proved": dict(list(r.proved.items())[:6])})
        for f in (violations + [v[1] for v in known_hits.values()] + spurious)[:6]:
            samples.append({"counterexample": f["what"], "sig": f["sig"], "verdict": f.get("verdict"),
                            "replay": f.get("replay"), "detail": str(f.get("detail"))[:300]})
        cov = {
            "evaluations": tot["queries"],
            "distinct_nontrivial": distinct,
            "rule": "each job is one harness explored over all feasible paths of the real source by re-execution "
                    "with a decision trail; an evaluation is one z3 query (branch feasibility, reachability "
                    "witness or negated assertion); a case is distinct+non-trivial when its (job, obligation "
                    "label) pair was reached under a satisfiable path condition (reachability witness)",
            "samples": samples[:14],
            "states": tot["paths"],
            "transitions": tot["proved"] + tot["failed"],
            "traces_validated_against_impl": self.traces_validated,
            "obligations": tot["proved"] + tot["failed"] + tot["unknown"],
            "discharged": tot["proved"],
            "programs": self.extra_cov.get("programs", len(self.results)),
            "disagreements_checked": tot["failed"],
            "explanation": "solver-based checking of the real source (pyxsym interpreter over the Cython parse "
                           "tree of /repo's working tree + z3); see DESIGN.md",
            "exhaustive": False,
            "functions_encoded": sorted("%s@%s" % (k, v) for k, v in encoded.items()),
            "bounds": self.bounds,
            "solver": "z3 %s" % _z3ver(),
            "solver_time_s": round(tot["solver_s"], 3),
            "jobs": len(self.results),
            "paths": tot["paths"],
            "queries_discharged": tot["queries"],
            "obligations_proved": tot["proved"],
            "counterexamples": tot["failed"],
            "inconclusive": [list(x) for x in inconclusive][:10],
            "known_findings_hit": sorted(known_hits),
            "spurious": len(spurious),
            "mutants": [dict(name=m[0], killed=m[1]) for m in getattr(self, "mutant_results", [])],
            "trusted_base": self.trusted,
            "notes": self.notes,
            "encoder_validation": self.validation,
            "second_solver": {"solver": "cvc5 (python wheel) on z3's SMT-LIB print of the query; first proof of each obligation label, at most 60 per job, 3 s each; %s" %
                              ("thorough tier" if self.tier == "thorough" else "off in the quick tier unless VERIF_CROSS_CHECK=1"),
                              "agree_unsat": tot["x_agree"], "disagree": tot["x_disagree"], "no_opinion_timeout_or_unknown": tot["x_no-opinion"],
                              "time_s": round(tot["x_solver_s"], 2)},
        }
        cov.update(self.extra_cov)
        ev = {
            "property_id": self.pid,
            "tier": self.tier,
            "seed": self.seed,
            "level": self.level,
            "coverage": cov,
            "assumptions": self.assumptions,
            "wall_s": round(time.time() - self.t0, 2),
            "violations": len(violations),
        }
        evdir = os.environ.get("VERIF_EVIDENCE_DIR") or os.path.join(VERIF, "evidence")     # redirected for experiments only
        os.makedirs(evdir, exist_ok=True)
        with open(os.path.join(evdir, "%s.json" % self.pid), "w") as f:
            json.dump(ev, f, indent=1, default=str)


def _scenarios_in_interpreter(names):
    from replay_drivers import scenarios as SC
    interp = Interp(REPO)

    def api(module, name):
        return interp.load(module).ns[name]
    out = {}
    for nm in names:
        c = Context(name="validate/" + nm, exact=False)
        box = {}

        def h(cx):
            box["v"] = SC.SCENARIOS[nm](api)
        try:
            c.run(h)
            out[nm] = json.loads(json.dumps(box.get("v"), default=float))
        except BaseException as e:
            out[nm] = {"error": "%s: %s" % (type(e).__name__, str(e)[:300])}
    return out


def _compare_traces(a, b):
    """top-level elements are traces; numbers agree to 1e-9 relative"""
    def close(x, y):
        if isinstance(x, list) and isinstance(y, list):
            return len(x) == len(y) and all(close(p, q) for p, q in zip(x, y))
        if isinstance(x, list) or isinstance(y, list):
            return False
        try:
            if x != x and y != y:
                return True
            return x == y or abs(x - y) <= 1e-9 * max(1.0, abs(x), abs(y))
        except TypeError:
            return False
    if not (isinstance(a, list) and isinstance(b, list)) or len(a) != len(b):
        return 0, max(len(a) if isinstance(a, list) else 1, 1)
    ok = sum(1 for p, q in zip(a, b) if close(p, q))
    return ok, len(a) - ok


def _z3ver():
    import z3
    return z3.get_version_string()


# --------------------------------------------------------------------------------------
def load_known(pid):
    out = {}
    p = os.path.join(VERIF, "known_findings.jsonl")
    if not os.path.exists(p):
        return out
    for line in open(p):
        line = line.strip()
        if not line or line.startswith("#") or line.startswith("fixed:"):
            continue
        try:
            d = json.loads(line)
        except ValueError:
            continue
        if d.get("property") == pid:
            out[d["signature"]] = d
    return out


def write_replay(pid, f):
    d = os.path.join(VERIF, "replays")
    os.makedirs(d, exist_ok=True)
    blob = json.dumps(f.get("replay"), sort_keys=True, default=str)
    h = hashlib.sha1(blob.encode()).hexdigest()[:10]
    path = os.path.join(d, "%s-%s.json" % (pid, h))
    with open(path, "w") as fh:
        json.dump({"property": pid, "what": f["what"], "sig": f["sig"], "spec": f.get("replay"),
                   "detail": f.get("detail"), "cmd": "./vf replay %s" % path}, fh, indent=1, default=str)
    return path


# --------------------------------------------------------------------------------------
# scratch build of /repo's current working tree (only for replay / encoder validation)

SRC_GLOBS = ("bioscrape", "lineage", "setup.py", "README.md", "pyproject.toml", "setup.cfg", "MANIFEST.in")


def tree_hash():
    h = hashlib.sha1()
    for root in ("bioscrape", "lineage"):
        base = os.path.join(REPO, root)
        for dp, dn, fn in sorted(os.walk(base)):
            dn.sort()
            for f in sorted(fn):
                if f.endswith((".pyx", ".pxd", ".py")):
                    p = os.path.join(dp, f)
                    h.update(p.encode())
                    h.update(open(p, "rb").read())
    h.update(open(os.path.join(REPO, "setup.py"), "rb").read())
    return h.hexdigest()[:16]


def repo_build_is_current():
    """True when each of /repo's in-place extension modules is newer than its own .pyx and than every .pxd."""
    import glob
    srcs = {"random": "bioscrape/random.pyx", "types": "bioscrape/types.pyx", "simulator": "bioscrape/simulator.pyx",
            "inference": "bioscrape/inference.pyx", "lineage": "lineage/lineage.pyx"}
    pxds = glob.glob(os.path.join(REPO, "bioscrape", "*.pxd")) + glob.glob(os.path.join(REPO, "lineage", "*.pxd"))
    newest_pxd = max([os.path.getmtime(p) for p in pxds] or [0])
    for name, src in srcs.items():
        sos = glob.glob(os.path.join(REPO, "bioscrape", name + ".*.so"))
        if len(sos) != 1:
            return False
        t = os.path.getmtime(sos[0])
        if t < os.path.getmtime(os.path.join(REPO, src)) or t < newest_pxd:
            return False
    return True


def _prune_builds(keep=None):
    """remove cached scratch builds of other source states that nobody is using (older than 10 minutes or unused)"""
    import glob
    # lock / user-count files left behind by removed builds (older than an hour: nobody is about to use them)
    for f in glob.glob(os.path.join(SCRATCH_ROOT, "bioscrape-verif-build-*.lock")) + glob.glob(os.path.join(SCRATCH_ROOT, "bioscrape-verif-build-*.users")):
        d_ = f.rsplit(".", 1)[0]
        try:
            if d_ != keep and not os.path.isdir(d_) and time.time() - os.path.getmtime(f) > 3600:
                os.remove(f)
        except OSError:
            pass
    for d in glob.glob(os.path.join(SCRATCH_ROOT, "bioscrape-verif-build-*")):
        if not os.path.isdir(d) or d == keep:
            continue
        try:
            n = int(open(d + ".users").read() or 0) if os.path.exists(d + ".users") else 0
        except ValueError:
            n = 0
        stale = time.time() - os.path.getmtime(d) > 6 * 3600
        if n <= 0 or stale:
            # a directory whose lock is held is being built (or registered) by another check right now: leave it alone
            try:
                lk = open(d + ".lock", "a")
            except OSError:
                continue
            try:
                fcntl.flock(lk, fcntl.LOCK_EX | fcntl.LOCK_NB)
            except OSError:
                lk.close()
                continue
            try:
                shutil.rmtree(d, ignore_errors=True)
                try:
                    os.remove(d + ".users")
                except OSError:
                    pass
            finally:
                fcntl.flock(lk, fcntl.LOCK_UN)
                lk.close()


class Build:
    """A build of the current working tree usable as PYTHONPATH.  Uses /repo in place when its
    .so files are newer than all sources; otherwise a flock-shared scratch build keyed by the
    hash of the sources.  The newest scratch build is kept as a cache (one directory, rebuilt whenever it is
    missing; builds for other source hashes are pruned here), so that the checks run on one tree state share one
    build; `./vf clean` or VERIF_KEEP_BUILD=0 removes it."""

    def __init__(self):
        self.path = None
        self.scratch = None
        self.lockf = None

    def acquire(self):
        if os.environ.get("VERIF_FORCE_SCRATCH") != "1" and repo_build_is_current():
            self.path = REPO
            return self.path
        key = tree_hash()
        d = os.path.join(SCRATCH_ROOT, "bioscrape-verif-build-%s" % key)
        os.makedirs(SCRATCH_ROOT, exist_ok=True)
        lock = open(d + ".lock", "w")
        fcntl.flock(lock, fcntl.LOCK_EX)
        try:
            users = d + ".users"
            n = int(open(users).read() or 0) if os.path.exists(users) else 0
            _prune_builds(keep=d)
            if not os.path.exists(os.path.join(d, ".built")):
                shutil.rmtree(d, ignore_errors=True)
                os.makedirs(d)
                for item in SRC_GLOBS:
                    s = os.path.join(REPO, item)
                    if os.path.isdir(s):
                        shutil.copytree(s, os.path.join(d, item),
                                        ignore=shutil.ignore_patterns("*.so", "*.cpp", "*.c", "__pycache__", "*.html"))
                    elif os.path.exists(s):
                        shutil.copy(s, d)
                t = time.time()
                p = subprocess.run([REAL_PY, "setup.py", "build_ext", "--inplace", "-j", "8"], cwd=d,
                                   stdout=subprocess.PIPE, stderr=subprocess.STDOUT, text=True, timeout=1500)
                if p.returncode != 0:
                    shutil.rmtree(d, ignore_errors=True)
                    raise RuntimeError("scratch build failed:\n" + p.stdout[-3000:])
                open(os.path.join(d, ".built"), "w").write("%.1f" % (time.time() - t))
            open(users, "w").write(str(n + 1))
        finally:
            fcntl.flock(lock, fcntl.LOCK_UN)
            lock.close()
        self.scratch = d
        self.path = d
        return d

    def release(self):
        if self.scratch is None:
            return
        d = self.scratch
        lock = open(d + ".lock", "w")
        fcntl.flock(lock, fcntl.LOCK_EX)
        try:
            users = d + ".users"
            n = max(0, int(open(users).read() or 1) - 1)
            open(users, "w").write(str(n))
            if n <= 0 and os.environ.get("VERIF_KEEP_BUILD", "1") == "0":
                shutil.rmtree(d, ignore_errors=True)
                for ext in (".users",):
                    try:
                        os.remove(d + ext)
                    except OSError:
                        pass
        finally:
            fcntl.flock(lock, fcntl.LOCK_UN)
            lock.close()
            try:
                if not os.path.exists(d):
                    os.remove(d + ".lock")
            except OSError:
                pass
        self.scratch = None


def run_replay(build, replay, spec, timeout=120):
    """replay = (module name, function name) of a driver run under the *real* interpreter with the
    real compiled bioscrape on PYTHONPATH.  The driver prints one JSON line
    {"reproduced": bool, "observed":..., "expected":...}."""
    mod, fn = replay
    env = dict(os.environ)
    env["PYTHONPATH"] = build.path + os.pathsep + VERIF
    env["BIOSCRAPE_VERIF"] = "1"
    code = ("import sys, json; sys.path.insert(0, %r); import %s as M; "
            "spec=json.loads(sys.stdin.read()); r=M.%s(spec); print('REPLAY-RESULT '+json.dumps(r, default=str))"
            % (VERIF, mod, fn))
    try:
        p = subprocess.run([REAL_PY, "-u", "-c", code], input=json.dumps(spec, default=str), text=True,
                           stdout=subprocess.PIPE, stderr=subprocess.PIPE, timeout=timeout, env=env,
                           cwd=SCRATCH_ROOT)
    except subprocess.TimeoutExpired:
        if isinstance(spec, dict) and spec.get("timeout_is_violation"):
            return "reproduced", {"observed": "no result within %ds" % timeout}
        return "timeout", {"observed": "replay timed out"}
    if p.returncode < 0:
        return "reproduced", {"observed": "real build died with signal %d" % (-p.returncode)}
    for line in p.stdout.splitlines():
        if line.startswith("REPLAY-RESULT "):
            r = json.loads(line[len("REPLAY-RESULT "):])
            return ("reproduced" if r.get("reproduced") else "not-reproduced"), r
    return "error", {"stderr": p.stderr[-800:], "stdout": p.stdout[-300:]}


def main_for(check_fn):
    import argparse
    ap = argparse.ArgumentParser()
    ap.add_argument("--tier", default=os.environ.get("VERIF_TIER", "quick"))
    a = ap.parse_args()
    sys.exit(check_fn(a.tier))
