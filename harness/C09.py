"""C09 - rules hold on every reported row and fire on their schedule.

 * rule kernels from types.pyx (execute_rule / execute_volume_rule gating, additive / assignment / ode operations,
   set_frequency_flag);
 * Model / LineageModel registration of rules (one C-level entry per declared rule, in order, also after a second
   initialisation) and ModelCSimInterface.apply_repeated_(volume_)rules (declaration order, interface dt);
 * event loops (plain, delay, volume): rules are an ARBITRARY map of the state; one inductive step shows that rules run
   before the propensities on the current state/time/step flag, that reported rows are the rule-updated state, that
   the step flag is raised exactly once per reported row, and that the clock equals a grid time only after that row
   is final;
 * deterministic mode: rhs_global applies the rules before the derivative; the tail of _helper_simulate restores the
   parameters and re-applies the rules to every reported row.
"""
from fractions import Fraction

import numpy as np

from .common import Check, model_env
from .stubs import install_uniform, ptr, sym_array
from pyxsym.sym import s_and, s_or, s_not, ite, is_sym, Sym, CFault
from pyxsym.values import CVector, VecPtr

REPLAY = ("replay_drivers.C09", "replay")
LOOP_FACETS = ["rules", "dt-rule", "schedule", "record", "invariant"]


def _report(c, cond, label, sig=None, rp=None, syms=None):
    ok = c.prove(cond, label, info={"sig": sig or label, "what": label})
    if ok is False:
        f = c.failures[-1]
        rp = dict(rp or {"kind": "scenario", "modes": ["stochastic", "safe", "volume", "delay", "deterministic", "lineage"]})
        if syms:
            rp["values"] = model_env(c, f["model"], syms)
            f["info"]["what"] = "%s at %s" % (label, rp["values"])
        f["replay"] = rp
    return ok


class _OpaqueTerm:
    _pyxsym_duck = True

    def __init__(self, c, name):
        self.v = c.real(name)
        self.vv = c.real(name + "_vol")
        self.calls = []

    def evaluate(self, s, p, t):
        self.calls.append(("e", [s[0], s[1]], [p[0], p[1]], t))
        return self.v

    def volume_evaluate(self, s, p, V, t):
        self.calls.append(("v", [s[0], s[1]], [p[0], p[1]], V, t))
        return self.vv


def kernel_job(interp, c, case):
    which, flag_kind = case
    T = interp.load("bioscrape.types")
    st0 = sym_array(c, "x", 3, "real")
    pv0 = sym_array(c, "p", 2, "real")
    st, pv = st0.copy(), pv0.copy()
    t = c.real("t", lo=0)
    dt = c.real("dt", lo=0, lo_strict=True)
    V = c.real("V", lo=0, lo_strict=True)
    rs = c.int("rs", lo=0, hi=1)
    if which == "additive":
        r = T.ns["AdditiveAssignmentRule"]()
        r.initialize({"equation": "C = A + B + A"}, {"A": 0, "B": 1, "C": 2}, {}, rule_frequency="repeat")
        eff = lambda: ([st0[0], st0[1], st0[0] + st0[1] + st0[0]], list(pv0))
    else:
        cls = {"assign_s": "GeneralAssignmentRule", "assign_p": "GeneralAssignmentRule", "ode_s": "GeneralODERule",
               "ode_p": "GeneralODERule"}[which]
        r = T.ns[cls]()
        term = _OpaqueTerm(c, "rhs")
        r.rhs = term
        r.dest_index = 1
        r.param_flag = 1 if which.endswith("_p") else 0
    fl = {"repeat": -1, "dt": -2, "time": c.real("tfire", lo=0)}[flag_kind]
    r.frequency_flag = fl
    for vol in (False, True):
        st[...] = st0
        pv[...] = pv0
        if which != "additive":
            term.calls.clear()
        if vol:
            r.execute_volume_rule(ptr(interp, st), ptr(interp, pv), V, t, dt, rs)
        else:
            r.execute_rule(ptr(interp, st), ptr(interp, pv), t, dt, rs)
        if flag_kind == "repeat":
            fires = True
        elif flag_kind == "dt":
            fires = rs == 1
        else:
            fires = (fl == t)
        if which == "additive":
            es, ep = eff()
        else:
            val = term.vv if vol else term.v
            es, ep = list(st0), list(pv0)
            if which == "assign_s":
                es[1] = val
            elif which == "assign_p":
                ep[1] = val
            elif which == "ode_s":
                es[1] = st0[1] + val * dt
            else:
                ep[1] = pv0[1] + val * dt
        olds = list(st0) + list(pv0)
        news = es + ep
        if isinstance(fires, bool):
            want = news if fires else olds
        else:
            want = [ite(fires, a, b) for a, b in zip(news, olds)]
        got = list(st) + list(pv)
        _report(c, s_and(*[g == w for g, w in zip(got, want)]),
                "%s rule (%s, %s form): fires iff repeated, or time == scheduled time, or (step flag and frequency dt); "
                "writes only its target; ode adds rhs*dt" % (which, flag_kind, "volume" if vol else "plain"),
                "rule kernel %s" % which, dict(kind="kernel", which=which, flag=flag_kind, vol=vol),
                dict(t=t, dt=dt, V=V, rs=rs, x0=st0[0], x1=st0[1], x2=st0[2], p0=pv0[0], p1=pv0[1],
                     **({"tfire": fl} if flag_kind == "time" else {})))
    if which == "additive" and flag_kind == "repeat":
        for freq, val in (("start", 0), ("repeat", -1), ("repeated", -1), ("dt", -2), ("2.5", Fraction(5, 2)), (3, 3)):
            r2 = T.ns["AdditiveAssignmentRule"]()
            r2.set_frequency_flag(freq)
            _report(c, r2.frequency_flag == val, "set_frequency_flag(%r) == %s" % (freq, val))
        try:
            T.ns["AdditiveAssignmentRule"]().set_frequency_flag("-3")
            _report(c, False, "negative firing time must be rejected")
        except ValueError:
            c.prove(True, "negative firing time rejected")


RULESETS = [
    # (species, parameters, rules [(type, dict, freq)], python effect in declaration order)
    (["A", "B", "C"], {"k": None, "q": None},
     [("assignment", {"equation": "B = k*A + 1"}, "repeated"), ("additive", {"equation": "C = A + B"}, "repeated"),
      ("assignment", {"equation": "q = C^2"}, "repeated")]),
    (["A", "B", "C"], {"k": None, "q": None},
     [("additive", {"equation": "C = A + B"}, "repeated"), ("assignment", {"equation": "B = k*A + 1"}, "repeated"),
      ("ode", {"equation": "k*C", "target": "A"}, "dt")]),
    (["A", "B", "C"], {"k": None, "q": None},
     [("assignment", {"equation": "A = q + t"}, "dt"), ("assignment", {"equation": "B = A*volume"}, "repeated"),
      ("assignment", {"equation": "_q = B - 1"}, "start")]),
    # frequency left to its default (None = declared as a 2-tuple): "repeated" for assignments, one Euler step per dt for ode rules
    (["A", "B", "C"], {"k": None, "q": None},
     [("additive", {"equation": "C = A + B"}, None), ("ode", {"equation": "k*C", "target": "A"}, None)]),
    # a parameter target whose right-hand side mentions the volume and the time; a species rule that reads it
    (["A", "B", "C"], {"k": None, "q": None},
     [("assignment", {"equation": "q = k*volume + t"}, "repeated"), ("assignment", {"equation": "B = q + A"}, "repeated"),
      ("assignment", {"equation": "k = A*volume"}, "dt")]),
    # additive rules whose target is one of their own sources (accumulators)
    (["A", "B", "C"], {"k": None, "q": None},
     [("additive", {"equation": "C = C + A"}, "dt"), ("additive", {"equation": "B = A + B"}, "repeated"), ("additive", {"equation": "A = B + A + A"}, "dt")]),
]


def _apply_oracle(rules, sp, pa, t, dt, rs, V):
    """independent evaluation of the rule set above, in declaration order"""
    sp, pa = dict(sp), dict(pa)
    for typ, d, freq in rules:
        if freq is None:
            freq = "dt" if typ == "ode" else "repeated"
        if freq in ("repeated", "repeat"):
            fires = True
        elif freq == "dt":
            fires = rs == 1
        elif freq == "start":
            fires = t == 0
        eq = d["equation"]
        env = dict(sp)
        env.update(pa)
        env.update(t=t, volume=(V if V is not None else 1))
        if typ == "ode":
            tgt = d["target"]
            rhs = eval(eq.replace("^", "**"), {}, env)
            new = (sp[tgt] if tgt in sp else pa[tgt]) + rhs * dt
        else:
            lhs, rhs_s = [x.strip() for x in eq.split("=")]
            tgt = lhs.lstrip("_")
            rhs = eval(rhs_s.replace("^", "**"), {}, env)
            new = rhs
        cur = sp[tgt] if tgt in sp else pa[tgt]
        val = new if fires is True else ite(fires, new, cur)
        if tgt in sp:
            sp[tgt] = val
        else:
            pa[tgt] = val
    return sp, pa


def interface_job(interp, c, case):
    idx, model_kind, n_init = case
    T = interp.load("bioscrape.types")
    S = interp.load("bioscrape.simulator")
    species, params, rules = RULESETS[idx]
    pvals = {p: c.real("p_" + p) for p in params}
    svals = {s: c.real("s_" + s) for s in species}
    rl = [(ty, dict(d), fr) if fr is not None else (ty, dict(d)) for ty, d, fr in rules]
    if model_kind == "lineage":
        Lm = interp.load("bioscrape.lineage")
        M = Lm.ns["LineageModel"](species=list(species), parameters=list(pvals.items()), rules=rl,
                                  initial_condition_dict=dict(svals))
    else:
        M = T.ns["Model"](species=list(species), parameters=list(pvals.items()), rules=rl,
                          initial_condition_dict=dict(svals))
    for _ in range(n_init - 1):
        M.py_initialize()
    tag = "%s model, rule set %d, initialised %d time(s)" % (model_kind, idx, n_init)
    names = [r.__dict__["_cls"].name for r in M.c_repeat_rules]
    want = [{"assignment": "GeneralAssignmentRule", "additive": "AdditiveAssignmentRule", "ode": "GeneralODERule"}[ty]
            for ty, d, fr in rules]
    _report(c, names == want and all(a is b for a, b in zip(M.c_repeat_rules, M.repeat_rules)),
            "%s: the C-level rule vector holds exactly one entry per declared rule, in declaration order (has %s)" % (tag, names),
            "rule registered %s in %s model" % ("twice" if len(names) == 2 * len(want) else "wrongly", model_kind),
            {"kind": "scenario", "modes": ["lineage"] if model_kind == "lineage" else ["stochastic"], "n_init": n_init})
    itf = S.ns["ModelCSimInterface"](M)
    dt = c.real("dt", lo=0, lo_strict=True)
    itf.py_set_dt(dt)
    t = c.real("t", lo=0)
    rs = c.int("rs", lo=0, hi=1)
    V = c.real("V", lo=0, lo_strict=True)
    order = M.get_species_list()
    porder = M.get_param_list()
    for vol in (False, True):
        st = np.array([svals[s] for s in order], dtype=object)
        M.params_values[...] = np.array([pvals[p] for p in porder], dtype=object)
        if vol:
            itf.apply_repeated_volume_rules(ptr(interp, st), V, t, rs)
        else:
            itf.apply_repeated_rules(ptr(interp, st), t, rs)
        if names != want:
            continue
        es, ep = _apply_oracle(rules, svals, pvals, t, dt, rs, V if vol else None)
        conds = [st[i] == es[s] for i, s in enumerate(order)]
        conds += [M.params_values[i] == ep[p] for i, p in enumerate(porder)]
        _report(c, s_and(*conds), "%s: apply_repeated_%srules applies each rule once, in declaration order, with the "
                                  "interface's dt, later rules seeing earlier results" % (tag, "volume_" if vol else ""),
                "rule application order/values (%s)" % model_kind,
                dict(kind="interface", idx=idx, model=model_kind, n_init=n_init, vol=vol),
                dict(t=t, dt=dt, V=V, rs=rs, **{"s_" + k: v for k, v in svals.items()}, **{"p_" + k: v for k, v in pvals.items()}))


def deterministic_job(interp, c, case):
    S_, R_, T_ = case
    S = interp.load("bioscrape.simulator")
    from .loops import AbsSim, make_grid, make_stoich
    grid = make_grid(c, T_)
    U = make_stoich(c, S_, R_, "U")
    D = make_stoich(c, S_, R_, "D")
    x0 = sym_array(c, "x0", S_, "real", lo=0)
    dt = c.real("dt", lo=0, lo_strict=True)
    p0 = sym_array(c, "par", 2, "real")
    events = []

    class DetSim(AbsSim):
        def py_get_param_values(self):
            return self.params

        def py_set_param_values(self, p):
            events.append(("set_params", list(p)))
            self.params = p

        def get_number_of_rules(self):
            return 1

        def apply_repeated_rules(self, state, t, rule_step):
            events.append(("rules", [state[i] for i in range(self.S)], t, rule_step, list(self.params)))
            for i in range(self.S):
                state[i] = self.c.fresh_real("ruled")
            self.params[0] = self.c.fresh_real("rule_written_param")
            events.append(("ruled", [state[i] for i in range(self.S)]))

        def calculate_deterministic_derivative(self, x, dxdt, t):
            events.append(("deriv", [x[i] for i in range(self.S)], t))
            for i in range(self.S):
                dxdt[i] = self.c.fresh_real("dx")

        def get_num_species(self):
            return self.S

        def py_get_num_species(self):
            return self.S
    sim = DetSim(c, S_, R_, x0, U, D, grid[0], dt)
    sim.params = p0.copy()
    # --- rhs_global
    S.ns["py_set_globals"](sim)
    state = sym_array(c, "y", S_, "real")
    y0 = list(state)
    tt = c.real("tt", lo=0)
    events.clear()
    out = S.ns["rhs_global"](state, tt)
    ok = len(events) == 3 and events[0][0] == "rules" and events[2][0] == "deriv"
    _report(c, ok, "rhs_global applies the rules, then computes the derivative")
    if ok:
        q = tt / dt
        _, rx, rt, rrs, _ = events[0]
        _, ruled = events[1]
        _, dx, dtt = events[2]
        from pyxsym.sym import trunc
        _report(c, s_and(rt == tt, dtt == tt, *[rx[i] == y0[i] for i in range(S_)], *[dx[i] == ruled[i] for i in range(S_)]),
                "rhs_global: rules see the integrator's state and time; the derivative is taken at the rule-updated state")
        _report(c, (rrs == 1) == (trunc(q) == q), "rhs_global raises the step flag exactly at integer multiples of dt")
        _report(c, out is S.ns["py_global_derivative_buffer"](), "rhs_global returns the derivative buffer")
    # --- tail of _helper_simulate
    Y = sym_array(c, "Y", (T_, S_), "real")
    msg = {"ok": True}

    def odeint(f, y0_, ts, **kw):
        events.append(("odeint", f, y0_, ts, dict(kw)))
        return Y.copy(), {"message": "Integration successful." if msg["ok"] else "Excess work done"}
    S.ns["odeint"] = odeint
    simr = S.ns["DeterministicSimulator"]()
    sim.params = p0.copy()
    events.clear()
    res = simr._helper_simulate(sim, grid)
    od = [e for e in events if e[0] == "odeint"]
    _report(c, len(od) == 1 and od[0][1] is S.ns["rhs_global"] and od[0][3] is grid and
            not np.shares_memory(od[0][2], x0) and all(a is b for a, b in zip(od[0][2], x0)) and "tfirst" not in od[0][4],
            "deterministic run hands odeint the rule-aware right-hand side, a copy of the initial state and the caller's grid")
    rules_ev = [e for e in events if e[0] == "rules"]
    setp = [i for i, e in enumerate(events) if e[0] == "set_params"]
    first_rule = min([i for i, e in enumerate(events) if e[0] == "rules"] or [10 ** 6])
    ok = len(rules_ev) == T_ and len(setp) == 1 and setp[0] < first_rule
    _report(c, ok, "after a successful integration the parameters are restored once, then the rules are re-applied to each row")
    if ok:
        conds = [all(a is b for a, b in zip(events[setp[0]][1], p0))]
        for r, e in enumerate(rules_ev):
            conds += [e[2] == grid[r], e[3] is True or e[3] == 1]
            conds += [e[1][i] == Y[r, i] for i in range(S_)]
        _report(c, s_and(*conds), "row r is re-ruled at time T[r] with the step flag set, starting from the integrator's row r "
                                  "and the original parameter values")
        rr = res.simulation_result
        ruled = [e for e in events if e[0] == "ruled"]
        _report(c, s_and(*[rr[r, i] == ruled[r][1][i] for r in range(T_) for i in range(S_)]) and res.timepoints is grid,
                "the reported rows are the rule-updated integrator rows, on the caller's time axis")
    msg["ok"] = False
    simr.mxstep = 500
    events.clear()
    res = simr._helper_simulate(sim, grid)
    allnan = all(isinstance(v, float) and v != v for v in res.simulation_result.flat)
    _report(c, allnan and not [e for e in events if e[0] == "rules"],
            "a failed integration is reported as all-NaN rows, never as a partial trajectory")


def check(tier):
    from . import C05
    ck = Check("C09", "model_checking", tier)
    for which in ("additive", "assign_s", "assign_p", "ode_s", "ode_p"):
        for fk in ("repeat", "dt", "time"):
            ck.add("kernel/%s/%s" % (which, fk), "harness.C09", "kernel_job", dict(cases=[(which, fk)]))
    for idx in range(len(RULESETS)):
        for mk in ("plain", "lineage"):
            for n in (1, 2):
                ck.add("interface/%d/%s/%d" % (idx, mk, n), "harness.C09", "interface_job", dict(cases=[(idx, mk, n)]))
    ssa = C05.cases(tier)
    for cse in ssa:
        ck.add("ssa-step/S%dR%dT%d/ci%d" % cse, "harness.C05", "step_job", dict(cases=[cse], rules=True, facets=LOOP_FACETS))
    sizes = [(2, 2, 2, 2)] if tier == "quick" else [(2, 2, 2, 2), (2, 2, 3, 3)]
    for (S, R, T, C) in sizes:
        for ci in range(T):
            for start in range(C):
                ck.add("delay-step/S%dR%dT%dC%d/ci%d/s%d" % (S, R, T, C, ci, start), "harness.steps", "delay_step",
                       dict(cases=[(S, R, T, ci, C, start)], facets=LOOP_FACETS, rules=True))
    vs = [(2, 2, 3)] if tier == "quick" else [(2, 2, 3), (2, 3, 4)]
    for (S, R, T) in vs:
        for ci in range(1, T):
            ck.add("volume-step/S%dR%dT%d/ci%d" % (S, R, T, ci), "harness.steps", "volume_step",
                   dict(cases=[(S, R, T, ci)], facets=LOOP_FACETS, rules=True, aligned=True))
    ck.add("deterministic", "harness.C09", "deterministic_job", dict(cases=[(2, 2, 2)] + ([(3, 2, 3)] if tier == "thorough" else [])),
           fresh=True)
    ck.bounds = dict(rules="<= 3 chained rules (additive, assignment to species/parameter, ode; repeated/start/dt/scheduled)",
                     species="<= 3", time_points="<= 4", loops="one iteration from an arbitrary pre-state; rules an arbitrary "
                     "state map inside the loops")
    ck.assumptions = [
        "in the loop steps rules are an arbitrary map of the state (so the claims hold for every rule set); the rule classes "
        "themselves are checked separately with an opaque right-hand side and through parse_expression on three rule sets",
        "dt-rule counting: the step flag is raised exactly by iterations that report a row (plain, delay) and, for the volume "
        "simulator, when reporting grid and volume clock are aligned as py_simulate_model sets them up; the delay+volume "
        "simulator is not in the property's list for this clause",
        "scheduled times are exact elements of the grid; reals for doubles (rule_step in rhs_global: t/dt integral)",
        "odeint is a stub returning arbitrary rows with either the success or a failure message",
    ]
    mut = [
        ("rules-after-propensities", dict(module="bioscrape.simulator",
                                         old="            sim.apply_repeated_rules(<double*> c_current_state.data,current_time, rule_step)\n            sim.compute_stochastic_propensities(<double*> c_current_state.data, <double*> c_propensity.data,current_time)",
                                         new="            sim.compute_stochastic_propensities(<double*> c_current_state.data, <double*> c_propensity.data,current_time)\n            sim.apply_repeated_rules(<double*> c_current_state.data,current_time, rule_step)"), "ssa"),
        ("step-flag-stays-up", dict(module="bioscrape.simulator",
                                    old="                proposed_time = current_time + cyrandom.exponential_rv(Lambda)\n                reaction_fired = 1\n                rule_step = 0\n\n\n            #Go to the next reaction or the next timepoint",
                                    new="                proposed_time = current_time + cyrandom.exponential_rv(Lambda)\n                reaction_fired = 1\n                rule_step = 1\n\n\n            #Go to the next reaction or the next timepoint"), "ssa"),
        ("scheduled-rule-ge", dict(module="bioscrape.types", old="if self.frequency_flag == -1 or self.frequency_flag == time or (rule_step and self.frequency_flag == -2):\n            self.rule_operation(state, params, time, dt)",
                                   new="if self.frequency_flag == -1 or (self.frequency_flag >= 0 and self.frequency_flag <= time) or (rule_step and self.frequency_flag == -2):\n            self.rule_operation(state, params, time, dt)"), "kernel"),
        ("ode-rule-without-dt", dict(module="bioscrape.types", old="state[self.dest_index] = state[self.dest_index] + self.rhs.evaluate(state,params,time)*dt",
                                     new="state[self.dest_index] = state[self.dest_index] + self.rhs.evaluate(state,params,time)"), "kernel2"),
        ("rules-in-reverse-order", dict(module="bioscrape.types", old="        for rule_object in self.repeat_rules:\n            self.c_repeat_rules.push_back(<void*> rule_object)\n\n    def py_initialize(self):",
                                        new="        for rule_object in reversed(self.repeat_rules):\n            self.c_repeat_rules.push_back(<void*> rule_object)\n\n    def py_initialize(self):"), "interface"),
        ("params-not-restored", dict(module="bioscrape.simulator", old="                    sim.py_set_param_values(p0) #reset the parameter values before reapplying rules\n",
                                     new="                    pass\n"), "det"),
    ]
    for name, m, which in mut:
        if which == "ssa":
            ck.add_mutant(name, m, "ssa", "harness.C05", "step_job", dict(cases=[(2, 2, 3, 1), (2, 2, 3, 0)], rules=True, facets=LOOP_FACETS))
        elif which == "kernel":
            ck.add_mutant(name, m, "kernel", "harness.C09", "kernel_job", dict(cases=[("assign_s", "time")]))
        elif which == "kernel2":
            ck.add_mutant(name, m, "kernel", "harness.C09", "kernel_job", dict(cases=[("ode_s", "dt")]))
        elif which == "interface":
            ck.add_mutant(name, m, "interface", "harness.C09", "interface_job", dict(cases=[(0, "plain", 1)]))
        else:
            ck.add_mutant(name, m, "det", "harness.C09", "deterministic_job", dict(cases=[(2, 2, 2)]), fresh=True)
    ck.oracle_selftest = [{'kind': 'delay'}, {'kind': 'delay_volume'}]
    ck.validate = ['ssa', 'delay_ssa', 'delay_volume_ssa']
    ck.run()
    return ck.finish(replay=REPLAY)
