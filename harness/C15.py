"""C15 - the inference cost is the stated posterior on correctly aligned data.

Real code executed symbolically: InferenceSetup.__init__ / prepare_inference / prepare_initial_conditions /
prepare_parameter_conditions / extract_data / setup_cost_function / cost_function (inference_setup.py);
DeterministicInference.setup_likelihood_function / get_likelihood_function, check_prior (pid_interfaces.py);
BulkData.set_data, ModelLikelihood.__init__ / set_model / set_init_species / set_init_params,
DeterministicLikelihood.set_data / get_log_likelihood (inference.pyx); Model.set_params etc.
The simulator is replaced by an uninterpreted simulation function (fresh outputs per call, inputs recorded);
data frames by a column-major frame model.  Every data entry, time entry, theta, condition value is symbolic.
"""
import itertools

import numpy as np

from .common import Check, model_env
from .C07 import Frame
from pyxsym.sym import s_and, s_not, is_sym, Sym, sym_pow, s_fabs, s_log, ctx, ite

REPLAY = ("replay_drivers.C15", "replay")


class _Frame(Frame):
    def __init__(self, cols):
        self.cols = dict(cols)
        self.n = len(next(iter(cols.values())))

    def get(self, k, default=None):
        return self.cols.get(k, default)

    def __len__(self):
        return self.n


class _Pandas:
    DataFrame = _Frame


def _install(interp, calls, level="simulate"):
    """level = "simulate": the whole deterministic simulator is abstract; "odeint": only the integrator is (the real
    DeterministicSimulator._helper_simulate, interface and rule application run), which is what a model with rules needs"""
    IS = interp.load("bioscrape.inference_setup")
    S = interp.load("bioscrape.simulator")
    IS.ns["pd"] = _Pandas
    if level == "odeint":
        def odeint(f, y0, ts, **kw):
            c = ctx()
            k = len(calls)
            gsim = S.ns["global_simulator"]
            pv = list(gsim.py_get_param_values())
            Y = np.empty((len(ts), len(y0)), dtype=object)
            for t in range(len(ts)):
                for s_ in range(len(y0)):
                    Y[t, s_] = y0[s_] if t == 0 else c.real("SIM%d_%d_%d" % (k, t, s_))
            calls.append((list(y0), pv, list(ts), Y))
            return Y, {"message": "Integration successful."}
        S.ns["odeint"] = odeint
        return IS

    class _Res:
        _pyxsym_duck = True

        def __init__(self, arr):
            self.arr = arr

        def get_result(self):
            return self.arr

    def simulate(self, csim, timepoints):
        c = ctx()
        n_s = csim.get_num_species() if hasattr(csim, "get_num_species") else len(csim.get_initial_state())
        x0 = list(csim.get_initial_state())
        pv = list(csim.py_get_param_values())
        tp = list(timepoints)
        k = len(calls)
        out = np.empty((len(tp), len(x0)), dtype=object)
        for t in range(len(tp)):
            for s in range(len(x0)):
                out[t, s] = c.real("SIM%d_%d_%d" % (k, t, s))
        calls.append((x0, pv, tp, out))
        return _Res(out)
    S.classes["DeterministicSimulator"].methods["simulate"].native = simulate
    return IS


def cost_job(interp, c, case):
    N, Mm, T, p, cond_kind, single = case[:6]
    level = case[6] if len(case) > 6 else "simulate"
    if single and N == 1 and cond_kind == "list":
        cond_kind = "dict"          # a single data frame takes one dictionary of conditions (the list form is per trajectory of a list)
    calls = []
    IS = _install(interp, calls, level)
    Tm = interp.load("bioscrape.types")
    species = ["X", "Y", "Z"] + (["W"] if level == "odeint" else [])
    meas_all = ["Y", "X", "Z"][:Mm]
    kd = {k: c.real("def_" + k) for k in ("k1", "k2", "cnd")}
    xd = {s: c.real("x0def_" + s, lo=0) for s in species}
    # with the real simulator underneath, the model also has a rule (on a species that is not measured)
    rules = [("assignment", {"equation": "W = X + cnd*Y"}, "repeated")] if level == "odeint" else []
    M = Tm.ns["Model"](species=species, reactions=[(["X"], ["Y"], "massaction", {"k": "k1"}), (["Y"], ["Z"], "massaction", {"k": "k2"})],
                       parameters=[("k1", kd["k1"]), ("k2", kd["k2"]), ("cnd", kd["cnd"])], initial_condition_dict=dict(xd), rules=rules)
    frames, data, times = [], [], []
    syms = {}
    for n in range(N):
        tcol = [c.real("t_%d_%d" % (n, t)) for t in range(T)]
        cols = {}
        vals = {}
        for m in species + ["junk"]:
            vals[m] = [c.real("d_%d_%s_%d" % (n, m, t)) for t in range(T)]
        order = (["junk", "Z", "time", "X", "Y"], ["Y", "time", "junk", "X", "Z"], ["X", "Y", "Z", "junk", "time"])[n % 3]
        for col in order:
            cols[col] = tcol if col == "time" else vals[col]
        frames.append(_Frame(cols))
        data.append(vals)
        times.append(tcol)
    theta = c.real("theta_k1")
    lo, hi = c.real("lo"), c.real("hi")
    c.assume(lo < hi)
    prior = {"k1": ["uniform", lo, hi]}
    keysets = (("X", "Z"), ("Y",), ("Z",), ("X", "Y", "Z"))
    ics = [{s_: c.real("ic_%d_%s" % (n, s_), lo=0) for s_ in keysets[n % 4]} for n in range(N)]
    if cond_kind == "list":
        # per-trajectory dictionaries need not have the same keys: later trajectories set more parameters here
        # (neither nested nor ordered: trajectory 0 sets cnd, 1 sets k2, 2 sets nothing, 3 sets both)
        keysets = (("cnd",), ("k2",), (), ("cnd", "k2"))     # N = 2: each trajectory sets a parameter the other one does not
        pcs = [{k_: c.real("p%s_%d" % (k_, n)) for k_ in keysets[n % 4]} for n in range(N)]
    elif cond_kind == "dict":
        pcs = {"cnd": c.real("pc_all")}
    else:
        pcs = None
    exp_data = frames[0] if (single and N == 1) else list(frames)
    kw = dict(Model=M, exp_data=exp_data, measurements=list(meas_all), time_column="time", params_to_estimate=["k1"],
              prior=prior, initial_conditions=(ics if not (single and N == 1) else ics[0]), norm_order=p, sim_type="deterministic")
    if pcs is not None:
        kw["parameter_conditions"] = pcs
    rp = dict(N=N, M=Mm, T=T, p=p, cond=cond_kind, single=single, rule=(level == "odeint"))
    tag = "N=%d measured=%s T=%d p=%d conditions=%s%s%s" % (N, meas_all, T, p, cond_kind, " single-frame" if single and N == 1 else "",
                                                            " model-with-rule/real-simulator" if level == "odeint" else "")

    def rep(cond, label, sig):
        ok = c.prove(cond, "%s: %s" % (tag, label), info={"sig": sig, "what": "%s: %s" % (tag, label)})
        if ok is False:
            c.failures[-1]["replay"] = dict(rp, aspect=sig)
        return ok
    setup = IS.ns["InferenceSetup"](**kw)
    LL = setup.LL_data
    ok_shape = LL.shape == (N, T, Mm)
    rep(ok_shape, "data array has shape (trajectories, time points, measured species)", "data shape")
    if ok_shape:
        rep(s_and(*[LL[n, t, m] == data[n][meas_all[m]][t] for n in range(N) for t in range(T) for m in range(Mm)]),
            "data[n,t,m] is the value of measured species m in trajectory n at row t (matched by column name and row)",
            "data aligned by column name and row")
    # ---- evaluate the cost at theta (inside the prior's support)
    c.assume(theta >= lo)
    c.assume(theta <= hi)
    calls.clear()
    val = setup.cost_function([theta])
    idx = M.get_species2index()
    pidx = M.get_params2index()
    rep(len(calls) == N, "one simulation per trajectory", "simulation count")
    if len(calls) != N:
        return
    conds = []
    for n in range(N):
        x0, pv, tp, out = calls[n]
        for s in species:
            conds.append(x0[idx[s]] == (ics[n][s] if s in ics[n] else xd[s]))
        conds.append(pv[pidx["k1"]] == theta)
        conds.append(pv[pidx["k2"]] == (pcs[n]["k2"] if cond_kind == "list" and "k2" in pcs[n] else kd["k2"]))
        want_c = pcs[n].get("cnd", kd["cnd"]) if cond_kind == "list" else pcs["cnd"] if cond_kind == "dict" else kd["cnd"]
        conds.append(pv[pidx["cnd"]] == want_c)
        conds += [tp[t] == times[n][t] for t in range(T)]
    rep(s_and(*conds), "trajectory n is simulated from its own initial condition, with defaults + theta + its own parameter "
                       "condition, at its own time points", "simulation inputs")
    tot = 0
    for n in range(N):
        out = calls[n][3]
        for m in range(Mm):
            for t in range(T):
                dif = data[n][meas_all[m]][t] - out[t, idx[meas_all[m]]]
                tot = tot + sym_pow(ite(dif < 0, -dif, dif), p)          # |dif|^p
    logprior = s_log(1 / (hi - lo))
    want = logprior - (tot if p == 1 else sym_pow(tot, 1 / __import__("fractions").Fraction(p)))
    if ok_shape:
        rep(val == want, "cost(theta) = log-prior(theta) - (sum over trajectories, time points, measured species of "
                         "|data - simulation|^p)^(1/p)", "cost value")
    # ---- history independence: a second evaluation passes the triples a fresh evaluation would
    theta2 = c.real("theta2_k1")
    c.assume(theta2 >= lo)
    c.assume(theta2 <= hi)
    calls.clear()
    setup.cost_function([theta2])
    conds = []
    for n in range(min(N, len(calls))):
        x0, pv, tp, out = calls[n]
        for s in species:
            conds.append(x0[idx[s]] == (ics[n][s] if s in ics[n] else xd[s]))
        conds.append(pv[pidx["k1"]] == theta2)
        conds.append(pv[pidx["k2"]] == (pcs[n]["k2"] if cond_kind == "list" and "k2" in pcs[n] else kd["k2"]))
        want_c = pcs[n].get("cnd", kd["cnd"]) if cond_kind == "list" else pcs["cnd"] if cond_kind == "dict" else kd["cnd"]
        conds.append(pv[pidx["cnd"]] == want_c)
    rep(s_and(*conds) and len(calls) == N, "a later evaluation is simulated exactly as a first evaluation would be (the cost is a function "
                                           "of theta alone)", "history independence")


def support_job(interp, c, case):
    side, = case
    calls = []
    IS = _install(interp, calls)
    Tm = interp.load("bioscrape.types")
    M = Tm.ns["Model"](species=["X"], reactions=[(["X"], [], "massaction", {"k": "k1"})], parameters=[("k1", 1.0)],
                       initial_condition_dict={"X": 5})
    fr = _Frame({"time": [0, 1], "X": [c.real("d0"), c.real("d1")]})
    lo, hi = c.real("lo"), c.real("hi")
    c.assume(lo < hi)
    setup = IS.ns["InferenceSetup"](Model=M, exp_data=fr, measurements=["X"], time_column="time", params_to_estimate=["k1"],
                                    prior={"k1": ["uniform", lo, hi]}, initial_conditions={"X": 5}, sim_type="deterministic")
    theta = c.real("theta")
    c.assume(theta < lo if side == "below" else theta > hi)
    calls.clear()
    val = setup.cost_function([theta])
    c.prove(not is_sym(val) and val == float("-inf"), "outside the prior's support the cost is minus infinity (%s)" % side,
            info={"sig": "outside support", "what": "cost outside support is %r" % (val,)})
    c.prove(len(calls) == 0, "no simulation is run outside the support")


def cases(tier):
    out = []
    Ns = (1, 2, 3) if tier == "quick" else (1, 2, 3, 4)
    for N in Ns:
        for Mm in (1, 2, 3):
            for p in (1, 2, 3):
                T = 2 if ((N + Mm + p) % 2 or N * Mm >= 6) else 3
                if tier == "quick" and (N, Mm, p) not in ((1, 1, 2), (1, 2, 2), (2, 2, 1), (2, 1, 3), (3, 3, 2), (1, 3, 1), (3, 2, 3)):
                    continue
                out.append((N, Mm, T, p, ("list", "dict", "none")[(N + Mm + p) % 3], N == 1 and Mm % 2 == 0))
    # three trajectories with a LIST of parameter conditions whose third entry is empty (that trajectory runs with the model's own values)
    out.append((3, 1, 2, 2, "list", False))
    return out


def check(tier):
    ck = Check("C15", "model_checking", tier)
    for cse in cases(tier):
        ck.add("cost/N%dM%dT%dp%d/%s%s" % (cse[0], cse[1], cse[2], cse[3], cse[4], "/single" if cse[5] else ""), "harness.C15",
               "cost_job", dict(cases=[cse]), fresh=True, timeout_ms=60000)
    for cse in [(2, 1, 2, 2, "list", False, "odeint"), (2, 2, 2, 1, "none", False, "odeint")] + \
            ([(3, 1, 2, 2, "dict", False, "odeint"), (3, 2, 2, 3, "list", False, "odeint")] if tier == "thorough" else []):
        ck.add("cost-rule/N%dM%dT%dp%d/%s" % cse[:5], "harness.C15", "cost_job", dict(cases=[cse]), fresh=True, timeout_ms=60000)
    ck.add("support", "harness.C15", "support_job", dict(cases=[("below",), ("above",)]), fresh=True)
    ck.bounds = dict(trajectories="1..%d" % (3 if tier == "quick" else 4), measured_species="1..3", time_points="2..3",
                     norm_order="1..3", conditions="per-trajectory list / one dict / none", frames="columns in different orders per frame, "
                     "with an unrelated extra column")
    ck.assumptions = [
        "the simulator is an uninterpreted function: fresh symbolic outputs per call, its inputs (initial state, parameter vector, "
        "time points) are recorded and asserted on; pandas is a column-major frame model; in the cost-rule jobs only the integrator "
        "(odeint) is uninterpreted and the real DeterministicSimulator, interface and rule application run on a model with a rule",
        "invariance under permutations of measurement columns and of trajectories follows from the proven formula (a sum over "
        "(n,t,m) of name-matched terms) by commutativity of +; the stochastic cost is not covered",
        "x^(1/p) for p = 2,3 is an uninterpreted sqrt/pow shared by code and oracle",
    ]
    mut = [
        ("theta-not-applied", dict(module="bioscrape.pid_interfaces", old="            self.LL_det.set_init_params(params_dict)\n            if self.debug:\n                print('current sample:', params_dict)\n            #apply cost function\n            LL_det_cost",
                                   new="            if self.debug:\n                print('current sample:', params_dict)\n            #apply cost function\n            LL_det_cost")),
        ("wrong-measurement-index", dict(module="bioscrape.inference", old="                    dif = measurements[n, t, i] - ans[t,self.meas_indices[i]]",
                                         new="                    dif = measurements[n, t, i] - ans[t,self.meas_indices[0]]")),
        ("initial-state-of-first-trajectory", dict(module="bioscrape.inference", old="            self.csim.set_initial_state(self.get_initial_state(n))",
                                                   new="            self.csim.set_initial_state(self.get_initial_state(0))")),
    ]
    for name, m in mut:
        ck.add_mutant(name, m, "cost", "harness.C15", "cost_job", dict(cases=[(2, 2, 2, 2, "list", False)]), fresh=True)
    ck.validate = ['inference']
    ck.run()
    return ck.finish(replay=REPLAY)
