"""C12 - writing a model to SBML and reading it back preserves its behaviour.

Translation validation: for each generated model the REAL Model.write_sbml_model / generate_sbml_model / sbmlutil.add_*
and sbmlutil.import_sbml* code is executed (interpreter; real libsbml in between).  Original and reloaded model are then
compared: dictionaries and matrices concretely; rate laws (four forms), delays and rules by symbolic execution of
both objects with z3 deciding equality for ALL states, parameter values, volumes and times.
"""
import os
import re
import random
import tempfile
import itertools

import numpy as np

from .common import Check, model_env, SCRATCH_ROOT
from .stubs import ptr, install_uniform
from pyxsym.sym import s_and, s_not, is_sym, Sym

REPLAY = ("replay_drivers.C12", "replay")
SPECIES = ["A", "B_x", "C1"]


def programs(tier, seed=0):
    rng = random.Random(4242 + seed)
    out = []
    # propensity types x orders x named/numeric
    for order in range(0, 5 if tier == "thorough" else 4):
        for r in itertools.combinations_with_replacement(SPECIES[:2], order):
            for named in (True, False):
                out.append(dict(kind="rx", ptype="massaction", reactants=list(r), products=["C1"], named=named))
    for pt in ("hillpositive", "hillnegative", "proportionalhillpositive", "proportionalhillnegative"):
        for named in (True, False):
            out.append(dict(kind="rx", ptype=pt, reactants=["A"], products=["C1", "C1"], named=named))
    out.append(dict(kind="rx", ptype="general", reactants=["A", "A"], products=["B_x"], named=True, rate="kq*A^2/(1 + B_x) + t*volume"))
    # general rates over the whole expression grammar (operator precedence, unary minus, functions)
    for rate in ("kq*exp(-A^2/4)", "30 - B_x^2 - -A", "-(A - kq)^2 + 40", "2^-A + A^2^0.5", "kq*log(A + 1) + exp(-B_x)",
                 "abs(A - B_x) + max(A, 2)*min(kq, B_x)", "kq*Heaviside(A - 1) + A/B_x/2 - A*B_x/(C1 + 1)",
                 "(A + B_x)^2*volume - kq*t"):
        out.append(dict(kind="rx", ptype="general", reactants=["A"], products=["C1"], named=True, rate=rate))
    # delays
    for dt_ in ("fixed", "gaussian", "gamma"):
        for named in (True, False):
            for dre, dpr in (([], ["C1"]), (["B_x"], ["C1", "C1"]), (["A"], [])):
                out.append(dict(kind="rx", ptype="massaction", reactants=["A"], products=[], named=named, delay=dt_, dre=dre, dpr=dpr))
    # rules
    for rt, eq, freq in (("additive", "C1 = A + B_x", "repeated"), ("assignment", "B_x = kq*A + 1", "repeated"),
                         ("assignment", "B_x = kq*A + t", "dt"), ("assignment", "C1 = 2*A", "start"),
                         ("assignment", "C1 = A + kq", 2.5), ("assignment", "C1 = 3*A", 0), ("additive", "C1 = A + B_x", 0.0),
                         ("assignment", "kq = A + 1", "repeated"),
                         ("additive", "C1 = A + A", "dt")):
        out.append(dict(kind="rule", rtype=rt, eq=eq, freq=freq))
    # several delayed reactions in one model: non-empty and empty delayed parts in every order, with and without an undelayed reaction between
    def dl(dre, dpr, fam="fixed", named=True):
        return dict(kind="rx", ptype="massaction", reactants=["A"], products=[], named=named, delay=fam, dre=dre, dpr=dpr)
    plain = dict(kind="rx", ptype="massaction", reactants=["B_x"], products=["C1"], named=False)
    multi = [dict(kind="multi", parts=[dl(["B_x"], ["C1"]), dl([], ["C1", "C1"]), dl(["A"], [])]),
             dict(kind="multi", parts=[dl([], ["C1"]), dl(["B_x"], []), dl([], [], "gamma")]),
             dict(kind="multi", parts=[dl(["B_x"], ["C1"], "gaussian"), plain, dl([], ["C1"], "fixed", False), plain]),
             dict(kind="multi", parts=[plain, dl(["A"], ["B_x"]), plain])]
    # several rules in one model, some with the same target (rules run in declaration order: every one of them matters)
    def rl(rt, eq, freq):
        return dict(kind="rule", rtype=rt, eq=eq, freq=freq)
    multi += [dict(kind="multi", parts=[rl("assignment", "C1 = 2*A", 2.5), rl("assignment", "C1 = A + kq", 5.0), rl("assignment", "B_x = C1 + 1", "repeated")]),
              dict(kind="multi", parts=[rl("assignment", "kq = A + 1", "repeated"), rl("additive", "C1 = A + B_x", "repeated"), rl("assignment", "kq = 2*kq", "dt"),
                                        rl("assignment", "C1 = C1 + kq", "dt")])]
    short = {"A": "u", "B_x": "me", "C1": "o"}
    multi += [dict(kind="rx", ptype="massaction", reactants=["A", "B_x"], products=["C1"], named=True, names=short),
              dict(kind="rx", ptype="hillpositive", reactants=["A"], products=["C1", "C1"], named=True, names={"A": "e", "B_x": "vol", "C1": "l"}),
              dict(kind="rx", ptype="general", reactants=["A"], products=["C1"], named=True, rate="kq*A/(1 + B_x) + C1", names=short),
              dict(kind="rule", rtype="assignment", eq="B_x = kq*A + 1", freq="repeated", names={"A": "v", "B_x": "m", "C1": "um"})]
    if tier == "quick":
        keep = [p for i, p in enumerate(out) if p["kind"] == "rule" or p.get("delay") or p["ptype"] != "massaction" or i % 2 == 0]
        return keep + multi
    return out + multi


def build_args(p):
    """several reactions / rules in one model: the parts' constructor arguments merged in order (shared parameters declared once)"""
    if p.get("names"):
        # the same program over other species names (short ones: substrings of longer identifiers and of the reserved words)
        import re as _re
        q = dict(p)
        names = q.pop("names")
        a = build_args(q)

        def ren(x):
            if isinstance(x, str):
                return _re.sub(r"\b(%s)\b" % "|".join(_re.escape(k) for k in names), lambda m_: names[m_.group(1)], x)
            if isinstance(x, list):
                return [ren(y) for y in x]
            if isinstance(x, tuple):
                return tuple(ren(y) for y in x)
            if isinstance(x, dict):
                return {ren(k): ren(v) for k, v in x.items()}
            return x
        return dict(species=ren(a["species"]), parameters=a["parameters"], reactions=ren(a["reactions"]), rules=ren(a["rules"]),
                    initial_condition_dict=ren(a["initial_condition_dict"]))
    if p["kind"] != "multi":
        return _build_one(p)
    out = None
    for q in p["parts"]:
        a = _build_one(q)
        if out is None:
            out = a
            continue
        out["reactions"] += a["reactions"]
        out["rules"] += a["rules"]
        for nm, val in a["parameters"]:
            if nm not in [x[0] for x in out["parameters"]]:
                out["parameters"].append((nm, val))
    return out


def _build_one(p):
    """Model constructor arguments (concrete values) for a program"""
    species = list(SPECIES)
    params = [("kq", 0.75)]
    reactions, rules = [], []
    if p["kind"] == "rx":
        pt = p["ptype"]
        if pt == "massaction":
            pd = {"k": "kf"} if p["named"] else {"k": 1.25}
            if p["named"]:
                params.append(("kf", 1.25))
        elif pt == "general":
            pd = {"rate": p["rate"]}
        else:
            if p["named"]:
                pd = {"k": "kf", "K": "KH", "n": "nH", "s1": "A"}
                params += [("kf", 1.25), ("KH", 3.5), ("nH", 2.0)]
            else:
                pd = {"k": 1.25, "K": 3.5, "n": 2.0, "s1": "A"}
            if "proportional" in pt:
                pd["d"] = "B_x"
        if p.get("delay"):
            d = p["delay"]
            if d == "fixed":
                dp = {"delay": "tau"} if p["named"] else {"delay": 0.5}
                if p["named"]:
                    params.append(("tau", 0.5))
            elif d == "gaussian":
                dp = {"mean": "mu", "std": "sd"} if p["named"] else {"mean": 2.0, "std": 0.25}
                if p["named"]:
                    params += [("mu", 2.0), ("sd", 0.25)]
            else:
                dp = {"k": "gk", "theta": "gth"} if p["named"] else {"k": 3.0, "theta": 0.5}
                if p["named"]:
                    params += [("gk", 3.0), ("gth", 0.5)]
            reactions.append((p["reactants"], p["products"], pt, pd, d, p["dre"], p["dpr"], dp))
        else:
            reactions.append((p["reactants"], p["products"], pt, pd))
    else:
        reactions.append((["A"], ["B_x"], "massaction", {"k": "kq"}))
        if p["rtype"] == "ode":
            rules.append(("ode", {"equation": p["eq"], "target": "C1"}))
        else:
            rules.append((p["rtype"], {"equation": p["eq"]}, p["freq"]))
    return dict(species=species, parameters=params, reactions=reactions, rules=rules,
                initial_condition_dict={"A": 5, "B_x": 2.5, "C1": 0})


def _mask(text):
    return re.sub(r"bioscrape_generated_model_\d+", "bioscrape_generated_model_X", text)


def roundtrip_job(interp, c, case):
    p, stochastic = case
    T = interp.load("bioscrape.types")
    U = interp.load("bioscrape.sbmlutil")
    S = interp.load("bioscrape.simulator")
    install_uniform(interp)
    args = build_args(p)
    M1 = T.ns["Model"](**args)
    d = tempfile.mkdtemp(prefix="bioscrape-verif-c12-", dir=SCRATCH_ROOT)
    f1, f2 = os.path.join(d, "a.xml"), os.path.join(d, "b.xml")
    tag = "%s%s" % ({k: v for k, v in p.items() if k != "kind"}, " [stochastic export]" if stochastic else "")
    rp = dict(program=p, stochastic=stochastic)

    def rep(cond, label, sig, syms=None):
        ok = c.prove(cond, "%s: %s" % (tag, label), info={"sig": sig, "what": "%s: %s" % (tag, label)})
        if ok is False:
            fl = c.failures[-1]
            fl["replay"] = dict(rp, aspect=sig, values=model_env(c, fl["model"], syms or {}))
        return ok
    try:
        try:
            M1.write_sbml_model(f1, stochastic_model=stochastic)
            M1.write_sbml_model(f2, stochastic_model=stochastic)
        except Exception as e:
            rep(False, "writing the model fails with %s: %s" % (type(e).__name__, str(e)[:120]), "export raises %s" % type(e).__name__)
            return
        t1, t2 = open(f1).read(), open(f2).read()
        rep(_mask(t1) == _mask(t2), "writing twice gives the same document up to the generated model id", "idempotent writing")
        try:
            M2 = U.ns["import_sbml"](f1)
        except Exception as e:
            rep(False, "reading the written file back fails with %s: %s" % (type(e).__name__, str(e)[:120]), "re-import raises %s" % type(e).__name__)
            return
    finally:
        for f in (f1, f2):
            try:
                os.remove(f)
            except OSError:
                pass
        try:
            os.rmdir(d)
        except OSError:
            pass
    # ---- concrete comparisons
    s1, s2 = M1.get_species_dictionary(), M2.get_species_dictionary()
    rep(set(s1) == set(s2) and all(s1[k] == s2[k] for k in s1), "same species and initial values (%s / %s)" % (
        {k: str(v) for k, v in s1.items()}, {k: str(v) for k, v in s2.items()}), "species")
    p1, p2 = M1.get_parameter_dictionary(), M2.get_parameter_dictionary()
    rep(set(p1) == set(p2) and all(p1[k] == p2[k] for k in p1), "same parameters and values (%s / %s)" % (sorted(p1), sorted(p2)), "parameters")
    if set(s1) != set(s2) or set(p1) != set(p2):
        return
    i1, i2 = M1.get_species2index(), M2.get_species2index()
    same_stoich = M1.py_get_update_array().shape == M2.py_get_update_array().shape
    if same_stoich:
        for s in s1:
            for r in range(M1.py_get_update_array().shape[1]):
                same_stoich = same_stoich and M1.py_get_update_array()[i1[s], r] == M2.py_get_update_array()[i2[s], r] \
                    and M1.py_get_delay_update_array()[i1[s], r] == M2.py_get_delay_update_array()[i2[s], r]
    rep(bool(same_stoich), "same immediate and delayed stoichiometry", "stoichiometry")
    # ---- symbolic comparisons
    psym = {k: c.real("p_" + re.sub(r"\W", "_", k), lo=0, lo_strict=True) for k in p1}
    for M in (M1, M2):
        for k, idx in M.get_params2index().items():
            M.params_values[idx] = psym[k]
    state = {s: c.real("s_" + s, lo=0) for s in s1}
    V = c.real("V", lo=0, lo_strict=True)
    t = c.real("t", lo=0)
    syms = dict(V=V, t=t, **{"s_" + k: v for k, v in state.items()}, **{"p:" + k: v for k, v in psym.items()})

    def sv(M):
        return np.array([state[s] for s in M.get_species_list()], dtype=object)
    n1, n2 = len(M1.propensities), len(M2.propensities)
    rep(n1 == n2, "same number of reactions", "reaction count")
    if n1 != n2:
        return
    for r in range(n1):
        a, b = M1.propensities[r], M2.propensities[r]
        conds = []
        for form in ("get_propensity", "get_stochastic_propensity"):
            conds.append(getattr(a, form)(ptr(interp, sv(M1)), ptr(interp, M1.params_values), t) ==
                         getattr(b, form)(ptr(interp, sv(M2)), ptr(interp, M2.params_values), t))
        for form in ("get_volume_propensity", "get_stochastic_volume_propensity"):
            conds.append(getattr(a, form)(ptr(interp, sv(M1)), ptr(interp, M1.params_values), V, t) ==
                         getattr(b, form)(ptr(interp, sv(M2)), ptr(interp, M2.params_values), V, t))
        rep(s_and(*conds), "reaction %d: the reloaded rate law agrees in deterministic, stochastic and both volume forms at every "
                           "state, parameter vector, volume and time" % r, "rate law", syms)
        da, db = M1.delays[r], M2.delays[r]
        ca, cb = da.__dict__["_cls"].name, db.__dict__["_cls"].name
        rep(ca == cb, "reaction %d: same delay type (%s / %s)" % (r, ca, cb), "delay type")
        if ca == cb and ca != "NoDelay":
            if ca == "FixedDelay":
                va = da.get_delay(ptr(interp, sv(M1)), ptr(interp, M1.params_values))
                vb = db.get_delay(ptr(interp, sv(M2)), ptr(interp, M2.params_values))
                rep(va == vb, "reaction %d: same fixed delay parameter" % r, "delay parameters", syms)
            else:
                rev = {v: k for k, v in M1.get_params2index().items()}
                rev2 = {v: k for k, v in M2.get_params2index().items()}
                f1 = da.__dict__["_f"]
                f2 = db.__dict__["_f"]
                names1 = {k: rev[v] for k, v in f1.items() if k.endswith("_index")}
                names2 = {k: rev2[v] for k, v in f2.items() if k.endswith("_index")}
                rep(names1 == names2, "reaction %d: delay distribution bound to the same parameters (%s / %s)" % (r, names1, names2),
                    "delay parameters")
    rr1, rr2 = M1.get_rules(), M2.get_rules()
    rep(len(rr1) == len(rr2) and len(M1.repeat_rules) == len(M2.repeat_rules), "same number of rules", "rule count")
    if len(M1.repeat_rules) == len(M2.repeat_rules) and M1.repeat_rules:
        dt = c.real("dt", lo=0, lo_strict=True)
        rs = c.int("rs", lo=0, hi=1)
        syms2 = dict(syms, dt=dt, rs=rs)
        for M in (M1, M2):
            for k, idx in M.get_params2index().items():
                M.params_values[idx] = psym[k]
        x1, x2 = sv(M1), sv(M2)
        pv1, pv2 = M1.params_values.copy(), M2.params_values.copy()
        for ra, rb in zip(M1.repeat_rules, M2.repeat_rules):
            ra.execute_volume_rule(ptr(interp, x1), ptr(interp, pv1), V, t, dt, rs)
            rb.execute_volume_rule(ptr(interp, x2), ptr(interp, pv2), V, t, dt, rs)
        conds = [x1[i1[s]] == x2[i2[s]] for s in s1]
        conds += [pv1[M1.get_params2index()[k]] == pv2[M2.get_params2index()[k]] for k in p1]
        rep(s_and(*conds), "rules have the same effect and firing condition for every state, time and step flag", "rules", syms2)


def check(tier):
    ck = Check("C12", "translation_validation", tier)
    progs = programs(tier, ck.seed)
    cs = [(p, st) for p in progs for st in ((False, True) if p["kind"] == "multi" or (p["kind"] == "rx" and not p.get("delay")) else (False,))]
    n = 16
    k = max(1, (len(cs) + n - 1) // n)
    for i in range(0, len(cs), k):
        ck.add("roundtrip/%d" % (i // k), "harness.C12", "roundtrip_job", dict(cases=cs[i:i + k]))
    ck.extra_cov = dict(programs=len(cs))
    ck.bounds = dict(programs=len(cs), reaction_orders="0..%d" % (4 if tier == "thorough" else 3), delay_families=3,
                     rules="additive / assignment (species and parameter targets) with repeated, start, dt and a scheduled (numeric) time; ode rules are not in the property's quantifier (they are exported as SBML rate rules and come back as reactions)")
    ck.assumptions = [
        "libsbml's XML writer/reader and str(float)/float(str) are trusted (C level); names are valid SBML identifiers",
        "numeric comparisons of dictionaries and matrices are concrete per program; rate laws, fixed delays and rules are compared "
        "symbolically for all states, parameter values, volumes, times; Gaussian/Gamma delays by class and parameter binding",
    ]
    mut = [
        ("delay-products-lost", dict(module="bioscrape.sbmlutil", old="                    if k == 'products':\n                        delay_products = v.split(',')",
                                     new="                    if k == 'products':\n                        delay_products = []")),
        ("rule-frequency-lost", dict(module="bioscrape.sbmlutil", old='                    if k == "rule_frequency":\n                        rule_frequency = v',
                                     new='                    if k == "rule_frequency":\n                        rule_frequency = "repeated"')),
        ("annotation-K-n-swapped", dict(module="bioscrape.sbmlutil", old='        propensity_annotation_dict["K"] = propensity_params[\'K\']\n        propensity_annotation_dict["n"] = propensity_params[\'n\']',
                                        new='        propensity_annotation_dict["K"] = propensity_params[\'n\']\n        propensity_annotation_dict["n"] = propensity_params[\'K\']')),
    ]
    for name, m in mut:
        ck.add_mutant(name, m, "roundtrip", "harness.C12", "roundtrip_job", dict(cases=cs))
    ck.validate = ['sbml']
    ck.run()
    return ck.finish(replay=REPLAY)
