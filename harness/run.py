"""CLI: python -m harness.run <ID> [--tier quick|thorough] | --replay <path> | ALL"""
import os
import sys
import json
import argparse
import importlib
import subprocess

from . import common


def main():
    ap = argparse.ArgumentParser()
    ap.add_argument("id", nargs="?")
    ap.add_argument("--tier", default=os.environ.get("VERIF_TIER", "quick"))
    ap.add_argument("--replay", default=None)
    a = ap.parse_args()
    if a.replay:
        d = json.load(open(a.replay))
        pid = d["property"]
        mod = importlib.import_module("harness.%s" % pid)
        b = common.Build()
        b.acquire()
        try:
            v, detail = common.run_replay(b, mod.REPLAY, d["spec"])
        finally:
            b.release()
        print(v, json.dumps(detail, default=str)[:2000])
        sys.exit(1 if v == "reproduced" else 0)
    if a.id == "PREBUILD":
        # make the build of the current working tree available to the checks (in place if current, else the scratch cache)
        b = common.Build()
        print("build of the current tree:", b.acquire())
        b.release()
        sys.exit(0)
    if a.id == "CLEAN":
        import glob
        import shutil
        for d in glob.glob(os.path.join(common.SCRATCH_ROOT, "bioscrape-verif-build-*")):
            if os.path.isdir(d):
                shutil.rmtree(d, ignore_errors=True)
            else:
                os.remove(d)
        sys.exit(0)
    if a.id == "ALL":
        rc = 0
        ids = ["C%02d" % i for i in range(1, 21)]
        for pid in ids:
            if not os.path.exists(os.path.join(common.VERIF, "harness", pid + ".py")):
                continue
            r = subprocess.call([sys.executable, "-u", "-m", "harness.run", pid, "--tier", a.tier],
                                cwd=common.VERIF)
            rc = max(rc, r)
        sys.exit(rc)
    os.environ["VERIF_TIER"] = a.tier
    mod = importlib.import_module("harness.%s" % a.id)
    sys.exit(mod.check(a.tier))


if __name__ == "__main__":
    main()
