"""One-step (inductive) harnesses for the delay, volume and delay+volume event loops.

Each function executes ONE iteration of the real `while` body (located in the parse tree) from an
arbitrary symbolic pre-state and compares the post-state with a reference step relation.  The
obligations are tagged so that C06/C09/C10/C11 can each claim the facets they depend on.
"""
import numpy as np

from .stubs import install_uniform, ptr, sym_array, arr_syms
from .loops import AbsSim, make_grid, make_stoich, run_prologue, havoc_array, choice_oracle
from pyxsym.sym import s_and, s_or, s_not, s_log, ite, is_sym, CFault, Sym, Unsupported


def _ud_untouched(sim, UD_orig):
    """the stoichiometric matrices the interface hands out (the model's own arrays) hold the very same entries"""
    U0, u0, D0, d0 = UD_orig
    return sim.U is U0 and sim.D is D0 and all(a is b for a, b in zip([U0[i, j] for i in range(U0.shape[0]) for j in range(U0.shape[1])], u0)) \
        and all(a is b for a, b in zip([D0[i, j] for i in range(D0.shape[0]) for j in range(D0.shape[1])], d0))


def report(c, cond, label, sig=None, kind="ssa"):
    facets = getattr(c, "facets", None)
    if facets is not None and label.startswith("["):
        tag = label[1:label.index("]")]
        if not any(tag == f or tag.endswith(f) for f in facets):
            return None
    ok = c.prove(cond, label, info={"sig": sig or label, "what": label})
    if ok is False:
        from .common import model_env
        sy = {k: v for k, v in getattr(c, "scale_syms", {}).items()}
        c.failures[-1]["replay"] = {"kind": kind, "values": model_env(c, c.failures[-1]["model"], sy)}
        if label.startswith("[") and (label[1:label.index("]")].endswith("init") or label[1:label.index("]")] == "model-untouched"):
            c.failures[-1]["replay"]["facet"] = "reuse"
    return ok


def _sum(a):
    t = 0
    for v in a:
        t = t + v
    return t


def _mk_queue(interp, c, R, C, start):
    S = interp.load("bioscrape.simulator")
    q0 = sym_array(c, "q", (R, C), "int", lo=0)
    dtq = c.real("dtq", lo=0, lo_strict=True)
    q = S.ns["ArrayDelayQueue"](np.zeros((R, C), dtype=object), dtq, 0)
    return q, q0, dtq


def _set_queue(q, q0, start, nqt):
    q.queue[...] = q0
    q.start_index = start
    q.next_queue_time = nqt


def _queue_total(q, D, S, R, C):
    """sum over pending deliveries of their delayed stoichiometry"""
    tot = [0] * S
    for r in range(R):
        for col in range(C):
            for i in range(S):
                tot[i] = tot[i] + q.queue[r, col] * D[i, r]
    return tot


def _feasible(c, L, x_eff, a, U, D, S, R, K, q=None, tot_pre=None, C=None):
    """oracle-free consequence of the step relation: whatever the waiting-time / choice law, the state (plus the deliveries
    still queued, in the delay loops) is unchanged or changes by the total stoichiometry of ONE reaction with positive rate"""
    xp = [L["c_current_state"][i] for i in range(S)]
    if q is None:
        def bal(delta):
            return s_and(*[xp[i] == x_eff[i] + delta[i] for i in range(S)])
    else:
        tot_post = _queue_total(q, D, S, R, C)

        def bal(delta):
            return s_and(*[xp[i] + tot_post[i] == x_eff[i] + tot_pre[i] + delta[i] for i in range(S)])
    stay = bal([0] * S)
    moves = [s_and(a[j] > 0, bal([U[i, j] + D[i, j] for i in range(S)])) for j in range(R)]
    report(c, s_or(stay, *moves), "[feasible] %s loop: the state%s is unchanged or changes by the net (immediate + delayed) stoichiometry of "
           "one reaction whose propensity is positive" % (K, "" if q is None else " plus the deliveries still queued"),
           "%s infeasible move" % K, K)
    if _sum(a) == 0:
        report(c, stay, "[absorbing] %s loop: with total propensity zero no reaction fires" % K, "%s absorbing state left" % K, K)


def _record(c, L, grid, ci, T, S, x_eff, res0, K, V=None, vt0=None):
    """oracle-free: rows written in this iteration = grid times up to the new clock, holding the rule-updated pre-reaction
    state (and the current volume); other rows untouched"""
    ci_a = L["current_index"]
    if is_sym(ci_a):
        return
    rec = [ci <= ci_a, ci_a <= T]
    for r in range(T):
        hit = ci <= r < ci_a
        for i in range(S):
            rec.append(L["c_results"][r, i] == (x_eff[i] if hit else res0[r, i]))
        if vt0 is not None:
            rec.append(L["c_volume_trace"][r] == (V if hit else vt0[r]))
    rec += [grid[r] <= L["current_time"] for r in range(ci, min(ci_a, T))]
    report(c, s_and(*rec), "[record] %s loop: the rows written in this iteration are the grid times up to the new clock and hold the "
           "rule-updated state before this iteration's event%s; no other row is touched" % (K, "" if vt0 is None else " and the current volume"),
           "%s row recording" % K, K)


class AbsVolume:
    """Abstract volume model: arbitrary step, arbitrary division decision."""
    _pyxsym_duck = True

    def __init__(self, c, V0):
        self.c = c
        self.v = V0
        self.log = []

    def get_volume(self):
        return self.v

    def set_volume(self, v):
        self.v = v
        self.log.append(("set", v))

    def get_volume_step(self, state, params, t, V, dt):
        d = self.c.fresh_real("dV")
        self.c.assume(V + d > 0)
        self.log.append(("step", t, V, dt, d))
        return d

    def cell_divided(self, state, params, t, V, dt):
        b = self.c.fresh_int("div", lo=0, hi=1)
        self.log.append(("divided?", t, V, dt, b))
        return b


# --------------------------------------------------------------------------------------- delay loop
def delay_step(interp, c, case, facets=None, rules=False):
    c.facets = facets
    S, R, T, ci, C, start = case
    install_uniform(interp)
    sim_mod = interp.load("bioscrape.simulator")
    fi = interp.find_function("bioscrape.simulator", "DelaySSASimulator.delay_simulate")
    grid = make_grid(c, T)
    U = make_stoich(c, S, R, "U")
    D = make_stoich(c, S, R, "D")
    x0 = sym_array(c, "x0", S, "int", lo=0)
    t0 = c.real("t0")
    dt = c.real("dt", lo=0, lo_strict=True)
    c.assume(t0 <= grid[0])
    sim = AbsSim(c, S, R, x0, U, D, t0, dt)
    x0_orig, p_orig = list(x0), list(sim.params)
    UD_orig = (sim.U, [sim.U[i_, j_] for i_ in range(sim.U.shape[0]) for j_ in range(sim.U.shape[1])],
               sim.D, [sim.D[i_, j_] for i_ in range(sim.D.shape[0]) for j_ in range(sim.D.shape[1])])
    if rules:
        sim.havoc_rules()
    q, q0, dtq = _mk_queue(interp, c, R, C, start)
    simulator = sim_mod.ns["DelaySSASimulator"]()
    fr, w, post = run_prologue(interp, fi, simulator, [sim, q, grid])
    L = fr.locals
    K = "delay"
    if ci == 0 and start == 0:
        init = [L["current_index"] == 0, L["current_time"] == t0, L["rule_step"] == 1,
                q.next_queue_time == t0 + dtq, q.start_index == 0]
        init += [L["c_current_state"][i] == x0[i] for i in range(S)]
        init += [L["c_stoich"][i, j] == U[i, j] for i in range(S) for j in range(R)]
        init += [L["c_delay_stoich"][i, j] == D[i, j] for i in range(S) for j in range(R)]
        report(c, s_and(*init), "[delay-loop init] clock and queue start at the initial time; immediate and delayed "
                                "stoichiometry kept apart; state is the initial condition", kind=K)
        report(c, not np.shares_memory(L["c_current_state"], x0), "[delay-loop init] works on a copy of the initial state", kind=K)
    x = havoc_array(c, L["c_current_state"], "x", "int")
    res = havoc_array(c, L["c_results"], "res")
    res0 = res.copy()
    havoc_array(c, L["c_propensity"], "prop0")
    havoc_array(c, L["c_q_rxn_amt"], "amt0")
    t = c.real("t")
    rs = c.int("rs", lo=0, hi=1)
    nqt = c.real("nqt")
    _set_queue(q, q0, start, nqt)
    L["current_time"] = t
    L["current_index"] = ci
    L["rule_step"] = rs
    L["proposed_time"] = c.real("prop_t")
    L["Lambda"] = c.real("Lam0")
    L["reaction_fired"] = c.int("rf0", lo=0, hi=1)
    L["move_to_queued_time"] = c.int("mv0", lo=0, hi=1)
    L["next_queue_time"] = c.real("nq0")
    c.assume(t <= grid[ci])
    c.assume(t <= nqt)
    if ci > 0:
        c.assume(grid[ci - 1] <= t)
    x_pre = [x[i] for i in range(S)]
    tot_pre = _queue_total(q, D, S, R, C)
    sim.log.clear()
    c.draws.clear()
    try:
        out = interp.exec_loop_once(w, fr)
    except CFault as e:
        report(c, False, "[delay-loop] memory-unsafe access: %s" % e, "delay unsafe access", K)
        return
    if out != "next":
        report(c, False, "[delay-loop] loop body ended with %r" % (out,), kind=K)
        return
    log = sim.log
    ok_order = len(log) >= 2 and log[0][0] == "rules" and log[1][0] == "props"
    report(c, ok_order, "[rules] rules are applied once, then the propensities are computed once (delay loop)", kind=K)
    if not ok_order:
        return
    _, rx, rt, rrs, _, x_eff = log[0]
    _, px, pt, a, _ = log[1]
    report(c, s_and(rt == t, pt == t, rrs == rs, *[rx[i] == x_pre[i] for i in range(S)],
                    *[px[i] == x_eff[i] for i in range(S)]),
           "[rules] rules and propensities see the current state, time and rule_step (delay loop)", kind=K)
    Lam = _sum(a)
    c.scale_syms = {"Lam": Lam, "dt": dt}          # the counterexample's own scale, for the replay battery
    _feasible(c, L, x_eff, a, U, D, S, R, K, q=q, tot_pre=tot_pre, C=C)
    _record(c, L, grid, ci, T, S, x_eff, res0, K)
    draws = list(c.draws)
    if Lam == 0:
        fired, prop, rs_new = False, grid[ci], 1
        nd = 0
    else:
        tau = -s_log(draws[0]) / Lam
        nd = 1
        c.assume(s_not(t + tau == grid[ci]))
        if t + tau > grid[ci]:
            fired, prop, rs_new = False, grid[ci], 1
        else:
            fired, prop, rs_new = True, t + tau, 0
    c.assume(s_not(nqt == prop))
    if nqt < prop:
        move, fired, t_new, rs_new = True, False, nqt, 0
    else:
        move, t_new = False, prop
    k = ci
    while k < T and grid[k] <= t_new:
        k += 1
    ci_new = k
    post_ok = [L["current_time"] == t_new, L["rule_step"] == rs_new, L["current_index"] == ci_new]
    for r in range(T):
        for i in range(S):
            post_ok.append(L["c_results"][r, i] == (x_eff[i] if ci <= r < ci_new else res0[r, i]))
    qexp_cols = {}
    ghost_delta = [0] * S
    delays = [e for e in log if e[0] == "delay"]
    if move:
        for i in range(S):
            post_ok.append(L["c_current_state"][i] == x_eff[i] + _sum([q0[r, start] * D[i, r] for r in range(R)]))
        qs = [q.start_index == (start + 1) % C, q.next_queue_time == nqt + dtq]
        for r in range(R):
            for col in range(C):
                qs.append(q.queue[r, col] == (0 if col == start else q0[r, col]))
        post_ok += qs
        post_ok.append(len(draws) == nd)
        post_ok.append(len(delays) == 0)
    elif fired:
        q_ = draws[1] * Lam
        cum = 0
        for j in range(R):
            cum = cum + a[j]
            c.assume(s_not(q_ == cum))
        j = choice_oracle(a, q_)
        if j is None or len(delays) != 1:
            report(c, False, "[delay-loop] firing without a bracketed reaction or without exactly one delay draw", kind=K)
            return
        _, dx, drx, dval = delays[0]
        post_ok.append(drx == j)
        post_ok.append(a[j] > 0)
        post_ok += [dx[i] == x_eff[i] for i in range(S)]        # delay drawn from the pre-firing state
        # reference queue: the real add_reaction (proved in C20) on a copy of the pre-state queue
        sim_mod_q = interp.load("bioscrape.simulator").ns["ArrayDelayQueue"](q0.copy(), dtq, 0)
        sim_mod_q.start_index = start
        sim_mod_q.next_queue_time = nqt
        if dval > 0:
            sim_mod_q.add_reaction(t_new + dval, j, 1)
            post_ok += [L["c_current_state"][i] == x_eff[i] + U[i, j] for i in range(S)]
        else:
            post_ok += [L["c_current_state"][i] == x_eff[i] + U[i, j] + D[i, j] for i in range(S)]
        for r in range(R):
            for col in range(C):
                post_ok.append(q.queue[r, col] == sim_mod_q.queue[r, col])
        post_ok += [q.start_index == start, q.next_queue_time == nqt]
        ghost_delta = [U[i, j] + D[i, j] for i in range(S)]
    else:
        post_ok += [L["c_current_state"][i] == x_eff[i] for i in range(S)]
        post_ok += [q.queue[r, col] == q0[r, col] for r in range(R) for col in range(C)]
        post_ok += [q.start_index == start, q.next_queue_time == nqt, len(delays) == 0]
    report(c, s_and(*post_ok),
           "[step] delay loop: race between next reaction, next grid time and next queue slot; rows record the pre-update "
           "state; a firing applies the immediate part now and either queues one unit at t+delay (delay > 0) or applies "
           "the delayed part now; a queue step applies the due column and advances the queue", "delay step relation", K)
    # from here on the obligations are stated against the loop's own new row index (they must not inherit a verdict
    # on the sampling law from the oracle above)
    if not is_sym(L["current_index"]):
        ci_new = L["current_index"]
    tot_post = _queue_total(q, D, S, R, C)
    report(c, s_and(*[L["c_current_state"][i] + tot_post[i] == x_eff[i] + tot_pre[i] + ghost_delta[i] for i in range(S)]),
           "[conservation] state + queued deliveries changes by exactly (immediate + delayed) stoichiometry of the fired "
           "reaction, and not at all otherwise", "delay conservation", K)
    inv = [ci_new <= T, L["current_time"] >= t, L["current_time"] <= q.next_queue_time]
    if ci_new < T:
        inv.append(L["current_time"] <= grid[ci_new])
    inv += [q.queue[r, col] >= 0 for r in range(R) for col in range(C)]
    report(c, all(a is b for a, b in zip(sim.x0, x0_orig)) and all(a is b for a, b in zip(sim.params, p_orig)) and _ud_untouched(sim, UD_orig),
           "[model-untouched] delay loop: the interface's initial-state and parameter arrays are never written", "delay loop writes the model", K)
    report(c, s_and(*inv), "[invariant] delay loop: clock never runs backwards, stays before the next grid time and the "
                           "next queue slot; pending counts stay non-negative", "delay invariant", K)
    report(c, (L["rule_step"] == 1) == (ci_new > ci),
           "[dt-rule] delay loop: the step flag is raised exactly by an iteration that reports a row", "delay dt-rule schedule", K)
    if ci_new < T:
        report(c, L["current_time"] < grid[ci_new],
               "[schedule] delay loop: the clock equals a grid time only after that row is final", "delay scheduled-rule ordering", K)
    if Lam == 0:
        report(c, s_and(*[L["c_current_state"][i] == x_eff[i] + (_sum([q0[r, start] * D[i, r] for r in range(R)]) if move else 0)
                          for i in range(S)]),
               "[absorbing] with total propensity zero no reaction fires (only queued deliveries can change the state)", kind=K)
    if ci_new == T:
        st = interp.exec_stats(post, fr)
        ok = st[0] == "return" and st[1].__dict__["_cls"].name == "DelaySSAResult"
        if ok:
            r = st[1]
            ok = r.simulation_result is L["c_results"] and r.final_delay_queue is q
            tp = r.__dict__["_f"].get("timepoints")
            report(c, ok, "[exit] delay result carries the recorded rows and the final queue", kind=K)
            report(c, tp is grid or tp is L["c_timepoints"],
                   "[exit] delay result carries the requested time points", "delay result without time axis", K)
        else:
            report(c, False, "[exit] delay loop does not return a DelaySSAResult", kind=K)


# --------------------------------------------------------------------------------------- volume loop
def volume_step(interp, c, case, vol_factory=None, facets=None, rules=False, aligned=False):
    c.facets = facets
    S, R, T, ci = case
    install_uniform(interp)
    sim_mod = interp.load("bioscrape.simulator")
    fi = interp.find_function("bioscrape.simulator", "VolumeSSASimulator.volume_simulate")
    grid = make_grid(c, T)
    U = make_stoich(c, S, R, "U")
    D = make_stoich(c, S, R, "D")
    x0 = sym_array(c, "x0", S, "int", lo=0)
    t0 = c.real("t0")
    dt = c.real("dt", lo=0, lo_strict=True)
    c.assume(t0 <= grid[0])
    sim = AbsSim(c, S, R, x0, U, D, t0, dt)
    x0_orig, p_orig = list(x0), list(sim.params)
    UD_orig = (sim.U, [sim.U[i_, j_] for i_ in range(sim.U.shape[0]) for j_ in range(sim.U.shape[1])],
               sim.D, [sim.D[i_, j_] for i_ in range(sim.D.shape[0]) for j_ in range(sim.D.shape[1])])
    if rules:
        sim.havoc_rules()
    V0 = c.real("V0", lo=0, lo_strict=True)
    vol = vol_factory(interp, c, V0) if vol_factory else AbsVolume(c, V0)
    simulator = sim_mod.ns["VolumeSSASimulator"]()
    fr, w, post = run_prologue(interp, fi, simulator, [sim, vol, grid])
    L = fr.locals
    K = "volume"
    if ci == 0:
        init = [L["current_index"] == 0, L["current_time"] == t0, L["rule_step"] == 1, L["current_volume"] == V0,
                L["next_queue_time"] == t0 + dt, L["delta_t"] == dt, L["cell_divided"] == 0]
        init += [L["c_current_state"][i] == x0[i] for i in range(S)]
        init += [L["c_stoich"][i, j] == U[i, j] + D[i, j] for i in range(S) for j in range(R)]
        report(c, s_and(*init), "[volume-loop init] clock at the initial time, first volume step one dt later, volume read from "
                                "the volume object, net stoichiometry", kind=K)
        report(c, not np.shares_memory(L["c_current_state"], x0) and not np.shares_memory(L["c_timepoints"], grid),
               "[volume-loop init] works on copies of the initial state and of the time grid", kind=K)
    x = havoc_array(c, L["c_current_state"], "x", "int")
    res = havoc_array(c, L["c_results"], "res")
    vt = havoc_array(c, L["c_volume_trace"], "vt")
    res0, vt0 = res.copy(), vt.copy()
    havoc_array(c, L["c_propensity"], "prop0")
    t = c.real("t")
    rs = c.int("rs", lo=0, hi=1)
    nqt = c.real("nqt")
    V = c.real("V", lo=0, lo_strict=True)
    L["current_time"] = t
    L["current_index"] = ci
    L["rule_step"] = rs
    L["next_queue_time"] = nqt
    L["current_volume"] = V
    L["proposed_time"] = c.real("prop_t")
    L["Lambda"] = c.real("Lam0")
    L["reaction_fired"] = c.int("rf0", lo=0, hi=1)
    L["move_to_queued_time"] = c.int("mv0", lo=0, hi=1)
    c.assume(t <= grid[ci])
    c.assume(t <= nqt)
    if ci > 0:
        c.assume(grid[ci - 1] <= t)
    if aligned:
        # reporting grid and volume clock aligned (what py_simulate_model sets up): next volume step AT the next row
        c.assume(nqt == grid[ci])
        c.assume(t < grid[ci])
        if ci + 1 < T:
            c.assume(dt == grid[ci + 1] - grid[ci])
    x_pre = [x[i] for i in range(S)]
    sim.log.clear()
    c.draws.clear()
    if hasattr(vol, "log"):
        vol.log.clear()
    try:
        out = interp.exec_loop_once(w, fr)
    except CFault as e:
        report(c, False, "[volume-loop] memory-unsafe access: %s" % e, "volume unsafe access", K)
        return
    log = sim.log
    ok_order = len(log) == 2 and log[0][0] == "rules" and log[1][0] == "props"
    report(c, ok_order, "[rules] volume rules are applied once, then the volume propensities are computed once", kind=K)
    if not ok_order:
        return
    _, rx, rt, rrs, rV, x_eff = log[0]
    _, px, pt, a, pV = log[1]
    report(c, s_and(rt == t, pt == t, rrs == rs, rV == V, pV == V, *[rx[i] == x_pre[i] for i in range(S)],
                    *[px[i] == x_eff[i] for i in range(S)]),
           "[rules] volume rules and volume-scaled propensities see the current state, time and CURRENT volume", kind=K)
    Lam = _sum(a)
    c.scale_syms = {"Lam": Lam, "dt": dt}          # the counterexample's own scale, for the replay battery
    _feasible(c, L, x_eff, a, U, D, S, R, K)
    _record(c, L, grid, ci, T, S, x_eff, res0, K, V=V, vt0=vt0)
    draws = list(c.draws)
    if Lam == 0:
        fired, prop, rs_new, move = False, grid[ci], 1, False
    else:
        tau = -s_log(draws[0]) / Lam
        fired, prop, rs_new, move = True, t + tau, 0, False
    tie_step = False
    if Lam == 0:
        if nqt == prop:
            # both orders are acceptable for the step relation; follow the code and let [dt-rule] judge
            tie_step = bool(L["next_queue_time"] == nqt + dt)
    else:
        c.assume(s_not(nqt == prop))
    lam0_move = False
    if nqt < prop or tie_step:
        t_new, nqt_new, move, fired, rs_new = nqt, nqt + dt, True, False, 1
    else:
        t_new, nqt_new = prop, nqt
        lam0_move = move
    # unwinding bound T for the recording loop
    k = ci
    while k < T and grid[k] <= t_new:
        k += 1
    ci_new = k
    post_ok = [L["current_time"] == t_new, L["current_index"] == ci_new, L["next_queue_time"] == nqt_new]
    for r in range(T):
        hit = ci <= r < ci_new
        post_ok.append(L["c_volume_trace"][r] == (V if hit else vt0[r]))
        for i in range(S):
            post_ok.append(L["c_results"][r, i] == (x_eff[i] if hit else res0[r, i]))
    divided = None
    if move:
        vlog = getattr(vol, "log", [])
        steps = [e for e in vlog if e[0] == "step"]
        divs = [e for e in vlog if e[0] == "divided?"]
        if isinstance(vol, AbsVolume):
            if len(steps) != 1 or len(divs) != 1:
                report(c, False, "[volume-loop] a volume step must query the volume model exactly once", kind=K)
                return
            _, st_t, st_V, st_dt, dV = steps[0]
            _, dv_t, dv_V, dv_dt, divided = divs[0]
            post_ok += [st_t == t_new, st_V == V, st_dt == dt, L["current_volume"] == V + dV, vol.v == V + dV,
                        dv_t == t_new, dv_V == V + dV, dv_dt == dt]
        post_ok += [L["c_current_state"][i] == x_eff[i] for i in range(S)]
        if divided is not None:
            if divided == 1:
                post_ok += [out == "break", L["cell_divided"] == 1]
            else:
                post_ok += [out == "next"]
    elif fired:
        q_ = draws[1] * Lam
        cum = 0
        for j in range(R):
            cum = cum + a[j]
            c.assume(s_not(q_ == cum))
        j = choice_oracle(a, q_)
        if j is None:
            report(c, False, "[volume-loop] firing without a bracketed reaction", kind=K)
            return
        post_ok += [a[j] > 0, L["current_volume"] == V, out == "next"]
        post_ok += [L["c_current_state"][i] == x_eff[i] + U[i, j] + D[i, j] for i in range(S)]
    else:
        # neither a reaction nor a volume step: nothing but the clock (and recorded rows) changes
        post_ok += [L["current_volume"] == V, out == "next", vol.get_volume() == V0 if False else True]
        post_ok += [L["c_current_state"][i] == x_eff[i] for i in range(S)]
        if isinstance(vol, AbsVolume):
            post_ok.append(len(vol.log) == 0)
    post_ok.append(L["rule_step"] == rs_new)
    report(c, s_and(*post_ok),
           "[step] volume loop: race between next reaction and next volume step; rows record the pre-update state and the "
           "current volume; a volume step adds get_volume_step(state, t', V, dt) and asks cell_divided; a firing adds the "
           "net stoichiometry of the reaction bracketed by u*Lambda", "volume step relation", K)
    # from here on the obligations are stated against the loop's own new row index (they must not inherit a verdict
    # on the sampling law from the oracle above)
    if not is_sym(L["current_index"]):
        ci_new = L["current_index"]
    # growth-law clock: every volume step accounts for exactly one dt of the volume clock
    if move:
        report(c, s_and(t_new == nqt, nqt_new == nqt + dt),
               "[growth-clock] a volume step is taken only when the clock reaches the next volume-step time, which then "
               "advances by dt (so k steps have been taken iff k*dt has elapsed, to within one step)",
               "volume step without advancing the volume clock (total propensity zero)", K)
    if aligned and out == "next":
        conds = [(L["rule_step"] == 1) == (ci_new > ci)]
        if ci_new < T:
            conds.append(L["next_queue_time"] == grid[ci_new])
        report(c, s_and(*conds),
               "[dt-rule] volume loop with aligned clocks: the step flag is raised exactly by an iteration that reports a row, and "
               "the volume clock stays aligned with the next row (so rules with frequency dt run once per reported step)",
               "volume dt-rule runs twice per step when no reaction can fire", K)
    if ci_new < T and out == "next":
        report(c, L["current_time"] < grid[ci_new],
               "[schedule] volume loop: the clock equals a grid time only after that row is final", "volume scheduled-rule ordering", K)
    inv = [ci_new <= T, L["current_time"] >= t, L["current_volume"] > 0, L["current_time"] <= L["next_queue_time"]]
    if ci_new < T:
        inv.append(L["current_time"] <= grid[ci_new])
    report(c, all(a is b for a, b in zip(sim.x0, x0_orig)) and all(a is b for a, b in zip(sim.params, p_orig)) and _ud_untouched(sim, UD_orig),
           "[model-untouched] volume loop: the interface's initial-state and parameter arrays are never written", "volume loop writes the model", K)
    report(c, s_and(*inv), "[invariant] volume loop: clock never runs backwards and stays before the next grid time and the "
                           "next volume step; volume stays positive", "volume invariant", K)
    if out == "break" or ci_new == T:
        div_flag = L["cell_divided"]
        st = interp.exec_stats(post, fr)
        ok = st[0] == "return" and st[1].__dict__["_cls"].name == "VolumeSSAResult"
        if not ok:
            report(c, False, "[exit] volume loop does not return a VolumeSSAResult", kind=K)
            return
        r = st[1]
        n_expect = ci_new if (div_flag is True or div_flag == 1) else T
        conds = [len(r.timepoints) == n_expect, len(r.volume) == n_expect, r.simulation_result.shape[0] == n_expect,
                 r.cell_divided_flag == (1 if n_expect != T or (div_flag is True or div_flag == 1) else 0),
                 r.volume_object is vol]
        conds += [r.timepoints[i] == grid[i] for i in range(n_expect)]
        report(c, s_and(*conds), "[exit] volume result: time, state and volume traces have the same length (all rows, or the "
                                 "rows before division), the divided flag is set iff the loop stopped at a division", kind=K)


# --------------------------------------------------------------------------------------- delay + volume loop
def delay_volume_step(interp, c, case, facets=None):
    c.facets = facets
    S, R, T, ci, C, start = case
    install_uniform(interp)
    sim_mod = interp.load("bioscrape.simulator")
    fi = interp.find_function("bioscrape.simulator", "DelayVolumeSSASimulator.delay_volume_simulate")
    grid = make_grid(c, T)
    U = make_stoich(c, S, R, "U")
    D = make_stoich(c, S, R, "D")
    x0 = sym_array(c, "x0", S, "int", lo=0)
    t0 = c.real("t0")
    dt = c.real("dt", lo=0, lo_strict=True)
    c.assume(t0 <= grid[0])
    sim = AbsSim(c, S, R, x0, U, D, t0, dt)
    x0_orig, p_orig = list(x0), list(sim.params)
    UD_orig = (sim.U, [sim.U[i_, j_] for i_ in range(sim.U.shape[0]) for j_ in range(sim.U.shape[1])],
               sim.D, [sim.D[i_, j_] for i_ in range(sim.D.shape[0]) for j_ in range(sim.D.shape[1])])
    V0 = c.real("V0", lo=0, lo_strict=True)
    vol = AbsVolume(c, V0)
    q, q0, dtq = _mk_queue(interp, c, R, C, start)
    simulator = sim_mod.ns["DelayVolumeSSASimulator"]()
    fr, w, post = run_prologue(interp, fi, simulator, [sim, q, vol, grid])
    L = fr.locals
    K = "delay_volume"
    if ci == 0:
        init = [L["current_index"] == 0, L["current_time"] == t0, L["rule_step"] == 1, L["current_volume"] == V0,
                L["next_vol_time"] == t0 + dt, L["num_timepoints"] == T]
        init += [L["c_current_state"][i] == x0[i] for i in range(S)]
        init += [L["c_stoich"][i, j] == U[i, j] for i in range(S) for j in range(R)]
        init += [L["c_delay_stoich"][i, j] == D[i, j] for i in range(S) for j in range(R)]
        init += [L["c_timepoints"][k_] == grid[k_] for k_ in range(T)]
        report(c, s_and(*init), "[delay-volume-loop init] clock at the initial time, first volume step one dt later, volume read from the volume "
               "object, state equal to the initial condition, immediate and delayed stoichiometry kept apart, rule flag raised", kind=K)
        report(c, not np.shares_memory(L["c_current_state"], x0) and not np.shares_memory(L["c_timepoints"], grid),
               "[delay-volume-loop init] works on copies of the initial state and of the time grid", kind=K)
    x = havoc_array(c, L["c_current_state"], "x", "int")
    res = havoc_array(c, L["c_results"], "res")
    vt = havoc_array(c, L["c_volume_trace"], "vt")
    res0, vt0 = res.copy(), vt.copy()
    havoc_array(c, L["c_propensity"], "prop0")
    havoc_array(c, L["c_delay_rxns"], "amt0")
    t = c.real("t")
    rs = c.int("rs", lo=0, hi=1)
    nqt = c.real("nqt")
    nvt = c.real("nvt")
    V = c.real("V", lo=0, lo_strict=True)
    _set_queue(q, q0, start, nqt)
    L["current_time"] = t
    L["current_index"] = ci
    L["rule_step"] = rs
    L["next_vol_time"] = nvt
    L["current_volume"] = V
    L["proposed_time"] = c.real("prop_t")
    L["Lambda"] = c.real("Lam0")
    L["step_type"] = c.int("st0", lo=0, hi=2)
    L["next_queued_reaction_time"] = c.real("nq0")
    L["computed_delay"] = c.real("cd0")
    c.assume(t <= grid[ci])
    c.assume(t <= nqt)
    c.assume(t <= nvt)
    if ci > 0:
        c.assume(grid[ci - 1] <= t)
    x_pre = [x[i] for i in range(S)]
    tot_pre = _queue_total(q, D, S, R, C)
    sim.log.clear()
    c.draws.clear()
    vol.log.clear()
    try:
        out = interp.exec_loop_once(w, fr)
    except CFault as e:
        report(c, False, "[delay-volume-loop] memory-unsafe access: %s" % e,
               "delay-volume unsafe access (reaction sampled with total propensity zero)", K)
        return
    log = sim.log
    ok_order = len(log) >= 2 and log[0][0] == "rules" and log[1][0] == "props"
    report(c, ok_order, "[rules] rules then propensities, once each (delay+volume loop)", kind=K)
    if not ok_order:
        return
    x_eff = log[0][5]
    _, px, pt, a, pV = log[1]
    report(c, s_and(log[0][2] == t, pt == t, log[0][3] == rs, log[0][4] == V, pV == V, *[log[0][1][i] == x_pre[i] for i in range(S)],
                    *[px[i] == x_eff[i] for i in range(S)]),
           "[rules] volume rules see the current state, time, rule_step and volume; propensities see the rule-updated state "
           "(delay+volume loop)", kind=K)
    Lam = _sum(a)
    c.scale_syms = {"Lam": Lam, "dt": dt}          # the counterexample's own scale, for the replay battery
    _feasible(c, L, x_eff, a, U, D, S, R, K, q=q, tot_pre=tot_pre, C=C)
    _record(c, L, grid, ci, T, S, x_eff, res0, K, V=V, vt0=vt0)
    draws = list(c.draws)
    if Lam == 0:
        prop = grid[ci]
    else:
        prop = t + (-s_log(draws[0]) / Lam)
    for other in (nqt, nvt):
        c.assume(s_not(prop == other))
    c.assume(s_not(nqt == nvt))
    if not (Lam == 0) and prop < nvt and prop < nqt:
        kind, t_new = "reaction", prop
    elif nvt < nqt:
        kind, t_new = "volume", nvt
    else:
        kind, t_new = "queue", nqt
    k = ci
    while k < T and grid[k] <= t_new:
        k += 1
    ci_new = k
    post_ok = [L["current_time"] == t_new, L["current_index"] == ci_new]
    for r in range(T):
        hit = ci <= r < ci_new
        post_ok.append(L["c_volume_trace"][r] == (V if hit else vt0[r]))
        for i in range(S):
            post_ok.append(L["c_results"][r, i] == (x_eff[i] if hit else res0[r, i]))
    ghost_delta = [0] * S
    delays = [e for e in log if e[0] == "delay"]
    if kind == "reaction":
        if Lam == 0:
            report(c, False, "[absorbing] delay+volume loop samples a reaction although the total propensity is zero",
                   "delay-volume phantom reaction at zero total propensity", K)
            return
        q_ = draws[1] * Lam
        cum = 0
        for j in range(R):
            cum = cum + a[j]
            c.assume(s_not(q_ == cum))
        j = choice_oracle(a, q_)
        if j is None or len(delays) != 1:
            report(c, False, "[delay-volume-loop] firing without bracketed reaction / delay draw", kind=K)
            return
        _, dx, drx, dval = delays[0]
        refq = interp.load("bioscrape.simulator").ns["ArrayDelayQueue"](q0.copy(), dtq, 0)
        refq.start_index = start
        refq.next_queue_time = nqt
        if dval > 0:
            refq.add_reaction(t_new + dval, j, 1)
            post_ok += [L["c_current_state"][i] == x_eff[i] + U[i, j] for i in range(S)]
        else:
            post_ok += [L["c_current_state"][i] == x_eff[i] + U[i, j] + D[i, j] for i in range(S)]
        post_ok += [q.queue[r, col] == refq.queue[r, col] for r in range(R) for col in range(C)]
        post_ok += [drx == j, a[j] > 0, L["current_volume"] == V, L["next_vol_time"] == nvt]
        ghost_delta = [U[i, j] + D[i, j] for i in range(S)]
    elif kind == "volume":
        steps = [e for e in vol.log if e[0] == "step"]
        divs = [e for e in vol.log if e[0] == "divided?"]
        if len(steps) != 1 or len(divs) != 1:
            report(c, False, "[delay-volume-loop] a volume step must query the volume model exactly once", kind=K)
            return
        _, st_t, st_V, st_dt, dV = steps[0]
        post_ok += [st_t == t_new, st_V == V, st_dt == dt, L["current_volume"] == V + dV, L["next_vol_time"] == nvt + dt]
        post_ok += [L["c_current_state"][i] == x_eff[i] for i in range(S)]
        post_ok += [q.queue[r, col] == q0[r, col] for r in range(R) for col in range(C)]
    else:
        for i in range(S):
            post_ok.append(L["c_current_state"][i] == x_eff[i] + _sum([q0[r, start] * D[i, r] for r in range(R)]))
        post_ok += [q.start_index == (start + 1) % C, q.next_queue_time == nqt + dtq, L["current_volume"] == V]
        for r in range(R):
            for col in range(C):
                post_ok.append(q.queue[r, col] == (0 if col == start else q0[r, col]))
    report(c, s_and(*post_ok), "[step] delay+volume loop: three-way race (reaction / volume step / queue slot) with recording of "
                               "pre-update state and current volume", "delay-volume step relation", K)
    # from here on the obligations are stated against the loop's own new row index (they must not inherit a verdict
    # on the sampling law from the oracle above)
    if not is_sym(L["current_index"]):
        ci_new = L["current_index"]
    tot_post = _queue_total(q, D, S, R, C)
    report(c, s_and(*[L["c_current_state"][i] + tot_post[i] == x_eff[i] + tot_pre[i] + ghost_delta[i] for i in range(S)]),
           "[conservation] delay+volume loop: state + queued deliveries changes exactly by the fired reaction's total "
           "stoichiometry", "delay-volume conservation", K)
    report(c, all(a is b for a, b in zip(sim.x0, x0_orig)) and all(a is b for a, b in zip(sim.params, p_orig)) and _ud_untouched(sim, UD_orig),
           "[model-untouched] delay+volume loop: the interface's initial-state and parameter arrays are never written",
           "delay+volume loop writes the model", K)
    report(c, s_and(L["current_time"] >= t, L["current_volume"] > 0),
           "[invariant] delay+volume loop: clock never runs backwards, volume stays positive", "delay-volume invariant", K)
