"""C03 - stoichiometry and net rate equations follow the reaction list.

Real code executed: Model.__init__ / create_reaction / _add_reaction / _initialize / _create_vectors /
_create_stochiometric_matrices / check_parameters / check_species; CSimInterface.prep_deterministic_simulation and
calculate_deterministic_derivative (plain and safe); ModelCSimInterface.__init__.
Reaction structure is explored exhaustively by path forking over symbolic species choices; the derivative identity is
decided by z3 for symbolic stoichiometric matrices and arbitrary rate vectors.
"""
import itertools

import numpy as np

from .common import Check, model_env
from .stubs import ptr, sym_array
from pyxsym.sym import s_and, is_sym, Sym, ctx

REPLAY = ("replay_drivers.C03", "replay")
POOL = ["X", "Y", "Z"]


def _pick(c, name, k):
    """k symbolic species choices -> concrete names by path forking"""
    out = []
    for i in range(k):
        v = c.int("%s%d" % (name, i), lo=0, hi=len(POOL) - 1)
        out.append(POOL[c.concretize(v, 0, len(POOL))])
    return out


def _rep(c, cond, label, sig, rp, syms=None):
    ok = c.prove(cond, label, info={"sig": sig, "what": label})
    if ok is False:
        rp = dict(rp)
        if syms:
            rp["values"] = model_env(c, c.failures[-1]["model"], syms)
        c.failures[-1]["replay"] = rp
        c.failures[-1]["info"]["what"] = "%s for %s" % (label, rp)
    return ok


def stoich_job(interp, c, case):
    lr, lp, ldr, ldp, order, ptype = case
    T = interp.load("bioscrape.types")
    re, pr = _pick(c, "r", lr), _pick(c, "p", lp)
    dre, dpr = _pick(c, "dr", ldr), _pick(c, "dp", ldp)
    decl = [POOL[i] for i in order]
    if ptype == "massaction":
        pd = {"k": 1.5}
    elif ptype == "hillpositive":
        pd = {"k": 1.0, "K": 2.0, "n": 2, "s1": POOL[0]}
    else:
        pd = {"rate": "k0*%s + 1" % POOL[1], "k0": 0.5}
        pd = {"rate": "0.5*%s + 1" % POOL[1]}
    if ldr or ldp:
        # delayed parts with a delay - or with no delay type at all (both forms are accepted; the delayed part is then
        # applied together with the immediate one, but it is still part of the reaction)
        nodelay = (len(re) + len(pr) + len(order)) % 2 == 1 if isinstance(order, (list, tuple)) else False
        rx = (re, pr, ptype, pd, None, dre, dpr, {}) if nodelay else (re, pr, ptype, pd, "fixed", dre, dpr, {"delay": 1.0})
    else:
        rx = (re, pr, ptype, pd)
    # a second, fixed reaction so that column indices matter
    rx2 = ([POOL[2]], [POOL[0]], "massaction", {"k": 2.0})
    import copy as _copy
    args_before = _copy.deepcopy((decl, rx2, rx))
    M = T.ns["Model"](species=decl, reactions=[rx2, rx])
    _rep(c, (decl, rx2, rx) == args_before, "building the model leaves the caller's species list, reaction tuples and parameter dictionaries "
         "as they were (they may be shared between reactions)", "model construction modifies its arguments", dict(kind="arguments"))
    U, D = M.py_get_update_array(), M.py_get_delay_update_array()
    idx = M.get_species2index()
    rp = dict(kind="stoich", reactants=re, products=pr, dre=dre, dpr=dpr, order=decl, ptype=ptype, nodelay=bool((ldr or ldp) and nodelay))
    ok = True
    for s in POOL:
        want_u = pr.count(s) - re.count(s)
        want_d = dpr.count(s) - dre.count(s)
        ok = ok and U[idx[s], 1] == want_u and D[idx[s], 1] == want_d
        ok = ok and U[idx[s], 0] == (1 if s == POOL[0] else -1 if s == POOL[2] else 0) and D[idx[s], 0] == 0
    _rep(c, bool(ok) and U.shape == (3, 2) and D.shape == (3, 2),
         "stoichiometric matrices = products - reactants with multiplicity (immediate and delayed part), rows by declaration order",
         "stoichiometry %s" % ptype, rp)
    _rep(c, [idx[s] for s in decl] == [0, 1, 2] and M.get_species_list() == decl, "species indices follow the declaration order",
         "species order", rp)


def derivative_job(interp, c, case):
    S_, R_, safe = case
    Sm = interp.load("bioscrape.simulator")
    U = sym_array(c, "U", (S_, R_), "int", lo=-4, hi=4)
    D = sym_array(c, "D", (S_, R_), "int", lo=-4, hi=4)
    x = sym_array(c, "x", S_, "real", lo=0)
    if safe:
        for v in x:
            c.assume(v > 0)
    t = c.real("t")
    props = []
    cls = Sm.classes["SafeModelCSimInterface" if safe else "CSimInterface"]
    itf = interp.instantiate_raw(cls) if hasattr(interp, "instantiate_raw") else None
    from pyxsym.values import ObjModel
    itf = ObjModel(cls, interp)
    for nm, ty in cls.all_attrs().items():
        itf.__dict__["_f"][nm] = interp.default_value(ty)
    itf.update_array, itf.delay_update_array = U, D
    itf.num_species, itf.num_reactions = S_, R_
    seen = []

    def compute_propensities(self, state, dest, time):
        seen.append(([state[i] for i in range(S_)], time))
        a = [ctx().fresh_real("rate", lo=0 if safe else None) for _ in range(R_)]
        props.append(a)
        for j in range(R_):
            dest[j] = a[j]
    fi = cls.find_method("compute_propensities")
    saved = fi.native
    fi.native = compute_propensities
    try:
        itf.prep_deterministic_simulation()
        dx = sym_array(c, "stale", S_, "real")          # whatever the caller's output array held before: every entry is (over)written
        xs = x.copy()
        itf.calculate_deterministic_derivative(ptr(interp, xs), ptr(interp, dx), t)
    finally:
        fi.native = saved
    a = props[0]
    conds = []
    for s in range(S_):
        tot = 0
        for r in range(R_):
            tot = tot + (U[s, r] + D[s, r]) * a[r]
        conds.append(dx[s] == tot)
    conds += [seen[0][1] == t] + [seen[0][0][i] == x[i] for i in range(S_)]
    _rep(c, s_and(*conds) and len(props) == 1,
         "%s interface: d x_s/dt = sum_r (immediate + delayed stoichiometry)[s,r] * rate_r(x,t)" % ("safe" if safe else "plain"),
         "derivative %s" % ("safe" if safe else "plain"), dict(kind="derivative", safe=safe, S=S_, R=R_),
         syms=dict([("U_%d_%d" % (i, j), U[i, j]) for i in range(S_) for j in range(R_)]
                   + [("D_%d_%d" % (i, j), D[i, j]) for i in range(S_) for j in range(R_)]
                   + [("x_%d" % i, x[i]) for i in range(S_)] + [("a_%d" % j, a[j]) for j in range(R_)]))


def model_derivative_job(interp, c, case):
    """the same identity through a real Model / ModelCSimInterface with C01's closed forms"""
    safe, = case
    T = interp.load("bioscrape.types")
    Sm = interp.load("bioscrape.simulator")
    k1, k2, k3 = c.real("k1", lo=0), c.real("k2", lo=0), c.real("k3", lo=0)
    kf, kr = c.real("kf", lo=0), c.real("kr", lo=0)
    M = T.ns["Model"](species=["B", "A", "C", "Z"],           # Z takes part in no reaction: its derivative is 0, written like any other
                      reactions=[(["A", "A"], ["B"], "massaction", {"k": "k1"}),
                                 (["A", "B"], ["A"], "massaction", {"k": "k2"}, "fixed", [], ["C", "C"], {"delay": "tau"}),
                                 ([], ["A"], "massaction", {"k": "k3"})]
                      # a net flux written as one reaction may run backwards: the plain interface reports its (negative) rate as it is
                      # (the safe interface documents that it warns and uses 0 instead)
                      + ([] if safe else [(["B"], ["C"], "general", {"rate": "kf*A - kr*B"})]),
                      parameters=[("k1", k1), ("k2", k2), ("k3", k3), ("tau", 1.0), ("kf", kf), ("kr", kr)])
    itf = Sm.ns["SafeModelCSimInterface" if safe else "ModelCSimInterface"](M)
    itf.py_prep_deterministic_simulation()
    st = {s: c.real("s_" + s, lo=0) for s in ("A", "B", "C", "Z")}
    if safe:
        for v in st.values():
            c.assume(v > 0)
    x = np.array([st[s] for s in M.get_species_list()], dtype=object)
    dx = sym_array(c, "stale", 4, "real")
    itf.py_calculate_deterministic_derivative(x, dx, 0)
    A, B = st["A"], st["B"]
    r1, r2, r3 = k1 * A * A, k2 * A * B, k3
    r4 = 0 if safe else kf * A - kr * B
    want = {"A": -2 * r1 + r3, "B": r1 - r2 - r4, "C": 2 * r2 + r4, "Z": 0}
    _rep(c, s_and(*[dx[i] == want[s] for i, s in enumerate(M.get_species_list())]),
         "%s interface on a real model: 2A->B, A+B->A (+2C delayed), 0->A%s gives dA=-2k1A^2+k3, dB=k1A^2-k2AB%s, dC=2k2AB%s"
         % (("safe", "", "", "") if safe else ("plain", ", B->C at the net rate kf*A-kr*B of either sign", "-(kfA-krB)", "+(kfA-krB)")),
         "model derivative", dict(kind="model_derivative", safe=safe))


def missing_param_job(interp, c, case):
    which, = case
    T = interp.load("bioscrape.types")
    kw = dict(species=["X", "Y"])
    if which == "massaction":
        kw["reactions"] = [(["X"], ["Y"], "massaction", {"k": "kmiss"})]
    elif which == "hill":
        kw["reactions"] = [(["X"], ["Y"], "hillpositive", {"k": 1.0, "K": "Kmiss", "n": 2, "s1": "X"})]
    elif which == "general":
        kw["reactions"] = [(["X"], ["Y"], "general", {"rate": "kmiss*X"})]
    elif which == "delay":
        kw["reactions"] = [(["X"], [], "massaction", {"k": 1.0}, "fixed", [], ["Y"], {"delay": "taumiss"})]
    elif which == "rule":
        kw["rules"] = [("assignment", {"equation": "Y = kmiss*X"})]
    # the parameter without a value need not be the last one the model gets to know
    elif which == "massaction+declared":
        kw["reactions"] = [(["X"], ["Y"], "massaction", {"k": "kmiss"})]
        kw["parameters"] = [("zeta_last", 2.0)]
    elif which == "first-of-two-reactions":
        kw["reactions"] = [(["X"], ["Y"], "massaction", {"k": "kmiss"}), (["Y"], [], "massaction", {"k": 0.5})]
    elif which == "one-of-two-named":
        kw["reactions"] = [(["X"], ["Y"], "massaction", {"k": "kmiss"}), (["Y"], [], "massaction", {"k": "k2"})]
        kw["parameters"] = [("k2", 0.5)]
    elif which == "hill-K":
        kw["reactions"] = [(["X"], ["Y"], "hillpositive", {"k": "kh", "K": "Kmiss", "n": "nh", "s1": "X"})]
        kw["parameters"] = [("kh", 1.0), ("nh", 2.0)]
    elif which == "delay-then-reaction":
        kw["reactions"] = [(["X"], [], "massaction", {"k": 1.0}, "fixed", [], ["Y"], {"delay": "taumiss"}), (["Y"], [], "massaction", {"k": 0.5})]
    elif which == "rule+later-rule":
        kw["rules"] = [("assignment", {"equation": "Y = kmiss*X"}), ("assignment", {"equation": "X = 2*k9"})]
        kw["parameters"] = [("k9", 1.0)]
    try:
        M = T.ns["Model"](**kw)
        _rep(c, False, "a model whose %s refers to a parameter without a value initialises" % which, "missing parameter accepted",
             dict(kind="missing", which=which))
    except ValueError as e:
        c.prove("Unspecified Parameters" in str(e), "missing parameter in %s makes initialisation fail with 'Unspecified Parameters'" % which)
    # and a deferred-initialisation model refuses to build an interface
    kw["initialize_model"] = False
    M = T.ns["Model"](**kw)
    Sm = interp.load("bioscrape.simulator")
    try:
        Sm.ns["ModelCSimInterface"](M)
        _rep(c, False, "interface built on a model with a valueless parameter (%s)" % which, "missing parameter accepted",
             dict(kind="missing", which=which))
    except ValueError:
        c.prove(True, "building an interface on such a model fails as well (%s)" % which)
    # the refusal is not a one-off: the same model object is refused again (interface, initialisation) - it is never left looking initialised
    for attempt in (2, 3):
        try:
            if attempt == 2:
                Sm.ns["ModelCSimInterface"](M)
            else:
                M.py_initialize()
            _rep(c, False, "attempt %d on the same model object goes through although the parameter still has no value (%s)" % (attempt, which),
                 "missing parameter accepted on a later attempt", dict(kind="missing", which=which, again=True))
        except ValueError:
            c.prove(True, "attempt %d on the same model object is refused as well (%s)" % (attempt, which))


def cases(tier):
    out = []
    orders = list(itertools.permutations(range(3)))
    lens = [(lr, lp, ldr, ldp) for lr in range(3) for lp in range(3) for ldr in range(2) for ldp in range(2)]
    if tier == "thorough":
        lens = [(lr, lp, ldr, ldp) for lr in range(4) for lp in range(4) for ldr in range(2) for ldp in range(2)
                if lr + lp + ldr + ldp <= 5]
    # delayed parts with more than one entry (a species delivered twice, a species that is delayed reactant and delayed product)
    lens += [(1, 0, 0, 2), (1, 1, 1, 2), (0, 1, 2, 0), (1, 0, 2, 2)] if tier == "thorough" else [(1, 0, 0, 2), (1, 0, 2, 1)]
    for i, L in enumerate(lens):
        for j, o in enumerate(orders):
            if tier == "quick" and (i + j) % 3:
                continue
            pt = ["massaction", "hillpositive", "general"][(i + j) % 3] if tier == "quick" else None
            for ptype in ([pt] if pt else ["massaction", "hillpositive", "general"]):
                if tier == "thorough" and (ptype != "massaction" and (i + j) % 4 or ptype == "massaction" and sum(L) >= 4 and j % 3):
                    continue
                out.append(L + (o, ptype))
    return out


def check(tier):
    ck = Check("C03", "model_checking", tier)
    cs = cases(tier)
    n = 16
    k = max(1, (len(cs) + n - 1) // n)
    for i in range(0, len(cs), k):
        ck.add("stoich/%d" % (i // k), "harness.C03", "stoich_job", dict(cases=cs[i:i + k]), max_paths=100000)
    sizes = [(1, 1), (2, 2), (2, 3)] + ([(3, 3)] if tier == "thorough" else [])
    for (S, R) in sizes:
        for safe in (False, True):
            if (S, R, safe) == (3, 3, True):
                continue          # 2^9 sign paths x bounds checks: 35 min for no new code (the safe route differs per access, not per size)
            ck.add("derivative/S%dR%d/%s" % (S, R, "safe" if safe else "plain"), "harness.C03", "derivative_job",
                   dict(cases=[(S, R, safe)]), max_paths=100000)
    for safe in (False, True):
        ck.add("model-derivative/%s" % safe, "harness.C03", "model_derivative_job", dict(cases=[(safe,)]))
    ck.add("missing-parameter", "harness.C03", "missing_param_job",
           dict(cases=[("massaction",), ("hill",), ("general",), ("delay",), ("rule",), ("massaction+declared",), ("first-of-two-reactions",),
                       ("one-of-two-named",), ("hill-K",), ("delay-then-reaction",), ("rule+later-rule",)]))
    ck.bounds = dict(species_pool=3, reactants="0..%d" % (2 if tier == "quick" else 3), products="0..%d" % (2 if tier == "quick" else 3),
                     delayed_reactants="0..1", delayed_products="0..%d" % (1 if tier == "quick" else 2),
                     declaration_orders="all 6", stoichiometric_matrix_entries="[-4,4], S,R <= 3 (safe route S,R <= 2x3)", reaction_shapes=len(cs))
    ck.assumptions = [
        "species choices are symbolic integers concretised by path forking (exhaustive over the pool), so the stoichiometry "
        "obligations are decided per structure; the derivative identity is decided by z3 for all matrices and rate vectors",
        "safe interface: interior of the positive orthant (it deliberately clips at the boundary)",
    ]
    mut = [
        ("reactant-sign", dict(module="bioscrape.types", old="            reaction_update_dict[r]  -= 1\n\n        for p in products:", new="            reaction_update_dict[r]  = -1\n\n        for p in products:"), "stoich"),
        ("delayed-into-immediate", dict(module="bioscrape.types", old="                    self.delay_update_array[self.species2index[sp],reaction_index] = delay_reaction_update_dict[sp]",
                                        new="                    self.update_array[self.species2index[sp],reaction_index] = delay_reaction_update_dict[sp]"), "stoich"),
        ("derivative-drops-delayed", dict(module="bioscrape.simulator", old="                    self.S_values[s].push_back(self.update_array[s,r]+self.delay_update_array[s,r])",
                                          new="                    self.S_values[s].push_back(self.update_array[s,r])"), "deriv"),
        ("nan-check-removed", dict(module="bioscrape.types", old="            if np.isnan(self.params_values[i]):", new="            if False:"), "missing"),
    ]
    for name, m, w in mut:
        if w == "stoich":
            ck.add_mutant(name, m, "stoich", "harness.C03", "stoich_job", dict(cases=[x for x in cs if x[0] >= 2 and x[3] >= 1][:24] + cs[:16]))
        elif w == "deriv":
            ck.add_mutant(name, m, "deriv", "harness.C03", "derivative_job", dict(cases=[(2, 2, False)]))
        else:
            ck.add_mutant(name, m, "missing", "harness.C03", "missing_param_job", dict(cases=[("massaction",)]))
    ck.validate = ['derivative']
    ck.run()
    return ck.finish(replay=REPLAY)
