"""C11 - volume-aware simulation scales rates with volume and tracks growth and division.

 * one inductive step of VolumeSSASimulator.volume_simulate (abstract volume model: arbitrary step and division
   decision; and the real StochasticTimeThresholdVolume / StateDependentVolume), with initialisation and exit
   (truncation at division) obligations and the growth-clock invariant;
 * the volume models' kernels from types.pyx;
 * the volume-scaled propensities used are C01's volume forms evaluated at the CURRENT volume (facet [rules]
   here + C01 for the closed forms).
"""
from fractions import Fraction

import numpy as np

from .common import Check
from .stubs import install_uniform, ptr, sym_array
from . import steps
from pyxsym.sym import s_and, s_or, s_not, s_log, s_exp, s_sqrt, s_cos, ite, is_sym, Sym

REPLAY = ("replay_drivers.C11", "replay")
FACETS = ["step", "growth-clock", "invariant", "exit", "loop", "init", "rules"]


def _report(c, cond, label, sig=None, kind="volume"):
    ok = c.prove(cond, label, info={"sig": sig or label, "what": label})
    if ok is False:
        c.failures[-1]["replay"] = {"kind": kind}
    return ok


def _sttv(interp, c, V0):
    T = interp.load("bioscrape.types")
    cyc = c.real("cycle", lo=0, lo_strict=True)
    v = T.ns["StochasticTimeThresholdVolume"](cyc, c.real("Vdiv", lo=0, lo_strict=True), c.real("noise", lo=0))
    v.division_time = c.real("tdiv")
    v.set_volume(V0)
    return v


def volume_step_real(interp, c, case, facets=None):
    """the loop step with the real StochasticTimeThresholdVolume inside"""
    return steps.volume_step(interp, c, case, vol_factory=_sttv, facets=facets)


def kernel_job(interp, c, case):
    which, = case
    T = interp.load("bioscrape.types")
    install_uniform(interp)
    st = np.array([c.int("x0", lo=0), c.int("x1", lo=0)], dtype=object)
    pv = np.array([c.real("p0")], dtype=object)
    V = c.real("V", lo=0, lo_strict=True)
    dt = c.real("dt", lo=0, lo_strict=True)
    t = c.real("t")
    if which == "sttv":
        cyc = c.real("cycle", lo=0, lo_strict=True)
        Vd = c.real("Vdiv", lo=0, lo_strict=True)
        noise = c.real("noise", lo=0)
        v = T.ns["StochasticTimeThresholdVolume"](cyc, Vd, noise)
        g = Fraction("0.69314718056") / cyc
        _report(c, v.growth_rate == g, "growth rate is ln2 / cell-cycle time (volume doubles once per cycle)", kind="sttv")
        d1 = v.get_volume_step(ptr(interp, st), ptr(interp, pv), t, V, dt)
        V1 = V + d1
        _report(c, s_and(V1 == V * s_exp(g * dt), V1 > 0, V1 >= V),
                "one volume step multiplies the volume by exp(g*dt): positive and non-decreasing", kind="sttv")
        d2 = v.get_volume_step(ptr(interp, st), ptr(interp, pv), t + dt, V1, dt)
        _report(c, V1 + d2 == V * s_exp(g * dt) * s_exp(g * dt), "k steps give V0*exp(g*dt)^k  (k = 2)", kind="sttv")
        _report(c, v.get_volume_step(ptr(interp, st), ptr(interp, pv), t, V, 0) == 0, "a zero-length step does not change the volume", kind="sttv")
        td = c.real("tdiv")
        v.division_time = td
        dv = v.cell_divided(ptr(interp, st), ptr(interp, pv), t, V, dt)
        c.assume(s_not(td == t - dt))
        _report(c, (dv == 1) == s_and(td > t - dt, td <= t), "cell_divided reports division exactly for the step (t-dt, t] "
                                                           "containing the sampled division time", kind="sttv")
        c.draws.clear()
        v.initialize(ptr(interp, st), ptr(interp, pv), t, V)
        u, w = c.draws
        nrm = s_sqrt(-2 * s_log(u)) * s_cos(2 * Fraction("3.141592653589793238462643383279502884") * w) * noise + 1
        _report(c, s_and(v.get_volume() == V, v.division_time == t + nrm * (s_log(Vd / V) / g)),
                "initialize samples the division time as t + Normal(1, noise) * ln(Vdiv/V)/g and records the volume", kind="sttv")
        k = v.copy()
        _report(c, s_and(k.division_time == v.division_time, k.get_volume() == V, k.growth_rate == g) and k is not v,
                "copy keeps the sampled division time, the volume and the growth rate", kind="sttv")
    elif which == "base":
        v = T.ns["Volume"]()
        v.py_set_volume(V)
        _report(c, s_and(v.get_volume_step(ptr(interp, st), ptr(interp, pv), t, V, dt) == 0,
                         v.cell_divided(ptr(interp, st), ptr(interp, pv), t, V, dt) == 0, v.py_get_volume() == V),
                "the constant volume model never grows and never divides")
    elif which == "state":
        gr = c.real("gr")

        class _Term:
            _pyxsym_duck = True

            def evaluate(self, s, p, tt):
                return gr
        v = T.ns["StateDependentVolume"]()
        v.growth_rate = _Term()
        v.division_volume = c.real("Vd")
        d1 = v.get_volume_step(ptr(interp, st), ptr(interp, pv), t, V, dt)
        _report(c, s_and(V + d1 == V * s_exp(gr * dt), V + d1 > 0),
                "state-dependent growth multiplies the volume by exp(rate(state)*dt): positive")
        c.assume(gr >= 0)
        _report(c, V + d1 >= V, "non-negative growth rate gives a non-decreasing volume")
        _report(c, (v.cell_divided(ptr(interp, st), ptr(interp, pv), t, V, dt) == 1) == (V > v.division_volume),
                "state-dependent volume divides exactly when the volume exceeds the sampled division volume")


def general_volume_job(interp, c, case):
    """general rate laws that mention the volume themselves (the user writes the scaling): in the volume-aware modes the symbol reads the
    current volume wherever it stands in the formula - also inside a quotient or a power - and 1 in the other modes"""
    text, closed = case
    T = interp.load("bioscrape.types")
    k, K = c.real("k", lo=0, lo_strict=True), c.real("K", lo=0, lo_strict=True)
    A, B = c.real("A", lo=0), c.real("B", lo=0)
    V, t = c.real("V", lo=0, lo_strict=True), c.real("t", lo=0)
    M = T.ns["Model"](species=["A", "B"], parameters=[("k", k), ("K", K)], reactions=[(["A", "B"], [], "general", {"rate": text})])
    p = M.propensities[0]
    pv = M.params_values
    st = {"A": A, "B": B}
    sv = np.array([st[s_] for s_ in M.get_species_list()], dtype=object)
    f = {"k*A*B/volume": lambda v: k * A * B / v, "k*A*B*volume^(-1)": lambda v: k * A * B / v, "k*A*B/volume^2": lambda v: k * A * B / (v * v),
         "k*(A/volume)^2/(K^2 + (A/volume)^2)": lambda v: k * (A / v) * (A / v) / (K * K + (A / v) * (A / v)),
         "k*volume*A": lambda v: k * v * A}[closed]
    got = dict(deterministic=p.get_propensity(ptr(interp, sv.copy()), ptr(interp, pv), t),
               stochastic=p.get_stochastic_propensity(ptr(interp, sv.copy()), ptr(interp, pv), t),
               volume=p.get_volume_propensity(ptr(interp, sv.copy()), ptr(interp, pv), V, t),
               stochastic_volume=p.get_stochastic_volume_propensity(ptr(interp, sv.copy()), ptr(interp, pv), V, t))
    for mode, val in got.items():
        want = f(V) if mode.endswith("volume") else f(1)
        ok = c.prove(val == want, "general rate '%s' in %s mode is the written formula with volume = %s" % (text, mode, "V" if mode.endswith("volume") else "1"),
                     info={"sig": "general rate volume symbol %s" % mode, "what": "general rate '%s' %s" % (text, mode)})
        if ok is False:
            c.failures[-1]["replay"] = {"kind": "general_volume", "text": text, "mode": mode}


def check(tier):
    ck = Check("C11", "model_checking", tier)
    vs = [(2, 2, 2), (2, 2, 3)] if tier == "quick" else [(2, 2, 2), (2, 2, 3), (3, 3, 3), (2, 3, 4)]
    for (S, R, T) in vs:
        for ci in range(T):
            ck.add("volume-step/S%dR%dT%d/ci%d" % (S, R, T, ci), "harness.steps", "volume_step",
                   dict(cases=[(S, R, T, ci)], facets=FACETS))
    for (S, R, T) in vs[:2]:
        for ci in range(T):
            ck.add("volume-step-sttv/S%dR%dT%d/ci%d" % (S, R, T, ci), "harness.C11", "volume_step_real",
                   dict(cases=[(S, R, T, ci)], facets=FACETS))
    for w in ("sttv", "base", "state"):
        ck.add("kernel/" + w, "harness.C11", "kernel_job", dict(cases=[(w,)]))
    # the volume-scaled rate laws themselves, through the plain and safe interfaces (C01's closed forms)
    from . import C01
    ms = [x for x in C01.massaction_structures("quick") if len(x[1]) == 1 and len(x[1][0]) <= 3 and x[2]]
    hs = [x for x in C01.hill_structures("quick") if x[4] and x[5] in ("sym", 2)]
    if tier == "quick":
        ms, hs = ms[::2], hs[::3]
    for i in range(0, len(ms), 8):
        ck.add("rate-laws/massaction/%d" % (i // 8), "harness.C01", "massaction_job",
               dict(cases=ms[i:i + 8], domain="real", routes=["interface", "safe"], modes=["volume", "stochastic_volume"]))
    for i in range(0, len(hs), 8):
        ck.add("rate-laws/hill/%d" % (i // 8), "harness.C01", "hill_job", dict(cases=hs[i:i + 8], domain="real", routes=["interface", "safe"], modes=["volume", "stochastic_volume"]))
    # general rate laws that carry their own volume scaling, and the expression nodes' volume-aware evaluation (C02's node obligations)
    for tx in ("k*A*B/volume", "k*A*B*volume^(-1)", "k*A*B/volume^2", "k*(A/volume)^2/(K^2 + (A/volume)^2)", "k*volume*A"):
        ck.add("general-volume/%s" % tx, "harness.C11", "general_volume_job", dict(cases=[(tx, tx)]))
    nodes = [("VolumeTerm", 0), ("PowerTerm", 2), ("ExpTerm", 1), ("LogTerm", 1), ("StepTerm", 1), ("AbsTerm", 1)]
    nodes += [(cls, a) for cls in ("SumTerm", "ProductTerm", "MaxTerm", "MinTerm") for a in (2, 3)]
    ck.add("expression-nodes", "harness.C02", "node_job", dict(cases=nodes))
    ck.bounds = dict(species="<= 3", reactions="<= 3", time_points="<= 4",
                     loop="one iteration from an arbitrary pre-state (inductive) + initialisation + exit/truncation")
    ck.assumptions = [
        "ghost growth clock: a volume step is taken iff the clock reaches next_queue_time, which then advances by dt; hence "
        "after k*dt of simulated time k (+-1) steps have been taken and the reported volume is within one step of "
        "V0*exp(g*t) for the exponential models",
        "abstract volume model in the generic step: arbitrary step keeping V > 0 and arbitrary division decision; exp, ln, "
        "sqrt, cos uninterpreted with sign/monotonicity lemmas; reals for doubles",
        "the distribution of the sampled division time/volume is outside the claim; the master-equation claim for constant "
        "volume follows from this step relation (= C05's with volume-scaled propensities) and Gillespie's theorem",
    ]
    mut = [
        ("volume-step-without-clock", dict(module="bioscrape.simulator",
                                          old="                reaction_fired = 0\n                rule_step = 1\n                move_to_queued_time = 0\n            else:",
                                          new="                reaction_fired = 0\n                rule_step = 1\n                move_to_queued_time = 1\n            else:"), "step"),
        ("volume-recorded-after-growth", dict(module="bioscrape.simulator",
                                             old="                c_volume_trace[current_index] = current_volume\n                current_index += 1\n\n            # Now update the state accordingly.\n\n            # IF the queue won, then update the volume and continue on or stop if the cell divided.",
                                             new="                c_volume_trace[current_index] = v.get_volume()\n                current_index += 1\n\n            # Now update the state accordingly.\n\n            # IF the queue won, then update the volume and continue on or stop if the cell divided."), "none"),
        ("truncation-off-by-one", dict(module="bioscrape.simulator",
                                      old="            c_volume_trace = c_volume_trace[:(current_index)]\n            c_results = c_results[:current_index,:]\n\n        cdef VolumeSSAResult vsr",
                                      new="            c_volume_trace = c_volume_trace[:(current_index+1)]\n            c_results = c_results[:current_index,:]\n\n        cdef VolumeSSAResult vsr"), "step"),
        ("growth-linear", dict(module="bioscrape.types", old="return ( exp(self.growth_rate*dt) - 1.0) * volume",
                               new="return self.growth_rate*dt * volume"), "kernel"),
        ("division-window-shifted", dict(module="bioscrape.types", old="if self.division_time > time - dt and self.division_time <= time:",
                                         new="if self.division_time > time and self.division_time <= time + dt:"), "kernel"),
        ("stale-volume-in-propensities", dict(module="bioscrape.simulator",
                                             old="            sim.compute_stochastic_volume_propensities(<double*> (c_current_state.data), <double*> (c_propensity.data),\n                                            current_volume, current_time)\n            Lambda = cyrandom.array_sum(<double*> (c_propensity.data), num_reactions)\n\n            # Either we are going to move to the next queued time, or we move to the next reaction time.\n            if Lambda == 0:\n                proposed_time = c_timepoints[current_index]\n                reaction_fired = 0\n                rule_step = 1\n                move_to_queued_time",
                                             new="            sim.compute_stochastic_volume_propensities(<double*> (c_current_state.data), <double*> (c_propensity.data),\n                                            1.0, current_time)\n            Lambda = cyrandom.array_sum(<double*> (c_propensity.data), num_reactions)\n\n            # Either we are going to move to the next queued time, or we move to the next reaction time.\n            if Lambda == 0:\n                proposed_time = c_timepoints[current_index]\n                reaction_fired = 0\n                rule_step = 1\n                move_to_queued_time"), "step"),
    ]
    for name, m, which in mut:
        if which == "kernel":
            ck.add_mutant(name, m, "kernel", "harness.C11", "kernel_job", dict(cases=[("sttv",)]))
        elif which == "step":
            ck.add_mutant(name, m, "step", "harness.steps", "volume_step", dict(cases=[(2, 2, 2, 0), (2, 2, 2, 1)], facets=FACETS))
    ck.oracle_selftest = [{'kind': 'volume'}]
    ck.validate = ['volume_ssa']
    ck.run()
    return ck.finish(replay=REPLAY)
