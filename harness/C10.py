"""C10 - delayed reactions deliver their delayed part exactly once, after the delay.

 * one inductive step of DelaySSASimulator.delay_simulate and DelayVolumeSSASimulator.delay_volume_simulate
   with the REAL ArrayDelayQueue inside (C20 proves the queue) and a ghost conservation invariant:
   state + queued deliveries accounts for every firing;
 * the delay samplers from source: FixedDelay / GaussianDelay / GammaDelay.get_delay, normal_rv (Box-Muller),
   gamma_rv (Marsaglia-Tsang, first and second iteration of the rejection loop), ModelCSimInterface.compute_delay;
 * simulators without delay support use immediate + delayed stoichiometry (initialisation obligations).
"""
import math
from fractions import Fraction

import numpy as np

from .common import Check
from .stubs import install_uniform, ptr
from pyxsym.sym import s_and, s_or, s_not, s_log, s_sqrt, s_cos, sym_pow, ite, is_sym, PathCut, Sym

REPLAY = ("replay_drivers.C10", "replay")
FACETS = ["step", "conservation", "invariant", "absorbing", "loop", "init"]
PI_LIT = Fraction("3.141592653589793238462643383279502884")


def _report(c, cond, label, sig=None):
    ok = c.prove(cond, label, info={"sig": sig or label, "what": label})
    if ok is False:
        c.failures[-1]["replay"] = {"kind": "delay"}
    return ok


def _box_muller(u, v, mean, std):
    return s_sqrt(-2 * s_log(u)) * s_cos(2 * PI_LIT * v) * std + mean


def sampler_job(interp, c, case):
    which, = case
    rnd = interp.load("bioscrape.random")
    T = interp.load("bioscrape.types")
    if which == "normal":
        install_uniform(interp)
        mean, std = c.real("mean"), c.real("std", lo=0)
        c.draws.clear()
        r = rnd.ns["normal_rv"](mean, std)
        ok = len(c.draws) == 2
        _report(c, ok, "normal_rv consumes two uniforms")
        if ok:
            u, v = c.draws
            _report(c, r == _box_muller(u, v, mean, std),
                    "normal_rv(mean, std) = mean + std*sqrt(-2 ln u)*cos(2 pi v)  (Box-Muller)")
        _report(c, abs(float(PI_LIT) - math.pi) < 1e-15, "the pi literal in normal_rv is pi to double precision")
    elif which in ("gamma1", "gamma2"):
        it = 1 if which == "gamma1" else 2
        install_uniform(interp, max_draws=3 * it)
        k = c.real("k", lo=1)
        theta = c.real("theta", lo=0, lo_strict=True)
        c.draws.clear()
        ret, cut = None, False
        try:
            ret = rnd.ns["gamma_rv"](k, theta)
        except PathCut:
            cut = True
        d = k - Fraction(1, 3)
        cc = 1 / s_sqrt(9 * d)
        accepts = []
        vals = []
        for i in range(len(c.draws) // 3):
            u, v, U = c.draws[3 * i: 3 * i + 3]
            x = _box_muller(u, v, 0, 1)
            vv = sym_pow(1 + cc * x, 3)
            acc = s_and(vv > 0, s_log(U) < x * x / 2 + d - d * vv + d * s_log(vv))
            accepts.append(acc)
            vals.append(d * vv * theta)
        n = len(accepts)
        if cut:
            if n == it:
                _report(c, s_and(*[s_not(a) for a in accepts]),
                        "gamma_rv keeps sampling only while the Marsaglia-Tsang acceptance test fails (iteration %d)" % it)
            raise PathCut("bound")
        if n == 0:
            _report(c, False, "gamma_rv returned without drawing")
            return
        _report(c, s_and(accepts[-1], *[s_not(a) for a in accepts[:-1]]),
                "gamma_rv returns at the first iteration whose acceptance test v>0 and ln U < x^2/2 + d - d v + d ln v holds")
        _report(c, s_and(ret == vals[-1], ret > 0),
                "gamma_rv(k, theta) returns d*v*theta with d = k-1/3, v = (1 + x/sqrt(9d))^3, x ~ N(0,1)  (Marsaglia-Tsang)")
    elif which == "delays":
        install_uniform(interp)
        S = interp.load("bioscrape.simulator")
        pv = {n: c.real(n) for n in ("tau", "mu", "sd", "kk", "th", "k1")}
        c.assume(pv["sd"] >= 0)
        c.assume(pv["kk"] >= 1)
        c.assume(pv["th"] > 0)
        c.assume(pv["k1"] > 0)
        rx = [(["A"], [], "massaction", {"k": "k1"}, "fixed", [], ["B"], {"delay": "tau"}),
              (["A"], [], "massaction", {"k": "k1"}, "gaussian", [], ["B"], {"mean": "mu", "std": "sd"}),
              (["A"], [], "massaction", {"k": "k1"}, "gamma", [], ["B"], {"k": "kk", "theta": "th"}),
              (["A"], ["B"], "massaction", {"k": "k1"})]
        M = T.ns["Model"](species=["A", "B"], reactions=rx, parameters=list(pv.items()))
        itf = S.ns["ModelCSimInterface"](M)
        st = np.array([c.int("A", lo=0), c.int("B", lo=0)], dtype=object)
        c.draws.clear()
        ok = _report(c, itf.compute_delay(ptr(interp, st), 0) == pv["tau"], "fixed delay returns its parameter (of either sign: a non-positive delay acts as none)")
        if ok is False:
            c.failures[-1]["replay"] = {"kind": "signed_delay"}
        _report(c, len(c.draws) == 0, "fixed delay draws no random numbers")
        g = itf.compute_delay(ptr(interp, st), 1)
        ok = len(c.draws) == 2
        ok = _report(c, ok and g == _box_muller(c.draws[0], c.draws[1], pv["mu"], pv["sd"]),
                     "gaussian delay is Normal(mean, std) by Box-Muller on the reaction's own parameters (a negative draw stays negative: it acts as zero delay)")
        if ok is False:
            c.failures[-1]["replay"] = {"kind": "signed_delay"}
        c.draws.clear()
        # gamma delay: exactly one draw of gamma_rv with the reaction's own shape and scale (gamma_rv itself: jobs gamma1/gamma2)
        Rm = interp.load("bioscrape.random")
        calls = []
        saved = {}

        def mk_stub(name_):
            def stub(*a_):
                calls.append((name_,) + tuple(a_))
                return c.real("%s_draw_%d" % (name_, len(calls)), lo=0)
            return stub
        for nm_ in list(Rm.ns):
            if nm_.endswith("_rv") and not nm_.startswith("py_") and callable(Rm.ns[nm_]):
                saved[nm_] = Rm.ns[nm_]
                Rm.ns[nm_] = mk_stub(nm_)
        try:
            gd = itf.compute_delay(ptr(interp, st), 2)
        finally:
            Rm.ns.update(saved)
        ok = _report(c, len(calls) == 1 and calls[0][0] == "gamma_rv" and len(c.draws) == 0 and is_sym(gd) and calls[0][1] == pv["kk"] and calls[0][2] == pv["th"],
                     "gamma delay is one draw of gamma_rv(k, theta) with the reaction's own shape and scale (no other sampler)")
        if ok is False:
            c.failures[-1]["replay"] = {"kind": "gamma_delay"}
        c.draws.clear()
        _report(c, itf.compute_delay(ptr(interp, st), 3) == 0, "a reaction without delay has delay 0")
        _report(c, M.has_delays() is True or M.has_delays() == 1, "the model reports that it has delays")
        dl = M.get_delays()
        _report(c, [d.__dict__["_cls"].name for d in dl] == ["FixedDelay", "GaussianDelay", "GammaDelay", "NoDelay"],
                "each reaction is bound to its own delay class, in reaction order")
        U, D = M.update_array, M.delay_update_array
        ia, ib = M.species2index["A"], M.species2index["B"]
        _report(c, all(U[ia, j] == -1 for j in range(4)) and all(D[ib, j] == 1 for j in range(3)) and U[ib, 3] == 1
                and all(D[ia, j] == 0 for j in range(4)) and D[ib, 3] == 0,
                "delayed products enter the delayed stoichiometry only")


def check(tier):
    ck = Check("C10", "model_checking", tier)
    sizes = [(2, 2, 2, 2)] if tier == "quick" else [(2, 2, 2, 2), (2, 2, 3, 3), (3, 2, 3, 2)]
    for (S, R, T, C) in sizes:
        for ci in range(T):
            for start in range(C):
                ck.add("delay-step/S%dR%dT%dC%d/ci%d/s%d" % (S, R, T, C, ci, start), "harness.steps", "delay_step",
                       dict(cases=[(S, R, T, ci, C, start)], facets=FACETS))
                ck.add("dv-step/S%dR%dT%dC%d/ci%d/s%d" % (S, R, T, C, ci, start), "harness.steps", "delay_volume_step",
                       dict(cases=[(S, R, T, ci, C, start)], facets=FACETS))
    for w in ("normal", "gamma1", "gamma2", "delays"):
        ck.add("sampler/" + w, "harness.C10", "sampler_job", dict(cases=[(w,)]))
    # the queue's own insertion rule (slot = nearest grid time, clamped to the horizon): C20's add obligations
    adds = [(R, C, s_, r) for R in (1, 2) for C in (2, 3) for s_ in range(C) for r in range(R)]
    ck.add("queue-add", "harness.C20", "add_job", dict(cases=adds))
    # a queue handed from one simulation to the next: re-timing keeps every pending delivery at its distance
    ck.add("queue-retime", "harness.C20", "retime_job", dict(cases=[(R, C, s_) for R in (1, 2) for C in (2, 3) for s_ in range(C)]))
    # the delayed stoichiometry itself: what a firing queues is the reaction's delayed products minus its delayed reactants, with multiplicity
    dcs = [(lr, lp, ldr, ldp, o, "massaction") for (lr, lp, ldr, ldp) in ((1, 0, 0, 1), (1, 0, 0, 2), (1, 1, 1, 1), (0, 1, 1, 2), (1, 0, 2, 1))
           for o in ((0, 1, 2), (2, 0, 1))]
    ck.add("delayed-stoichiometry", "harness.C03", "stoich_job", dict(cases=dcs), max_paths=100000)
    from . import C05
    for cse in C05.cases("quick")[:3]:
        ck.add("ssa-init/S%dR%dT%d/ci%d" % cse, "harness.C05", "step_job", dict(cases=[cse], facets=["init", "feasible", "model-untouched"]))
    # simulators without delay support apply both parts at the firing time - and leave the model's two stoichiometric matrices as they
    # are, so that a later delay-aware run of the same model still delivers the delayed part once
    for cse in [(2, 2, 2, 0), (2, 2, 2, 1)]:
        ck.add("volume-nodelay/S%dR%dT%d/ci%d" % cse, "harness.steps", "volume_step", dict(cases=[cse], facets=["init", "feasible", "model-untouched"]))
    ck.bounds = dict(species="<= 3", reactions="<= 2", time_points="<= 4", queue_slots="2..4, every ring position",
                     gamma_rejection_loop="first and second iteration (later iterations cut, stated)",
                     loops="one iteration from an arbitrary pre-state incl. arbitrary queue contents (inductive)")
    ck.assumptions = [
        "ghost invariant: state + sum over pending deliveries of their delayed stoichiometry changes by (immediate+delayed) "
        "stoichiometry per firing and never otherwise; the nearest-slot filing of a delivery is C20's add_reaction",
        "compute_delay is an arbitrary real in the loop steps (negative or zero acts as no delay); the samplers are checked "
        "separately against Box-Muller and Marsaglia-Tsang, which are trusted to produce Normal/Gamma variates",
        "sqrt, ln, cos uninterpreted; reals for doubles; uniform draws in (0,1)",
    ]
    ck.trusted = ["Box-Muller theorem", "Marsaglia-Tsang theorem"]
    mut = [
        ("delayed-part-applied-twice", dict(module="bioscrape.simulator",
                                           old="                if computed_delay > 0.0:\n                    q.add_reaction(current_time+computed_delay,reaction_choice,1.0)\n                else:\n                    for species_index in range(num_species):\n                        c_current_state[species_index] += c_delay_stoich[species_index,reaction_choice]\n\n        # Now need to re-align",
                                           new="                if computed_delay > 0.0:\n                    q.add_reaction(current_time+computed_delay,reaction_choice,1.0)\n                for species_index in range(num_species):\n                    c_current_state[species_index] += c_delay_stoich[species_index,reaction_choice]\n\n        # Now need to re-align"), "delay"),
        ("queue-not-advanced", dict(module="bioscrape.simulator",
                                    old="                # advance the queue in time.\n                q.advance_time()\n\n\n            # if an actual reaction happened",
                                    new="\n\n            # if an actual reaction happened"), "delay"),
        ("delay-from-wrong-time", dict(module="bioscrape.simulator",
                                      old="q.add_reaction(current_time+computed_delay,reaction_choice,1.0)\n                else:\n                    for species_index in range(num_species):\n                        c_current_state[species_index] += c_delay_stoich[species_index,reaction_choice]\n\n        # Now need",
                                      new="q.add_reaction(computed_delay,reaction_choice,1.0)\n                else:\n                    for species_index in range(num_species):\n                        c_current_state[species_index] += c_delay_stoich[species_index,reaction_choice]\n\n        # Now need"), "delay"),
        ("box-muller-sin", dict(module="bioscrape.random", old="theta = 2*3.141592653589793238462643383279502884*v", new="theta = 3.141592653589793238462643383279502884*v"), "normal"),
        ("gamma-shape-offset", dict(module="bioscrape.random", old="d = k - 1.0/3", new="d = k - 1.0/2"), "gamma1"),
    ]
    for name, m, which in mut:
        if which == "delay":
            ck.add_mutant(name, m, "delay", "harness.steps", "delay_step", dict(cases=[(2, 2, 2, 0, 2, 0), (2, 2, 2, 1, 2, 1)], facets=FACETS))
        else:
            ck.add_mutant(name, m, which, "harness.C10", "sampler_job", dict(cases=[(which,)]))
    ck.oracle_selftest = [{'kind': 'delay'}, {'kind': 'delay_volume'}]
    ck.validate = ['delay_ssa', 'delay_volume_ssa', 'rng']
    ck.run()
    return ck.finish(replay=REPLAY)
