"""C13 - an imported SBML file has the semantics of the SBML document.

Translation validation: documents are generated directly with libsbml (never through bioscrape); the REAL
sbmlutil.import_sbml* and Model construction code is executed (interpreter, real libsbml/sympy underneath); the
imported model's net rate equations are then executed symbolically (rules first, then
calculate_deterministic_derivative) and z3 decides equality with the document's reference semantics for ALL states
and global parameter values.
"""
import os
import tempfile

import numpy as np

from .common import Check, model_env, SCRATCH_ROOT
from .stubs import ptr
from .C14 import SymOps
from pyxsym.sym import s_and, s_not, is_sym, Sym
from replay_drivers import C13gen

REPLAY = ("replay_drivers.C13", "replay")


def import_job(interp, c, case):
    index, seed = case
    import libsbml
    spec = C13gen.spec_for(index, seed)
    d = tempfile.mkdtemp(prefix="bioscrape-verif-c13-", dir=SCRATCH_ROOT)
    path = os.path.join(d, "m%d.xml" % index)
    try:
        C13gen.write_document(spec, path)
        U = interp.load("bioscrape.sbmlutil")
        S = interp.load("bioscrape.simulator")
        rp = dict(index=index, seed=seed)
        tag = "doc#%d(seed %d)" % (index, seed)

        def rep(cond, label, sig, syms=None):
            ok = c.prove(cond, "%s: %s" % (tag, label), info={"sig": sig, "what": "%s: %s" % (tag, label)})
            if ok is False:
                f = c.failures[-1]
                f["replay"] = dict(rp, aspect=sig, values=model_env(c, f["model"], syms or {}))
                f["info"]["what"] += " | rules=%s reactions=%s" % (
                    [(r["kind"], r["var"], r["formula"]) for r in spec["rules"]],
                    [(r["id"], r["formula"], r["locals"]) for r in spec["reactions"]])
            return ok
        Tm = interp.load("bioscrape.types")

        def containers():
            out = {}
            for mod in (Tm, U):
                for nm, val in list(mod.ns.items()):
                    if isinstance(val, (dict, list, set)) and not nm.startswith("__"):
                        out[(mod.name if hasattr(mod, "name") else id(mod), nm)] = len(val)
            return out
        before = containers()
        try:
            M = U.ns["import_sbml"](path, sbml_warnings=False)
        except Exception as e:
            rep(False, "import of a document in the documented subset fails with %s: %s" % (type(e).__name__, str(e)[:100]),
                "import raises %s" % type(e).__name__)
            return
    finally:
        try:
            os.remove(path)
        except OSError:
            pass
        try:
            os.rmdir(d)
        except OSError:
            pass
    after = containers()
    grown = sorted(k_[1] for k_ in after if after[k_] != before.get(k_, 0))
    if grown:
        # state kept between imports is not a violation by itself (a correctly keyed cache would be fine): it is a suspicion that the replay
        # decides on the real build, by reading many documents in one process and checking each against its own text
        ok = c.prove(False, "%s: module-level containers %s change while a document is read: does a later import depend on an earlier one?" % (tag, grown),
                     info={"sig": "module-level state kept between imports", "what": "%s: containers %s" % (tag, grown), "suspicion": True})
        c.failures[-1]["replay"] = dict(rp, aspect="module-level state kept between imports", values={})
    else:
        c.prove(True, "reading a document leaves module-level containers of the library unchanged")
    # ---- concrete part: initial values, parameter dictionary, rule list
    init = C13gen.initial_values(spec)
    got_init = M.get_species_dictionary()
    rep(all(s in got_init and got_init[s] == init[s] for s in C13gen.SPECIES),
        "initial values: a non-zero initial amount wins over the initial concentration (%s vs %s)" % (
            {k: str(v) for k, v in got_init.items()}, init), "initial values")
    pd = M.get_parameter_dictionary()
    rep(all(g in pd and pd[g] == v for g, v in spec["globals"].items()), "global parameters keep their values", "global parameters")
    n_assign = sum(1 for r in spec["rules"] if r["kind"] == "assign")
    rep([r[0] for r in M.get_rules()] == ["assignment"] * n_assign and all(r[2] in ("repeated", "repeat") for r in M.get_rules()),
        "every assignment rule becomes one repeated assignment (imported: %s)" % [(r[0], r[1].get("equation")) for r in M.get_rules()],
        "rule list")
    # ---- solver part: net rate equations for all states and global parameter values
    state = {s: c.real("s_" + s, lo=0, lo_strict=True) for s in C13gen.SPECIES}     # interior: every generated denominator is positive
    glob = {g: c.real("g_" + g, lo=0, lo_strict=True) for g in spec["globals"]}
    syms = dict(**{"s_" + k: v for k, v in state.items()}, **{"g_" + k: v for k, v in glob.items()})
    missing = [g for g in glob if g not in M.get_params2index()]
    if missing:
        rep(False, "global parameters %s of the document are not parameters of the imported model" % missing, "global parameters", syms)
        return
    for g, v in glob.items():
        M.params_values[M.get_params2index()[g]] = v
    itf = S.ns["ModelCSimInterface"](M)
    itf.py_prep_deterministic_simulation()
    order = M.get_species_list()
    if sorted(order) != sorted(C13gen.SPECIES):
        rep(False, "imported species are %s" % order, "species set")
        return
    x = np.array([state[s] for s in order], dtype=object)
    dx = np.zeros(len(order), dtype=object)
    itf.py_apply_repeated_rules(x, 0, True)
    itf.py_calculate_deterministic_derivative(x, dx, 0)
    want, st2, gl2, dp = C13gen.reference_derivative(spec, state, glob, SymOps)
    assigned = {r["var"] for r in spec["rules"] if r["kind"] == "assign"}
    # denominators of the generated laws are positive on the domain; min/max/abs are total
    conds = []
    for i, s in enumerate(order):
        if s in assigned:
            conds.append(x[i] == st2[s])          # the assignment itself
        else:
            conds.append(dx[i] == want[s])
    rep(s_and(*conds),
        "net rate equations = stoichiometry x kinetic law (local parameters bound per reaction) + each rate rule once, with "
        "assignment rules applied first", "imported rate equations", syms)
    for g in gl2:
        if g in assigned:
            rep(M.params_values[M.get_params2index()[g]] == gl2[g], "assignment rule on parameter %s is applied" % g,
                "parameter assignment rule", syms)


def check(tier):
    ck = Check("C13", "translation_validation", tier)
    n = 96 if tier == "quick" else 800
    cs = [(i, ck.seed) for i in range(n)]
    jobs = 16
    k = max(1, (n + jobs - 1) // jobs)
    for i in range(0, n, k):
        ck.add("documents/%d" % (i // k), "harness.C13", "import_job", dict(cases=cs[i:i + k]))
    ck.extra_cov = dict(programs=n)
    ck.bounds = dict(documents=n, species=3, reactions="1..3", stoichiometries="1..3", local_parameters="0..2 per reaction, "
                     "'k' colliding with a global and with other reactions' locals", rules="0..2 assignment + 0..2 rate rules, any order",
                     kinetic_laws="9 templates over + - * / ^ min max abs")
    ck.assumptions = [
        "documents are generated directly with libsbml, seeded by VERIF_SEED; libsbml and sympy run natively and are trusted; the "
        "reference semantics (40 lines) evaluates the document's own math ASTs",
        "documented subset: one compartment of size 1, ordinary species, no events/function definitions/initial assignments; rate "
        "rules target species; local parameter values are concrete (distinct primes), global parameters and states symbolic",
        "the derivative entry of a species that is the target of an assignment rule is not constrained (SBML gives it no ODE)",
    ]
    mut = [
        ("stoichiometry-ignored", dict(module="bioscrape.sbmlutil", old="                    for i in range(int(reactant.getStoichiometry())):\n                        reactant_list.append(reactantspecies_id)\n                else:\n                    reactant_list.append(reactantspecies_id)\n            else:\n                warnings.warn('Reactant in reaction",
                                       new="                    for i in range(1):\n                        reactant_list.append(reactantspecies_id)\n                else:\n                    reactant_list.append(reactantspecies_id)\n            else:\n                warnings.warn('Reactant in reaction")),
        ("local-not-renamed", dict(module="bioscrape.sbmlutil", old="            if pid in allparams:\n                # If local parameter ID already exists", new="            if False:\n                # If local parameter ID already exists")),
        ("concentration-ignored", dict(module="bioscrape.sbmlutil", old="        if np.isfinite(s.getInitialConcentration()) and allspecies[sid] == 0:", new="        if False:")),
    ]
    for name, m in mut:
        ck.add_mutant(name, m, "documents", "harness.C13", "import_job", dict(cases=cs[:40]))
    ck.validate = ['sbml']
    ck.run()
    return ck.finish(replay=REPLAY)
