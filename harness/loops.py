"""Shared machinery for the one-step (inductive) harnesses over the simulators' event loops."""
import numpy as np

from pyxsym.sym import ctx, Sym, is_sym, s_and, s_or, s_not, ite, s_log, Unsupported
from pyxsym.interp import Frame
from .stubs import install_uniform, sym_array, arr_syms


class AbsSim:
    """Abstract CSimInterface: arbitrary non-negative propensities (fresh per call), symbolic integer
    stoichiometry, rules recorded but otherwise identity (unless a rule effect is installed)."""
    _pyxsym_duck = True

    def __init__(self, c, S, R, x0, U, D, t0, dt, nonneg=True, n_params=1):
        self.c = c
        self.S, self.R = S, R
        self.x0 = x0
        self.U, self.D = U, D
        self.t0, self.dt = t0, dt
        self.log = []              # ("rules"|"props"|"delay", snapshot...)
        self.nonneg = nonneg
        self.delays = None         # optional list of per-call delay values
        self.rule_effect = None    # callable(state_ptr, t, rule_step, volume)
        self.params = np.array([c.fresh_real("par") for _ in range(n_params)], dtype=object)
        self.prop_fn = None        # optional callable(state list, t, V) -> list of propensities
        self.check_calls = 0

    # --- interface used by the simulators
    def check_interface(self):
        self.check_calls += 1

    def get_initial_state(self):
        return self.x0

    def get_update_array(self):
        return self.U

    def get_delay_update_array(self):
        return self.D

    def get_initial_time(self):
        return self.t0

    def get_dt(self):
        return self.dt

    def get_param_values(self):
        from .stubs import ptr
        return self.params

    def get_num_reactions(self):
        return self.R

    def get_number_of_rules(self):
        return 0

    def _snap(self, p):
        return [p[i] for i in range(self.S)]

    def _rules(self, state, t, rule_step, V):
        pre = self._snap(state)
        if self.rule_effect:
            self.rule_effect(state, t, rule_step, V)
        self.log.append(("rules", pre, t, rule_step, V, self._snap(state)))

    def apply_repeated_rules(self, state, t, rule_step):
        self._rules(state, t, rule_step, None)

    def apply_repeated_volume_rules(self, state, V, t, rule_step):
        self._rules(state, t, rule_step, V)

    def havoc_rules(self):
        """rules become an arbitrary map of the state (fresh values written into every component)"""
        def eff(state, t, rs, V):
            for i in range(self.S):
                state[i] = self.c.fresh_real("ruled")
        self.rule_effect = eff

    def _props(self, state, dest, t, V):
        snap = self._snap(state)
        if self.prop_fn is not None:
            a = self.prop_fn(snap, t, V)
        else:
            a = [self.c.fresh_real("a", lo=0 if self.nonneg else None) for _ in range(self.R)]
        for j in range(self.R):
            dest[j] = a[j]
        self.log.append(("props", snap, t, list(a), V))

    def compute_stochastic_propensities(self, state, dest, t):
        self._props(state, dest, t, None)

    def compute_stochastic_volume_propensities(self, state, dest, V, t):
        self._props(state, dest, t, V)

    def compute_delay(self, state, rxn):
        d = self.c.fresh_real("delay")
        self.log.append(("delay", self._snap(state), rxn, d))
        return d


def make_grid(c, T, name="T"):
    """strictly increasing symbolic time grid"""
    ts = [c.real("%s%d" % (name, i)) for i in range(T)]
    for a, b in zip(ts, ts[1:]):
        c.assume(a < b)
    return np.array(ts, dtype=object)


def make_stoich(c, S, R, name, lo=-3, hi=3):
    return sym_array(c, name, (S, R), "int", lo=lo, hi=hi)


def run_prologue(interp, fi, self_obj, args, which=0):
    """Bind arguments and execute the statements before the which-th top-level while.
    Returns (frame, while node, statements after)."""
    pre, w, post = interp.split_at_while(fi, which)
    fr = interp.new_frame(fi, self_obj)
    names = [a[0] for a in fi.args]
    vals = [self_obj] + list(args)
    for (nm, t, d, k), v in zip(fi.args, vals):
        fr.locals[nm] = v
        if t != "obj":
            fr.ctypes[nm] = t
    st = interp.exec_stats(pre, fr)
    if st[0] != "normal":
        raise Unsupported("prologue of %s returned early" % fi.qualname)
    interp.note_encoded(fi)
    return fr, w, post


def havoc_array(c, arr, name, kind="real", lo=None):
    for idx in np.ndindex(*arr.shape):
        nm = name + "_" + "_".join(str(i) for i in idx)
        arr[idx] = c.int(nm, lo=lo) if kind == "int" else c.real(nm, lo=lo)
    return arr


def choice_oracle(a, q):
    """index j with sum_{i<j} a_i < q <= sum_{i<=j} a_i (None when no such index on this path)"""
    cum = 0
    for j in range(len(a)):
        prev = cum
        cum = cum + a[j]
        if prev < q and q <= cum:
            return j
    return None
