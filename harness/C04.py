"""C04 - deterministic simulation solves the model's rate equations (with an integrator contract).

LSODA cannot be encoded; what bioscrape contributes is the initial-value problem it hands to odeint and what it does
with the answer.  The real py_simulate_model (deterministic branch), DeterministicSimulator.py_simulate /
_helper_simulate, rhs_global, ModelCSimInterface.prep_deterministic_simulation / calculate_deterministic_derivative
and the propensity classes are executed with odeint replaced by a contract stub.
CLAIM: if odeint meets its contract (row i within tolerance of the exact flow of the callable it is given),
the reported trajectory is the solution of dx/dt = (S_immediate + S_delayed) * rate(x, t) from the model's initial
condition on the requested time axis.  Integrator accuracy itself is outside the claim.
"""
from fractions import Fraction

import numpy as np

from .common import Check, model_env
from .stubs import sym_array
from pyxsym.sym import s_and, s_not, is_sym, Sym, ctx, sym_pow, s_exp, s_min, s_max, s_fabs
from .C07 import PandasShim, Frame

REPLAY = ("replay_drivers.C04", "replay")


def _rep(c, cond, label, sig=None, rp=None):
    ok = c.prove(cond, label, info={"sig": sig or label, "what": label})
    if ok is False:
        c.failures[-1]["replay"] = rp or {"kind": "deterministic"}
    return ok


MODELS = {
    "massaction": dict(
        species=["B", "A", "C"],
        reactions=lambda P: [(["A", "A"], ["B"], "massaction", {"k": "k1"}),
                             (["A", "B"], ["A"], "massaction", {"k": "k2"}, "fixed", [], ["C", "C"], {"delay": "tau"}),
                             ([], ["A"], "massaction", {"k": "k3"})],
        params=["k1", "k2", "k3", "tau"],
        rhs=lambda s, p, t: {"A": -2 * p["k1"] * s["A"] * s["A"] + p["k3"], "B": p["k1"] * s["A"] * s["A"] - p["k2"] * s["A"] * s["B"],
                             "C": 2 * p["k2"] * s["A"] * s["B"]}),
    "hill_general": dict(
        species=["A", "B", "C"],
        reactions=lambda P: [([], ["B"], "hillpositive", {"k": "k1", "K": "k2", "n": 2, "s1": "A"}),
                             (["B"], [], "general", {"rate": "k3*B*(1 + t)"}),
                             (["C"], ["A"], "proportionalhillnegative", {"k": "k1", "K": "k2", "n": 1, "s1": "B", "d": "C"})],
        params=["k1", "k2", "k3"],
        rhs=lambda s, p, t: {
            "A": p["k1"] * s["C"] / (1 + s["B"] / p["k2"]),
            "B": p["k1"] * (s["A"] / p["k2"]) * (s["A"] / p["k2"]) / (1 + (s["A"] / p["k2"]) * (s["A"] / p["k2"])) - p["k3"] * s["B"] * (1 + t),
            "C": -(p["k1"] * s["C"] / (1 + s["B"] / p["k2"]))}),
    # one parameter dictionary object shared by several reactions (a common way to write first-order decay of every species)
    "shared_dict": dict(
        species=["A", "B", "C"],
        reactions=lambda P: (lambda deg: [([], ["A"], "massaction", {"k": "k1"}), (["A"], ["B"], "massaction", deg), (["B"], ["C"], "massaction", deg),
                                          (["C", "C"], [], "massaction", deg)])({"k": "k2"}),
        params=["k1", "k2"],
        rhs=lambda s, p, t: {
            "A": p["k1"] - p["k2"] * s["A"],
            "B": p["k2"] * s["A"] - p["k2"] * s["B"],
            "C": p["k2"] * s["B"] - 2 * p["k2"] * s["C"] * s["C"]}),
    # general rates over species and parameters whose names are also sympy constants / functions (E, I, S, N, O, Q)
    "general_names": dict(
        species=["S", "E", "I"],
        reactions=lambda P: [(["S"], ["E"], "general", {"rate": "N*S*E/(1 + I)"}), (["E"], ["I"], "general", {"rate": "Q*E + O*t"})],
        params=["N", "Q", "O"],
        rhs=lambda s, p, t: {
            "S": -(p["N"] * s["S"] * s["E"] / (1 + s["I"])),
            "E": p["N"] * s["S"] * s["E"] / (1 + s["I"]) - (p["Q"] * s["E"] + p["O"] * t),
            "I": p["Q"] * s["E"] + p["O"] * t}),
    # a higher-order mass-action reaction whose repeated reactant is not written next to its first occurrence
    "massaction_order3": dict(
        species=["A", "B", "C"],
        reactions=lambda P: [(["A", "B", "A"], ["C"], "massaction", {"k": "k1"}), (["C"], ["A"], "massaction", {"k": "k2"}),
                             (["B", "C", "A", "B"], ["A"], "massaction", {"k": "k3"})],
        params=["k1", "k2", "k3"],
        rhs=lambda s, p, t: (lambda r1, r2, r3: {"A": -2 * r1 + r2, "B": -r1 - 2 * r3, "C": r1 - r2 - r3})(
            p["k1"] * s["A"] * s["A"] * s["B"], p["k2"] * s["C"], p["k3"] * s["A"] * s["B"] * s["B"] * s["C"])),
    # limiting-substrate laws: n-ary min / max over three arguments (sympy flattens nested calls into one n-ary node), abs
    "general_minmax": dict(
        species=["A", "B", "C"],
        reactions=lambda P: [(["A"], ["B"], "general", {"rate": "k1*min(A, B, C)"}), (["B"], ["C"], "general", {"rate": "k2*max(C, max(A, B))"}),
                             (["C"], [], "general", {"rate": "k3*abs(A - B)"})],
        params=["k1", "k2", "k3"],
        rhs=lambda s, p, t: (lambda lo, hi, ab: {"A": -p["k1"] * lo, "B": p["k1"] * lo - p["k2"] * hi, "C": p["k2"] * hi - p["k3"] * ab})(
            s_min(s["A"], s["B"], s["C"]), s_max(s["A"], s["B"], s["C"]), s_fabs(s["A"] - s["B"]))),
}


def ivp_job(interp, c, case):
    name, npts, uniform = case[:3]
    safe = len(case) > 3 and case[3]
    T = interp.load("bioscrape.types")
    S = interp.load("bioscrape.simulator")
    interp.shims["pandas"] = PandasShim()
    spec = MODELS[name]
    P = {p: c.real(p, lo=0, lo_strict=True) for p in spec["params"]}
    init = {s: c.real("x0_" + s, lo=0) for s in spec["species"]}
    try:
        M = T.ns["Model"](species=list(spec["species"]), reactions=spec["reactions"](P), parameters=list(P.items()),
                          initial_condition_dict=dict(init))
    except (TypeError, ValueError, SyntaxError, AttributeError, KeyError, AssertionError) as e:
        _rep(c, False, "model '%s' cannot be built: %s: %s" % (name, type(e).__name__, str(e)[:80]), "deterministic model construction fails",
             {"kind": "deterministic", "model": name, "safe": bool(safe)})
        return
    if uniform:
        h = c.real("h", lo=0, lo_strict=True)
        tp = np.array([i * h for i in range(npts)], dtype=object)
    else:
        ts = [0] + [c.real("T%d" % i) for i in range(1, npts)]
        for a, b in zip(ts, ts[1:]):
            c.assume(a < b)
        tp = np.array(ts, dtype=object)
    calls = []
    fails = {"n": 0}

    def odeint(f, y0, ts, **kw):
        calls.append((f, y0, ts, dict(kw)))
        Y = sym_array(ctx(), "Y%d" % len(calls), (len(ts), len(y0)), "real")
        for i in range(len(y0)):
            Y[0, i] = y0[i]              # contract: the first row is the initial value
        ok = len(calls) > fails["n"]
        return Y, {"message": "Integration successful." if ok else "Excess work done on this call (perhaps wrong Dfun type)."}
    S.ns["odeint"] = odeint
    rp = {"kind": "deterministic", "model": name, "safe": bool(safe)}
    df = S.ns["py_simulate_model"](tp, Model=M, stochastic=False, safe=True) if safe else S.ns["py_simulate_model"](tp, Model=M, stochastic=False)
    _rep(c, len(calls) == 1, "one call to the integrator when it succeeds", rp=rp)
    f, y0, ts, kw = calls[0]
    order = M.get_species_list()
    _rep(c, f is S.ns["rhs_global"] and ts is tp and not kw.get("tfirst", False) and
         kw.get("full_output") is True and kw.get("mxstep") == 500,
         "the integrator receives bioscrape's right-hand side f(x, t), the caller's time array, state-first argument order", rp=rp)
    _rep(c, s_and(*[y0[i] == init[s] for i, s in enumerate(order)]) and not np.shares_memory(y0, M.species_values),
         "the initial value is a copy of the model's initial condition", rp=rp)
    _rep(c, s_and(kw.get("atol") == Fraction("1.49012e-8"), kw.get("rtol") == Fraction("1.49012e-8")),
         "default tolerances are passed to the integrator", rp=rp)
    # the right-hand side itself, at an arbitrary state and time
    x = {s: c.real("x_" + s, lo=0, lo_strict=bool(safe)) for s in order}      # safe mode: interior states
    t = c.real("t", lo=0)
    xv = np.array([x[s] for s in order], dtype=object)
    out = f(xv, t)
    want = spec["rhs"](x, P, t)
    _rep(c, s_and(*[out[i] == want[s] for i, s in enumerate(order)]),
         "rhs(x, t) = (immediate + delayed stoichiometry) * rate(x, t) for model '%s'%s (delayed products applied as if the delay "
         "were zero)" % (name, " through the safe interface, at every positive state" if safe else ""),
         "deterministic right-hand side%s" % (" (safe)" if safe else ""), rp)
    _rep(c, s_and(*[xv[i] == x[s] for i, s in enumerate(order)]), "evaluating the right-hand side does not modify the integrator's state "
         "(no rules in this model)", rp=rp)
    # result = integrator rows on the requested time axis
    Y = None
    ok = isinstance(df, Frame)
    _rep(c, ok, "a data frame is returned", rp=rp)
    if ok:
        tcol = df["time"]
        conds = [tcol[i] == tp[i] for i in range(npts)]
        conds += [df[s][0] == init[s] for s in order]
        _rep(c, s_and(*conds) and [k for k in df.cols if k != "time"] == order,
             "the result is on the requested time axis, columns in species order, first row = initial condition", rp=rp)
    c.prove(all(v is w for v, w in zip(M.species_values, [init[s] for s in order])), "the model's initial condition is left untouched")


def retry_job(interp, c, case):
    nfail, mxstep = case
    S = interp.load("bioscrape.simulator")
    from .loops import AbsSim, make_grid, make_stoich
    grid = make_grid(c, 3)
    U, D = make_stoich(c, 2, 1, "U"), make_stoich(c, 2, 1, "D")
    x0 = sym_array(c, "x0", 2, "real", lo=0)

    class DetSim(AbsSim):
        def py_get_param_values(self):
            return self.params
    sim = DetSim(c, 2, 1, x0, U, D, grid[0], c.real("dt", lo=0, lo_strict=True))
    calls = []

    def odeint(f, y0, ts, **kw):
        calls.append(kw.get("mxstep"))
        Y = sym_array(ctx(), "Y%d" % len(calls), (len(ts), len(y0)), "real")
        return Y, {"message": "Integration successful." if len(calls) > nfail else "Excess work done"}
    S.ns["odeint"] = odeint
    simr = S.ns["DeterministicSimulator"]()
    simr.py_set_mxstep(mxstep)
    res = simr._helper_simulate(sim, grid)
    ladder = []
    s = 500
    while True:
        ladder.append(s)
        if len(ladder) > nfail or s >= mxstep:
            break
        s = min(s * 10, mxstep)
    success = len(ladder) > nfail
    c.prove(calls == ladder, "retry ladder: mxstep 500, x10 per failure, capped at the configured maximum (%s)" % ladder,
            info={"sig": "retry ladder", "what": "calls %s expected %s" % (calls, ladder)})
    rr = res.simulation_result
    if success:
        c.prove(all(is_sym(v) for v in rr.flat) and res.timepoints is grid, "after a late success the integrator's rows are reported")
    else:
        c.prove(all(isinstance(v, float) and v != v for v in rr.flat) and res.timepoints is grid,
                "when every attempt fails the result is all-NaN on the requested axis, never a partial trajectory")


def check(tier):
    ck = Check("C04", "model_checking", tier)
    for name in MODELS:
        for (n, uni) in ((3, True), (3, False)) + (((4, False),) if tier == "thorough" else ()):
            ck.add("ivp/%s/%d/%s" % (name, n, "uniform" if uni else "nonuniform"), "harness.C04", "ivp_job",
                   dict(cases=[(name, n, uni)]), fresh=True)
        ck.add("ivp/%s/3/uniform/safe" % name, "harness.C04", "ivp_job", dict(cases=[(name, 3, True, True)]), fresh=True)
    from . import C03
    for (S_, R_) in ((1, 1), (2, 2)):
        for safe in (False, True):
            ck.add("derivative/S%dR%d/%s" % (S_, R_, "safe" if safe else "plain"), "harness.C03", "derivative_job",
                   dict(cases=[(S_, R_, safe)]), max_paths=100000)
    for nf, mx in ((0, 500000), (1, 500000), (2, 5000), (3, 5000), (5, 500000)):
        ck.add("retry/%d/%d" % (nf, mx), "harness.C04", "retry_job", dict(cases=[(nf, mx)]), fresh=True)
    from . import C09
    ck.add("rules-and-rows", "harness.C09", "deterministic_job", dict(cases=[(2, 2, 2)]), fresh=True)
    ck.bounds = dict(models="2 concrete networks (mass action with delayed products; Hill + proportional Hill + explicitly "
                            "time-dependent general rate) with symbolic parameters, states and times",
                     time_points="3..4, uniform and non-uniform grids starting at 0")
    ck.assumptions = [
        "odeint is replaced by its contract: returns one row per requested time, first row = initial value, message success or "
        "failure; its accuracy (and the comparison with matrix exponentials / a reference integrator in the property text) needs "
        "numerical execution and is NOT claimed by this solver-based check",
        "what is proven: the callable, initial value, time axis, tolerances and argument order handed to the integrator are the "
        "model's rate equations (for all states, times, parameters), and the integrator's rows are reported unchanged",
    ]
    mut = [
        ("delayed-part-dropped", dict(module="bioscrape.simulator", old="                    self.S_values[s].push_back(self.update_array[s,r]+self.delay_update_array[s,r])",
                                      new="                    self.S_values[s].push_back(self.update_array[s,r])")),
        ("tfirst-order", dict(module="bioscrape.simulator", old="            results, full_output = odeint(rhs_global, x0, timepoints,atol=self.atol, rtol=self.rtol,",
                              new="            results, full_output = odeint(rhs_ivp, x0, timepoints,atol=self.atol, rtol=self.rtol,")),
        ("x0-aliased", dict(module="bioscrape.simulator", old="        cdef np.ndarray x0 = sim.get_initial_state().copy()\n        cdef np.ndarray p0",
                            new="        cdef np.ndarray x0 = sim.get_initial_state()\n        cdef np.ndarray p0")),
    ]
    for name, m in mut:
        ck.add_mutant(name, m, "ivp", "harness.C04", "ivp_job", dict(cases=[("massaction", 3, True)]), fresh=True)
    ck.validate = ['derivative', 'dispatch']
    ck.run()
    return ck.finish(replay=REPLAY)
