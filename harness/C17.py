"""C17 - copies and pickles of models and results behave like the original (hand-written state protocol).

The hand-written __getstate__/__setstate__/__reduce__ methods are executed from source exactly as pickle would call
them (state produced by the source object, restored into a blank instance) and EVERY attribute declared for the class
(taken from the parsed .pxd/.pyx declarations, so a newly added field is flagged automatically) is compared between
original and restored object; C-level vectors must be rebuilt from their lists in order; restored expression trees,
rate laws and rules are compared by symbolic execution (z3, all states).
Cython's generated __reduce_cython__ (propensities, delays, rules, leaf terms) is generated C, not source: only a
static precondition is checked for those classes.
"""
import numpy as np

from .common import Check
from .stubs import ptr, sym_array
from pyxsym.sym import s_and, is_sym, Sym
from pyxsym.values import ObjModel, CVector
from pyxsym.front import ClassInfo

REPLAY = ("replay_drivers.C17", "replay")


def blank(interp, ci):
    o = ObjModel(ci, interp)
    for nm, t in ci.all_attrs().items():
        o.__dict__["_f"][nm] = interp.default_value(t)
    return o


def transport(interp, obj):
    """what pickle does with an object of an interpreted class (protocol >= 2), using the class's own methods"""
    ci = obj.__dict__["_cls"]
    red = ci.find_method("__reduce__")
    if red is not None:
        r = interp.call_funcinfo(red, obj, (), {})
        fn, args = r[0], r[1]
        new = fn(*args)
        if len(r) > 2 and r[2] is not None:
            interp.call_funcinfo(new.__dict__["_cls"].find_method("__setstate__"), new, (r[2],), {})
        return new
    st = interp.call_funcinfo(ci.find_method("__getstate__"), obj, (), {})
    new = blank(interp, ci)
    interp.call_funcinfo(ci.find_method("__setstate__"), new, (st,), {})
    return new


def same(a, b):
    if a is b:
        return True
    if isinstance(a, np.ndarray) and isinstance(b, np.ndarray):
        return a.shape == b.shape and all(x is y or (not is_sym(x) and not is_sym(y) and x == y) for x, y in zip(a.flat, b.flat))
    if isinstance(a, (list, tuple)) and isinstance(b, (list, tuple)):
        return len(a) == len(b) and all(same(x, y) for x, y in zip(a, b))
    if isinstance(a, dict) and isinstance(b, dict):
        return a.keys() == b.keys() and all(same(a[k], b[k]) for k in a)
    if is_sym(a) or is_sym(b):
        return False
    try:
        return bool(a == b)
    except Exception:
        return False


def compare_fields(c, interp, a, b, tag, skip=(), rp=None):
    ci = a.__dict__["_cls"]
    bad = []
    for nm, ty in ci.all_attrs().items():
        if nm in skip:
            continue
        if isinstance(ty, tuple) and ty[0] == "vector" and nm.startswith("c_"):
            continue        # C-level mirrors of Python lists: checked against their lists separately
        va, vb = a.__dict__["_f"].get(nm), b.__dict__["_f"].get(nm)
        if not same(va, vb):
            bad.append(nm)
    # fields created outside the declarations (python classes)
    for nm in set(a.__dict__["_f"]) - set(ci.all_attrs()):
        if nm in skip:
            continue
        if not same(a.__dict__["_f"][nm], b.__dict__["_f"].get(nm)):
            bad.append(nm)
    ok = c.prove(not bad, "%s: every declared field survives the state protocol (lost or changed: %s)" % (tag, bad),
                 info={"sig": "%s state protocol loses %s" % (ci.name, sorted(bad)), "what": "%s loses %s" % (tag, bad)})
    if ok is False:
        c.failures[-1]["replay"] = rp or {"kind": ci.name}
    return not bad


def model_job(interp, c, case):
    kind, initialized = case[:2]
    edited = len(case) > 2 and case[2]          # built in two stages with an initialisation in between
    T = interp.load("bioscrape.types")
    k = c.real("k", lo=0)
    args = dict(species=["A", "B", "C"],
                reactions=[(["A", "A"], ["B"], "massaction", {"k": "k1"}),
                           (["B"], [], "hillpositive", {"k": 1.0, "K": 2.0, "n": 2, "s1": "A"}, "gamma", [], ["C"], {"k": 3.0, "theta": "th"}),
                           (["A", "B", "C"], ["C"], "general", {"rate": "k1*A*max(B, 2)/(1 + C^2)"})],
                parameters=[("k1", k), ("th", 0.5)],
                rules=[("assignment", {"equation": "C = A + k1*B"}, "repeated"), ("additive", {"equation": "C = A + B"}, "dt")],
                initial_condition_dict={"A": 3, "B": 4}, initialize_model=initialized)
    later = None
    if edited:
        later = dict(reactions=args["reactions"][1:], rules=args["rules"][1:])
        args["reactions"], args["rules"] = args["reactions"][:1], args["rules"][:1]
        args["initialize_model"] = True

    def finish_edit(M):
        if later is None:
            return
        M.py_initialize()
        for rx in later["reactions"]:
            M.create_reaction(*rx)
        for ru in later["rules"]:
            M.create_rule(*ru)
        if initialized:
            M.py_initialize()
    if kind == "lineage":
        L = interp.load("bioscrape.lineage")
        M = L.ns["LineageModel"](**args)
        vs = L.ns["LineageVolumeSplitter"](M, options={"B": "duplicate"})
        M.create_volume_rule("ode", {"equation": "volume*k1"})
        M.create_division_rule("deltaV", {"threshold": 1.0}, vs)
        M.create_death_rule("species", {"specie": "A", "comp": ">", "threshold": 50})
        M.create_volume_event("linear volume", {"growth_rate": 0.1}, "massaction", {"k": 0.2, "species": "A"})
        M.create_division_event("division", {}, "massaction", {"k": 0.01, "species": "B"}, vs)
        M.create_death_event("death", {}, "hillpositive", {"k": 0.1, "K": 5.0, "n": 2, "s1": "C"})
        finish_edit(M)
        if initialized:
            M.py_initialize()
    else:
        M = T.ns["Model"](**args)
        finish_edit(M)
    tag = "%s model (%sinitialised%s)" % (kind, "" if initialized else "not ", ", built in two stages around an initialisation" if edited else "")
    rp = {"kind": "model", "which": kind, "initialized": initialized, "edited": bool(edited)}
    try:
        M2 = transport(interp, M)
    except Exception as e:
        c.fail("%s: restoring the state fails with %s: %s" % (tag, type(e).__name__, str(e)[:80]),
               info={"sig": "%s setstate raises" % kind, "what": "%s: %s" % (tag, e)})
        c.failures[-1]["replay"] = rp
        return
    compare_fields(c, interp, M, M2, tag, skip=("txt_dict",), rp=rp)
    # C-level vectors are rebuilt from their lists, in order
    pairs = [("c_propensities", "propensities"), ("c_delays", "delays"), ("c_repeat_rules", "repeat_rules")]
    if kind == "lineage":
        pairs += [("c_lineage_propensities", "lineage_propensities"), ("c_death_events", "death_events"),
                  ("c_division_events", "division_events"), ("c_volume_events", "volume_events"), ("c_death_rules", "death_rules"),
                  ("c_division_rules", "division_rules"), ("c_volume_rules", "volume_rules")]
    bad = []
    for cv, lv in pairs:
        vec, lst = M2.__dict__["_f"][cv], M2.__dict__["_f"][lv]
        if lst is None:
            lst = []
        if not (len(vec) == len(lst) and all(x is y for x, y in zip(vec, lst))):
            bad.append(cv)
    ok = c.prove(not bad, "%s: C-level vectors are rebuilt from their Python lists in order (wrong: %s)" % (tag, bad),
                 info={"sig": "vectors not rebuilt %s" % bad, "what": "%s vectors %s" % (tag, bad)})
    if ok is False:
        c.failures[-1]["replay"] = rp
    # behaviour: the restored model's interface computes the same rates / rules
    if initialized and kind == "plain":
        S = interp.load("bioscrape.simulator")
        st = sym_array(c, "x", 3, "real", lo=0)
        outs = []
        for m in (M, M2):
            itf = S.ns["ModelCSimInterface"](m)
            d = np.zeros(3, dtype=object)
            x = st.copy()
            itf.apply_repeated_rules(ptr(interp, x), 0, 1)
            itf.compute_stochastic_propensities(ptr(interp, x), ptr(interp, d), 0)
            outs.append((list(x), list(d), m.params_values.copy()))
        ok = c.prove(s_and(*[a == b for a, b in zip(outs[0][0] + outs[0][1], outs[1][0] + outs[1][1])]),
                     "%s: rules and stochastic rates of the restored model equal the original's at every state" % tag,
                     info={"sig": "restored model behaves differently", "what": tag})
        if ok is False:
            c.failures[-1]["replay"] = rp


def term_job(interp, c, case):
    cls, n = case
    T = interp.load("bioscrape.types")
    sv = sym_array(c, "s", 3, "real")
    pv = sym_array(c, "p", 2, "real")
    t, V = c.real("t"), c.real("V", lo=0, lo_strict=True)
    node = T.ns[cls]()
    kids = [T.ns["SpeciesTerm"](0), T.ns["ParameterTerm"](1), T.ns["ConstantTerm"](2.5), T.ns["TimeTerm"]()][:n]
    inner = T.ns["ProductTerm"]()
    inner.add_term(T.ns["SpeciesTerm"](2))
    inner.add_term(T.ns["VolumeTerm"]())
    for k in kids + [inner]:
        node.add_term(k)
    new = transport(interp, node)
    c.prove(new is not node and new.__dict__["_cls"] is node.__dict__["_cls"] and len(new.terms) == len(node.terms)
            and all(a is b for a, b in zip(new.terms, new.terms_list)),
            "%s: __reduce__ rebuilds a term of the same class with its children in order" % cls,
            info={"sig": "BinaryTerm reduce", "what": cls})
    c.prove(s_and(node.evaluate(ptr(interp, sv), ptr(interp, pv), t) == new.evaluate(ptr(interp, sv), ptr(interp, pv), t),
                  node.volume_evaluate(ptr(interp, sv), ptr(interp, pv), V, t) == new.volume_evaluate(ptr(interp, sv), ptr(interp, pv), V, t)),
            "%s: the restored term evaluates like the original at every point" % cls, info={"sig": "BinaryTerm value", "what": cls})
    empty = transport(interp, T.ns[cls]())
    c.prove(len(empty.terms) == 0, "%s: an empty term survives" % cls)


def data_job(interp, c, case):
    which, = case
    T = interp.load("bioscrape.types")
    S = interp.load("bioscrape.simulator")
    tok = lambda n, shape: sym_array(c, n, shape, "real")
    if which == "schnitz":
        p = T.ns["Schnitz"](tok("pt", 2), tok("pd", (2, 2)), tok("pv", 2))
        s = T.ns["Schnitz"](tok("t", 3), tok("d", (3, 2)), tok("v", 3))
        d1 = T.ns["Schnitz"](tok("t1", 2), tok("d1", (2, 2)), tok("v1", 2))
        d2 = T.ns["Schnitz"](tok("t2", 2), tok("d2", (2, 2)), tok("v2", 2))
        s.py_set_parent(p)
        s.py_set_daughters(d1, d2)
        new = transport(interp, s)
        compare_fields(c, interp, s, new, "Schnitz")
        ok = c.prove(new.py_get_parent() is p and new.py_get_daughters() == (d1, d2), "Schnitz: mother/daughter links survive",
                     info={"sig": "Schnitz links", "what": "links"})
        if ok is False:
            c.failures[-1]["replay"] = {"kind": "Schnitz"}
        # records with one daughter only, in either slot (tracking data where a sister was lost), and with none
        for slots in ((d1, None), (None, d2), (None, None)):
            s2 = T.ns["Schnitz"](tok("u", 3), tok("ud", (3, 2)), tok("uv", 3))
            s2.py_set_daughters(*slots)
            new2 = transport(interp, s2)
            ok = c.prove(new2.py_get_daughters() == slots and new2.py_get_parent() is None,
                         "Schnitz with daughters %s: each daughter slot survives on its own" % (tuple("set" if x is not None else "empty" for x in slots),),
                         info={"sig": "Schnitz single daughter", "what": "links"})
            if ok is False:
                c.failures[-1]["replay"] = {"kind": "Schnitz"}
    elif which in ("lineage", "explineage"):
        lin = T.ns["ExperimentalLineage"]({"GFP": 0, "RFP": 1}) if which == "explineage" else T.ns["Lineage"]()
        ss = [T.ns["Schnitz"](tok("t%d" % i, 2), tok("d%d" % i, (2, 2)), tok("v%d" % i, 2)) for i in range(3)]
        ss[0].py_set_daughters(ss[1], ss[2])
        ss[1].py_set_parent(ss[0])
        ss[2].py_set_parent(ss[0])
        for s in ss:
            lin.py_add_schnitz(s)
        new = transport(interp, lin)
        ok = new.py_size() == 3 and all(new.py_get_schnitz(i) is ss[i] for i in range(3)) and same(new.schnitzes, lin.schnitzes)
        c.prove(ok, "%s: all cells survive in order, C-level vector rebuilt" % which, info={"sig": "%s state" % which, "what": which})
        if which == "explineage":
            c.prove(new.species_dict == {"GFP": 0, "RFP": 1}, "ExperimentalLineage: species index survives", info={"sig": "explineage dict", "what": which})
    elif which == "volumecell":
        cs = S.ns["VolumeCellState"](time=c.real("tt"), state=tok("st", 3), volume=1.5)
        cs.py_set_volume(c.real("vol"))
        new = transport(interp, cs)
        compare_fields(c, interp, cs, new, "VolumeCellState", skip=("volume_object",))
        c.prove(not np.shares_memory(new.py_get_state(), cs.py_get_state()), "VolumeCellState: restored state array is a copy",
                info={"sig": "VolumeCellState alias", "what": "alias"})
    elif which == "lineagecell":
        L = interp.load("bioscrape.lineage")
        cs = L.ns["LineageVolumeCellState"](v0=c.real("v0"), t0=c.real("t0"), state=tok("st", 3), volume=c.real("vol"), time=c.real("tt"),
                                            divided=2, dead=-1)
        new = transport(interp, cs)
        compare_fields(c, interp, cs, new, "LineageVolumeCellState", skip=("volume_object",))
    elif which == "inference":
        IS = interp.load("bioscrape.inference_setup")
        fields = dict(Model="M-token", params_to_estimate=["k1"], init_seed=0.3, prior={"k1": ["uniform", 0, 1]}, nwalkers=7, nsteps=11,
                      dimension=1, sim_type="stochastic", method="lmfit", timepoints=[0, 1], time_column="tcol", measurements=["X"],
                      initial_conditions={"X": 1}, parameter_conditions={"q": 2}, norm_order=3, N_simulations=5, debug=True, hmax=0.25)
        a = IS.ns["InferenceSetup"](**fields)
        a.cost_progress.append(1.5)
        a.cost_params.append([0.2])
        a.LL_data = "LL-token"
        new = transport(interp, a)
        compare_fields(c, interp, a, new, "InferenceSetup", skip=("pid_interface",))


def static_job(interp, c, case):
    """auto-pickled classes: no pointer / vector-of-pointer attribute may exist without a hand-written protocol"""
    T = interp.load("bioscrape.types")
    L = interp.load("bioscrape.lineage")
    S = interp.load("bioscrape.simulator")
    bad = []
    roots = ["Propensity", "Delay", "Rule", "Term", "Volume", "VolumeSplitter", "Event"]
    for mod in (T, S, L):
        for ci in mod.classes.values():
            if not any(r.name in roots for r in ci.mro()):
                continue
            has_proto = any(ci.find_method(n) for n in ("__reduce__", "__getstate__"))
            for nm, t in ci.all_attrs().items():
                unpick = isinstance(t, tuple) and (t[0] == "ptr" or t[0] == "memview" or (t[0] == "vector" and isinstance(t[1], tuple)))
                if unpick and not has_proto:
                    bad.append("%s.%s" % (ci.name, nm))
            if ci.find_method("__cinit__") is not None and not has_proto:
                bad.append("%s.__cinit__" % ci.name)
    c.prove(not bad, "classes pickled by Cython's generated reduce have only auto-picklable attributes (offending: %s)" % bad,
            info={"sig": "auto-pickle precondition %s" % bad, "what": "static"})


def check(tier):
    ck = Check("C17", "model_checking", tier)
    for kind in ("plain", "lineage"):
        for init in (True, False):
            ck.add("model/%s/%s" % (kind, init), "harness.C17", "model_job", dict(cases=[(kind, init)]), fresh=True)
            ck.add("model-edited/%s/%s" % (kind, init), "harness.C17", "model_job", dict(cases=[(kind, init, True)]), fresh=True)
    for cls in ("SumTerm", "ProductTerm", "MaxTerm", "MinTerm"):
        ck.add("term/%s" % cls, "harness.C17", "term_job", dict(cases=[(cls, 2), (cls, 4)]))
    for w in ("schnitz", "lineage", "explineage", "volumecell", "lineagecell", "inference"):
        ck.add("data/%s" % w, "harness.C17", "data_job", dict(cases=[(w,)]))
    ck.add("static", "harness.C17", "static_job", dict(cases=[()]))
    ck.bounds = dict(models="plain and lineage model with mass-action / Hill / general rates, gamma delay, two rules (lineage: volume, "
                            "division, death rules and events), initialised or not", terms="n-ary terms with 2..5 children incl. a nested "
                     "product", field_list="every attribute declared in the parsed .pxd/.pyx class bodies")
    ck.assumptions = [
        "pickle / copy.deepcopy transport tuples, lists, dicts, numpy arrays and nested objects faithfully (C library, trusted); only "
        "the hand-written __getstate__/__setstate__/__reduce__ methods are executed (from source)",
        "classes pickled by Cython's generated __reduce_cython__ are generated C: covered only by a static precondition; equality "
        "of seeded simulations then follows from field equality and C08",
        "txt_dict (never assigned anywhere) and the non-transported volume_object / pid_interface are excluded from the comparison",
    ]
    mut = [
        ("setstate-index-slip", dict(module="bioscrape.types", old="        self.reaction_definitions = state[17]\n        self.rule_definitions = state[18]",
                                     new="        self.reaction_definitions = state[18]\n        self.rule_definitions = state[17]"), "model"),
        ("rules-vector-not-rebuilt", dict(module="bioscrape.types", old="        if state[6] is not None:\n            for x in state[6]:\n                self.c_repeat_rules.push_back(<void *> x)",
                                          new="        if state[6] is not None:\n            pass"), "model"),
        ("lineage-offset", dict(module="bioscrape.lineage", old="\t\tsuper().__setstate__(state[22:])", new="\t\tsuper().__setstate__(state[21:])"), "lmodel"),
        ("binaryterm-reversed", dict(module="bioscrape.types", old="        for i, x in enumerate(state):\n            new_term.py_add_term(x)", new="        for i, x in enumerate(reversed(state[1:])):\n            new_term.py_add_term(x)"), "term"),
    ]
    for name, m, w in mut:
        if w == "model":
            ck.add_mutant(name, m, w, "harness.C17", "model_job", dict(cases=[("plain", True)]), fresh=True)
        elif w == "lmodel":
            ck.add_mutant(name, m, w, "harness.C17", "model_job", dict(cases=[("lineage", True)]), fresh=True)
        else:
            ck.add_mutant(name, m, w, "harness.C17", "term_job", dict(cases=[("SumTerm", 3)]))
    ck.validate = ['copies']
    ck.run()
    return ck.finish(replay=REPLAY)
