"""C01 - built-in rate laws equal their documented closed forms.

Real code executed symbolically: Model.__init__/create_reaction/create_propensity/_add_reaction/
_initialize, <Propensity>.initialize and the four get_*propensity methods, ModelCSimInterface /
SafeModelCSimInterface constructors and their four compute_*propensities loops.
"""
import itertools
from fractions import Fraction

import numpy as np

from . import common
from .common import Check, model_env
from pyxsym.sym import sym_pow, s_max, is_sym, ite, Sym, s_and, CFault

SPECIES = ["A", "B", "C"]
MODES = ["deterministic", "volume", "stochastic", "stochastic_volume"]
REPLAY = ("replay_drivers.C01", "replay")
HILL_TYPES = ["hillpositive", "hillnegative", "proportionalhillpositive", "proportionalhillnegative"]


# ----------------------------------------------------------------------------------- oracle
def ff(s, m):
    """falling factorial s(s-1)..(s-m+1), zero when fewer than m copies are present."""
    acc = 1
    for j in range(m):
        acc = acc * (s - j)
    if m <= 1:
        return acc
    return ite(s > m - 1, acc, 0)


def massaction_closed(k, state, reactants, mode, V):
    mult = {}
    for r in reactants:
        mult[r] = mult.get(r, 0) + 1
    order = len(reactants)
    acc = k
    for sp, m in mult.items():
        s = state[sp]
        if mode.startswith("stochastic"):
            acc = acc * ff(s, m)
        else:
            acc = acc * sym_pow(s, m)
    if mode.endswith("volume"):
        if order == 0:
            acc = acc * V
        else:
            acc = acc / sym_pow(V, order - 1)
    return acc


def hill_closed(ptype, k, K, n, s, d, mode, V):
    x = s / V if mode.endswith("volume") else s
    h = sym_pow(x / K, n)
    if "positive" in ptype:
        val = k * h / (1 + h)
    else:
        val = k / (1 + h)
    if "proportional" in ptype:
        val = val * d
    return val


# ----------------------------------------------------------------------------------- harness
def _ptr(interp, arr):
    return interp.cast(("ptr", "double"), arr)


def _state(c, domain):
    if domain == "int":
        return {sp: c.int("s_" + sp, lo=0) for sp in SPECIES}
    return {sp: c.real("s_" + sp, lo=0) for sp in SPECIES}


def _eval_routes(interp, c, M, state, V, t, routes, nrx=1, modes=None):
    """Evaluate the reactions in the four modes through the requested routes; returns
    [(route, mode, [values per reaction] | CFault)]."""
    S = interp.load("bioscrape.simulator")
    sv = np.array([state[sp] for sp in M.get_species_list()], dtype=object)
    out = []
    MODES_ = [m for m in MODES if modes is None or m in modes]
    if "bare" in routes:
        pv = M.params_values
        vals = {m: [] for m in MODES}
        for p in M.propensities:
            vals["deterministic"].append(p.get_propensity(_ptr(interp, sv.copy()), _ptr(interp, pv), t))
            vals["volume"].append(p.get_volume_propensity(_ptr(interp, sv.copy()), _ptr(interp, pv), V, t))
            vals["stochastic"].append(p.get_stochastic_propensity(_ptr(interp, sv.copy()), _ptr(interp, pv), t))
            vals["stochastic_volume"].append(
                p.get_stochastic_volume_propensity(_ptr(interp, sv.copy()), _ptr(interp, pv), V, t))
        for m in MODES_:
            out.append(("bare", m, vals[m]))
    for route, cname in (("interface", "ModelCSimInterface"), ("safe", "SafeModelCSimInterface")):
        if route not in routes:
            continue
        itf = S.ns[cname](M)
        R = itf.get_num_reactions()
        for mode in MODES_:
            dest = np.zeros(R, dtype=object)
            st = sv.copy()
            try:
                if mode == "deterministic":
                    itf.compute_propensities(_ptr(interp, st), _ptr(interp, dest), t)
                elif mode == "volume":
                    itf.compute_volume_propensities(_ptr(interp, st), _ptr(interp, dest), V, t)
                elif mode == "stochastic":
                    itf.compute_stochastic_propensities(_ptr(interp, st), _ptr(interp, dest), t)
                else:
                    itf.compute_stochastic_volume_propensities(_ptr(interp, st), _ptr(interp, dest), V, t)
                out.append((route, mode, list(dest)))
            except CFault as e:
                out.append((route, mode, e))
    return out


def _safe_want(want, need, state):
    if need:
        return ite(s_and(*[state[sp] >= m for sp, m in need.items()]), want, 0)
    return want


def _need(reactants):
    need = {}
    for r in reactants:
        need[r] = need.get(r, 0) + 1
    return need


def massaction_job(interp, c, case, domain, routes, modes=None):
    """case = (species list, [reactant lists], named)"""
    T = interp.load("bioscrape.types")
    species, rxns, named = case[:3]
    shared = len(case) > 3 and case[3] == "shared"       # one parameter dictionary OBJECT passed for every reaction (a common way to write models)
    ks = [c.real("k%d" % i, lo=0, lo_strict=True) for i in range(len(rxns))]
    if shared:
        ks = [ks[0]] * len(rxns)
    V = c.real("V", lo=0, lo_strict=True)
    t = c.real("t", lo=0)
    state = {sp: (c.int("s_" + sp, lo=0) if domain == "int" else c.real("s_" + sp, lo=0)) for sp in species}
    reactions, params = [], []
    one = {"k": "kp0"}
    for i, reactants in enumerate(rxns):
        reactions.append((list(reactants), [], "massaction", one if shared else {"k": "kp%d" % i} if named else {"k": ks[i]}))
        if named and not (shared and i):
            params.append(("kp%d" % i, ks[i]))
    tag = "massaction[%s]%s" % (" ; ".join("*".join(r) or "0" for r in rxns), "/shared dict" if shared else "/named" if named else "/numeric")
    syms = {"V": V, "t": t, **{"k%d" % i: k for i, k in enumerate(ks)}, **{"s_" + s_: v for s_, v in state.items()}}
    try:
        M = T.ns["Model"](species=list(species), reactions=reactions, parameters=params)
    except (AssertionError, ValueError, TypeError, IndexError, KeyError, AttributeError) as e:
        _prove(c, False, "%s: the model cannot be built (%s: %s)" % (tag, type(e).__name__, str(e)[:80]), "massaction model construction fails",
               dict(kind="massaction", species=list(species), rxns=[list(r) for r in rxns], named=named, mode="stochastic", route="bare",
                    domain=domain, rxn=0, syms=syms))
        return
    for route, mode, vals in _eval_routes(interp, c, M, state, V, t, routes, modes=modes):
        base = dict(kind="massaction", species=list(species), rxns=[list(r) for r in rxns], named=named, mode=mode,
                    route=route, domain=domain, shared=shared)
        if isinstance(vals, CFault):
            rp = dict(base, rxn=0, syms=syms, fault=str(vals))
            _prove(c, False, "%s %s %s: memory-unsafe access (%s)" % (tag, mode, route, vals),
                   "unsafe-access %s %s" % (route, "stochastic" if mode.startswith("stochastic") else mode), rp)
            continue
        for i, reactants in enumerate(rxns):
            want = massaction_closed(ks[i], state, reactants, mode, V)
            need = _need(reactants)
            if route == "safe" and mode.startswith("stochastic"):
                want = _safe_want(want, need, state)
            multi = max(need.values()) if need else 0
            sig = "massaction %s nrx=%d %s %s" % ("repeated-reactant" if multi > 1 else "distinct-reactants", len(rxns), mode, route)
            rp = dict(base, rxn=i, syms=syms)
            _prove(c, vals[i] == want, "%s rxn%d %s %s" % (tag, i, mode, route), sig, rp)


def bare_class_job(interp, c, case, domain):
    """the general mass-action class itself, initialised directly for every order (a Model uses it from order 3 on, and the
    constitutive / unimolecular / bimolecular classes below that): case = reactant list"""
    T = interp.load("bioscrape.types")
    reactants = list(case)
    k = c.real("k0", lo=0, lo_strict=True)
    V = c.real("V", lo=0, lo_strict=True)
    t = c.real("t", lo=0)
    state = {sp: (c.int("s_" + sp, lo=0) if domain == "int" else c.real("s_" + sp, lo=0)) for sp in SPECIES}
    syms = {"V": V, "t": t, "k0": k, **{"s_" + s_: v for s_, v in state.items()}}
    P = T.ns["MassActionPropensity"]()
    P.initialize({"k": "kp", "species": "*".join(reactants)}, {sp: i for i, sp in enumerate(SPECIES)}, {"kp": 0})
    sv = np.array([state[sp] for sp in SPECIES], dtype=object)
    pv = np.array([k], dtype=object)
    tag = "MassActionPropensity[%s] initialised directly" % ("*".join(reactants) or "0")
    for mode in MODES:
        base = dict(kind="massaction_class", reactants=reactants, mode=mode, domain=domain, syms=syms)
        try:
            if mode == "deterministic":
                val = P.get_propensity(_ptr(interp, sv.copy()), _ptr(interp, pv), t)
            elif mode == "volume":
                val = P.get_volume_propensity(_ptr(interp, sv.copy()), _ptr(interp, pv), V, t)
            elif mode == "stochastic":
                val = P.get_stochastic_propensity(_ptr(interp, sv.copy()), _ptr(interp, pv), t)
            else:
                val = P.get_stochastic_volume_propensity(_ptr(interp, sv.copy()), _ptr(interp, pv), V, t)
        except CFault as e:
            _prove(c, False, "%s %s: memory-unsafe access (%s)" % (tag, mode, e), "unsafe-access class %s" % mode, base)
            continue
        want = massaction_closed(k, state, reactants, mode, V)
        _prove(c, val == want, "%s %s" % (tag, mode), "massaction class order %d %s" % (len(reactants), mode), base)


def _prove(c, cond, label, sig, rp):
    from pyxsym.sym import zbool
    import z3
    rp = dict(rp)
    syms = rp.pop("syms")
    ok = c.prove(cond, label, info={"sig": sig, "what": label})
    if ok is False:
        f = c.failures[-1]
        env = model_env(c, f["model"], syms)
        rp["values"] = env
        f["replay"] = rp
        f["info"]["what"] = "%s differs from its closed form at %s" % (label, env)


def hill_job(interp, c, case, domain, routes, modes=None):
    structures = [case]
    T = interp.load("bioscrape.types")
    k = c.real("k", lo=0, lo_strict=True)
    K = c.real("K", lo=0, lo_strict=True)
    V = c.real("V", lo=0, lo_strict=True)
    t = c.real("t", lo=0)
    state = _state(c, domain)
    for ptype, s1, d, consumed, named, nval in structures:
        n = c.real("n", lo=0, lo_strict=True) if nval == "sym" else nval
        pd = {"k": "kk" if named else k, "K": "KK" if named else K, "n": "nn" if named else n, "s1": s1}
        if "proportional" in ptype:
            pd["d"] = d
        params = [("kk", k), ("KK", K), ("nn", n)] if named else []
        reactants = [consumed] if consumed else []
        M = T.ns["Model"](species=list(SPECIES), reactions=[(reactants, ["C"], ptype, pd)], parameters=params)
        tag = "%s[s1=%s,d=%s,consumes=%s,n=%s]%s" % (ptype, s1, d, consumed, nval, "/named" if named else "/numeric")
        for route, mode, vals in _eval_routes(interp, c, M, state, V, t, routes, modes=modes):
            if isinstance(vals, CFault):
                c.fail("%s %s %s: memory-unsafe access (%s)" % (tag, mode, route, vals),
                       info={"sig": "unsafe-access hill %s" % route, "what": "%s: %s" % (tag, vals)})
                continue
            val = vals[0]
            want = hill_closed(ptype, k, K, n, state[s1], state[d] if d else None, mode, V)
            if route == "safe" and mode.startswith("stochastic") and consumed:
                want = ite(state[consumed] >= 1, want, 0)
            syms = {"k": k, "K": K, "V": V, "t": t, **{"s_" + s: v for s, v in state.items()}}
            if nval == "sym":
                syms["n"] = n
            rp = dict(kind="hill", ptype=ptype, s1=s1, d=d, consumed=consumed, named=named, n=nval, mode=mode,
                      route=route, domain=domain, syms=syms)
            sig = "%s n=%s %s %s" % (ptype, "sym" if nval == "sym" else "int", mode, route)
            _prove(c, val == want, "%s %s %s" % (tag, mode, route), sig, rp)


# ----------------------------------------------------------------------------------- structures
def massaction_structures(tier):
    out = []
    for order in range(0, 5):
        for lst in itertools.product(SPECIES, repeat=order):
            if tier == "quick" and order == 4 and list(lst) != sorted(lst) and lst[0] != "C":
                continue          # quick: order-4 multisets + the orderings that start with the last species
            for named in (True, False):
                if tier == "quick" and not named and order in (3, 4) and list(lst) != sorted(lst):
                    continue
                out.append((list(SPECIES), [lst], named))
    # two-reaction models over the exact species they use (rows of the safe-interface table are adjacent)
    pool = [(), ("A",), ("A", "A"), ("A", "B"), ("B",), ("A", "A", "B"), ("A", "B", "B")]
    for r0 in pool:
        for r1 in pool:
            sp = sorted(set(r0) | set(r1)) or ["A"]
            if tier == "quick" and len(r0) + len(r1) > 4:
                continue
            out.append((sp, [r0, r1], True))
    # the same dictionary object for reactions with different reactants
    for r0, r1 in ((("A",), ("B",)), ((), ("A",)), (("A", "B"), ("A",)), (("A", "A"), ("A", "B")), (("A", "A", "B"), ("B",))):
        out.append((sorted(set(r0) | set(r1)), [r0, r1], True, "shared"))
    return out


def hill_structures(tier):
    out = []
    nvals = ["sym", 1, 2, 3, 4] if tier == "thorough" else ["sym", 1, 2, 3]
    for ptype in HILL_TYPES:
        prop = "proportional" in ptype
        for s1, d in ([("A", "A"), ("A", "B"), ("B", "A")] if prop else [("A", None), ("B", None)]):
            for consumed in (None, "A", "B"):
                for named in (True, False):
                    for nval in nvals:
                        if tier == "quick" and not named and nval not in ("sym", 2):
                            continue
                        out.append((ptype, s1, d, consumed, named, nval))
    return out


def _chunks(lst, n):
    k = max(1, (len(lst) + n - 1) // n)
    return [lst[i:i + k] for i in range(0, len(lst), k)]


def check(tier):
    ck = Check("C01", "model_checking", tier)
    routes = ["bare", "interface", "safe"]
    ms = massaction_structures(tier)
    hs = hill_structures(tier)
    for domain in ("real", "int"):
        for i, ch in enumerate(_chunks(ms, 12 if tier == "thorough" else 6)):
            ck.add("massaction/%s/%d" % (domain, i), "harness.C01", "massaction_job",
                   dict(cases=ch, domain=domain, routes=routes))
        for i, ch in enumerate(_chunks(hs, 12 if tier == "thorough" else 6)):
            ck.add("hill/%s/%d" % (domain, i), "harness.C01", "hill_job",
                   dict(cases=ch, domain=domain, routes=routes))
        cls_cases = [lst for order in range(0, 4) for lst in itertools.product(SPECIES, repeat=order) if order < 3 or lst[0] == "A" or tier == "thorough"]
        ck.add("massaction-class/%s" % domain, "harness.C01", "bare_class_job", dict(cases=cls_cases, domain=domain))
    ck.bounds = dict(reaction_order="0..4", species_pool=3, reactions_per_model=1,
                     hill_exponent="free positive real (uninterpreted pow) and %s" %
                                   ("1..4" if tier == "thorough" else "1..3"),
                     massaction_structures=len(ms), hill_structures=len(hs),
                     state_domains="reals >= 0 and integers >= 0", parameters="> 0", volume="> 0")
    ck.assumptions = [
        "doubles are modelled as mathematical reals (no rounding/overflow); pow(x,n) with symbolic n is an "
        "uninterpreted function shared by code and oracle",
        "oracle: k*prod s^m; stochastic k*prod ff(s,m) with ff=0 when s<=m-1; /V^(order-1), order 0 *V; Hill on "
        "s/V; proportional *d; safe interface = closed form when each consumed species >= requirement, else 0",
        "outside the claim: orders > 4, more than one reaction per model in this property's harness, libm pow",
    ]
    mut = [
        ("massaction-ignores-multiplicity-stochastic",
         dict(module="bioscrape.types", old="for j in range(self.sp_counts[i]):\n                ans *= max(state[self.sp_inds[i]]-j, 0)",
              new="for j in range(1):\n                ans *= max(state[self.sp_inds[i]]-j, 0)")),
        ("bimolecular-volume-not-divided",
         dict(module="bioscrape.types", old="return params[self.rate_index] * state[self.s1_index] * state[self.s2_index] / volume",
              new="return params[self.rate_index] * state[self.s1_index] * state[self.s2_index]")),
        ("hill-K-n-swapped",
         dict(module="bioscrape.types", old="            elif key == 'K':\n                self.K_index = parameter_indices[value]\n            elif key == 'n':\n                self.n_index = parameter_indices[value]",
              new="            elif key == 'K':\n                self.n_index = parameter_indices[value]\n            elif key == 'n':\n                self.K_index = parameter_indices[value]")),
        ("falling-factorial-off-by-one",
         dict(module="bioscrape.types", old="return params[self.rate_index]*state[self.s1_index]*max(state[self.s1_index]-1, 0)\n",
              new="return params[self.rate_index]*state[self.s1_index]*max(state[self.s1_index]-2, 0)\n")),
        ("dispatch-threshold",
         dict(module="bioscrape.types", old="elif len(species_names) == 2:\n                    prop_object = BimolecularPropensity()",
              new="elif len(species_names) >= 2:\n                    prop_object = BimolecularPropensity()")),
    ]
    small_ms = [x for x in ms if len(x[1]) == 1 and len(x[1][0]) <= 3][::3]
    small_hs = hs[::7]
    for name, m in mut:
        if "hill" in name:
            ck.add_mutant(name, m, "hill/real", "harness.C01", "hill_job",
                          dict(cases=small_hs, domain="real", routes=["bare"]))
        else:
            ck.add_mutant(name, m, "massaction/int", "harness.C01", "massaction_job",
                          dict(cases=small_ms, domain="int", routes=["bare"]))
    # the safe interface passes a rate law through unchanged whenever the reaction's reactants are present (C06 has the converse)
    for cse in ((1, 1, -3, 3), (2, 1, -2, 2)):
        ck.add("safe-passes-rate/S%dR%d" % cse[:2], "harness.C06", "safe_job", dict(cases=[cse], aspect="liveness"), max_paths=200000)
    ck.validate = ['derivative', 'expressions']
    ck.run()
    return ck.finish(replay=REPLAY)


