"""C08 - results depend only on the model's current definition and the seed.

Histories are unbounded; the claim is reduced to per-operation obligations, each decided on the real source:
 1. initialisation is a function of the definition: _initialize run from a pre-state whose derived fields hold arbitrary
    stale content gives the same derived state as a freshly built model (plain and lineage; also initialising twice);
 2. every structural edit clears `initialized`; interfaces (re)initialise a stale model and refuse a model edited after
    their construction;
 3. simulating does not write the model: one step of each event loop and the deterministic right-hand side leave the
    interface's initial-state and parameter arrays untouched (no rule assigns a parameter);
 4. determinism: the only nondeterministic input of a seeded simulation is the uniform stream, and seeding overwrites
    the whole generator state (independence of the prior state shown by symbolic execution of mt_seed; known-answer
    outputs of genrand64 against MT19937-64); the deterministic global simulator is re-bound before every run.
"""
import numpy as np
from fractions import Fraction

from .common import Check
from .stubs import ptr, sym_array
from pyxsym.sym import s_and, is_sym, Sym, ctx
from pyxsym.values import CVector
from .C17 import same

REPLAY = ("replay_drivers.C08", "replay")
DERIVED = ["propensities", "delays", "c_propensities", "c_delays", "c_repeat_rules", "update_array", "delay_update_array", "initialized"]
LDERIVED = ["c_volume_rules", "c_death_rules", "c_division_rules", "c_lineage_propensities", "c_volume_events", "c_division_events",
            "c_death_events", "division_rules", "volume_events", "division_events", "death_events", "lineage_propensities",
            "rule_volume_splitters", "event_volume_splitters", "num_volume_rules", "num_death_rules", "num_division_rules",
            "num_volume_events", "num_division_events", "num_death_events"]


def _args():
    return dict(species=["A", "B", "C"],
                reactions=[(["A", "A"], ["B"], "massaction", {"k": "k1"}),
                           (["B"], [], "massaction", {"k": 0.5}, "fixed", [], ["C"], {"delay": "tau"}),
                           (["C"], ["A"], "general", {"rate": "k1*C/(1 + A)"})],
                parameters=[("k1", 1.5), ("tau", 0.25)],
                rules=[("assignment", {"equation": "C = A + B"}, "repeated")], initial_condition_dict={"A": 3, "B": 4})


def _mk(interp, kind, staged=False, **kw):
    """the model definition, built at once - or (staged) in two stages with an initialisation in between"""
    T = interp.load("bioscrape.types")
    args = _args()
    args.update(kw)
    later_rx, later_rules = [], []
    if staged:
        later_rx, later_rules = args["reactions"][1:], args["rules"]
        args["reactions"], args["rules"] = args["reactions"][:1], []
    if kind == "lineage":
        L = interp.load("bioscrape.lineage")
        M = L.ns["LineageModel"](initialize_model=False, **args)
        vs = L.ns["LineageVolumeSplitter"](M, options={"B": "duplicate"})
        M.create_volume_rule("ode", {"equation": "volume*k1"})
        M.create_volume_event("linear volume", {"growth_rate": 0.1}, "massaction", {"k": 0.2, "species": "A"})
        if staged:
            M.py_initialize()
        M.create_division_rule("deltaV", {"threshold": 1.0}, vs)
        M.create_death_rule("species", {"specie": "A", "comp": ">", "threshold": 50})
        M.create_division_event("division", {}, "massaction", {"k": 0.01, "species": "B"}, vs)
        M.create_death_event("death", {}, "massaction", {"k": 0.1, "species": "C"})
    else:
        M = T.ns["Model"](initialize_model=False, **args)
        if staged:
            M.py_initialize()
    for rx in later_rx:
        M.create_reaction(*rx)
    for ru in later_rules:
        M.create_rule(*ru)
    return M


PREFIX = {"c_volume_rules": "num_volume_rules", "c_death_rules": "num_death_rules", "c_division_rules": "num_division_rules",
          "c_volume_events": "num_volume_events", "c_division_events": "num_division_events", "c_death_events": "num_death_events",
          "division_rules": "num_division_rules", "volume_events": "num_volume_events", "division_events": "num_division_events",
          "death_events": "num_death_events", "c_lineage_propensities": None}


def _derived(M, kind):
    """what a simulation reads from the model's derived state (a lineage interface reads only the first num_* entries of the
    lineage vectors, so only those prefixes are part of it)"""
    f = M.__dict__["_f"]
    names = DERIVED + (LDERIVED if kind == "lineage" else [])
    out = {}
    for n in names:
        v = f.get(n)
        if isinstance(v, (list, CVector)):
            if n in PREFIX:
                k = f.get(PREFIX[n]) if PREFIX[n] else len(f.get("lineage_propensities") or [])
                v = list(v)[:k]
                out[n + "#enough"] = len(v) == k
            out[n] = [id(x) if kind == "same-object" else (x.__dict__["_cls"].name if hasattr(x, "__dict__") and "_cls" in x.__dict__ else type(x).__name__) for x in v]
            if n not in PREFIX:
                out[n + "#len"] = len(v)
        elif isinstance(v, np.ndarray):
            out[n] = v.tolist()
        else:
            out[n] = v
    return out


def init_job(interp, c, case):
    kind, how = case
    A = _mk(interp, kind)
    A.py_initialize()
    ref = _derived(A, kind)
    B = _mk(interp, kind, staged=(how == "staged"))
    f = B.__dict__["_f"]
    if how == "staged":
        B.py_initialize()
    elif how == "stale":
        junk = object()
        for n in ("c_propensities", "c_delays", "c_repeat_rules"):
            f[n] = CVector([junk, junk, junk, junk, junk])
        f["propensities"] = [junk]
        f["delays"] = [junk, junk]
        f["update_array"] = np.full((7, 7), 99.0)
        f["delay_update_array"] = np.full((1, 1), -5.0)
        f["initialized"] = 1
        B.py_initialize()
    elif how == "twice":
        B.py_initialize()
        B.py_initialize()
    else:               # initialised, edited (value only), initialised again
        B.py_initialize()
        B.set_parameter("k1", 1.5)
        B.set_species({"A": 3})
        B.py_initialize()
    got = _derived(B, kind)
    diff = sorted(k for k in ref if ref[k] != got.get(k))
    ok = c.prove(not diff, "%s model, initialisation %s: the derived state (C-level vectors, matrices, counters) equals that of a freshly "
                           "initialised model (differs in: %s)" % (kind, how, {k: (ref[k], got.get(k)) for k in diff[:4]}),
                 info={"sig": "%s re-initialisation accumulates %s" % (kind, [d for d in diff if not d.endswith("#len")][:6]),
                       "what": "%s/%s derived state differs in %s" % (kind, how, diff)})
    if ok is False:
        c.failures[-1]["replay"] = {"kind": "reinit", "which": kind, "how": how}
    if kind == "lineage":
        # what the lineage interface reads (the first num_* entries of each vector) are the objects of the definition lists
        want = {"c_lineage_propensities": [x[1] for x in f["volume_events_list"]] + [x[1] for x in f["division_events_list"]]
                + [x[1] for x in f["death_events_list"]],
                "c_volume_events": [x[0] for x in f["volume_events_list"]], "c_division_events": [x[0] for x in f["division_events_list"]],
                "c_death_events": [x[0] for x in f["death_events_list"]], "c_volume_rules": list(f["volume_rules"]),
                "c_death_rules": list(f["death_rules"]), "c_division_rules": [x[0] for x in f["division_rules_list"]]}
        bad = [n for n, w in want.items() if not (len(f[n]) >= len(w) and all(a is b for a, b in zip(list(f[n]), w)))]
        ok = c.prove(not bad, "lineage model, initialisation %s: the entries the lineage interface reads from each C-level vector are the "
                              "objects of the model's definition lists, in order (wrong: %s)" % (how, bad),
                     info={"sig": "lineage vectors out of step with the definition after %s: %s" % (how, bad), "what": "lineage/%s %s" % (how, bad)})
        if ok is False:
            c.failures[-1]["replay"] = {"kind": "reinit", "which": kind, "how": how}


def _snap(obj):
    out = {}
    for k, v in obj.__dict__["_f"].items():
        if isinstance(v, np.ndarray):
            out[k] = ("arr", [x for x in v.flat])
        elif isinstance(v, (list, tuple)):
            out[k] = ("seq", list(v))
        elif isinstance(v, dict):
            out[k] = ("map", dict(v))
        else:
            out[k] = ("val", v)
    return out


def _snap_same(a, b):
    bad = []
    for k in a:
        ka, va = a[k]
        kb, vb = b.get(k, (None, None))
        if ka != kb:
            bad.append(k)
        elif ka in ("arr", "seq"):
            if len(va) != len(vb) or not all(x is y or (not is_sym(x) and not is_sym(y) and x == y) for x, y in zip(va, vb)):
                bad.append(k)
        elif ka == "map":
            if va.keys() != vb.keys() or not all(va[q] is vb[q] or va[q] == vb[q] for q in va):
                bad.append(k)
        elif not (va is vb or (not is_sym(va) and not is_sym(vb) and va == vb)):
            bad.append(k)
    return bad


def stateless_job(interp, c, case):
    """the objects a model is made of (rules, rate laws, delays) carry no memory: using them - as any simulation does - leaves
    every field of theirs as it was, so a second simulation meets the same objects as the first"""
    T = interp.load("bioscrape.types")
    S = interp.load("bioscrape.simulator")
    from .stubs import install_uniform
    install_uniform(interp)
    tf = 2
    M = T.ns["Model"](species=["A", "B", "C"],
                      reactions=[(["A", "A"], ["B"], "massaction", {"k": "k1"}), (["B"], [], "hillpositive", {"k": 1.0, "K": 2.0, "n": 2, "s1": "A"}),
                                 (["C"], ["A"], "general", {"rate": "k1*C/(1 + A)"}),
                                 (["B"], [], "massaction", {"k": 0.5}, "gaussian", [], ["C"], {"mean": 1.0, "std": 0.1})],
                      parameters=[("k1", 1.5)],
                      rules=[("assignment", {"equation": "C = A + B"}, "repeated"), ("assignment", {"equation": "B = A + 1"}, "dt"),
                             ("assignment", {"equation": "A = 40"}, tf), ("additive", {"equation": "C = A + A"}, "start"),
                             ("ode", {"equation": "k1", "target": "A"})],
                      initial_condition_dict={"A": 3, "B": 4})
    itf = S.ns["ModelCSimInterface"](M)
    itf.py_set_dt(c.real("dt", lo=0, lo_strict=True))
    objs = [("rule %d (%s)" % (i, r.__dict__["_cls"].name), r) for i, r in enumerate(M.repeat_rules)] + \
           [("rate law %d (%s)" % (i, p_.__dict__["_cls"].name), p_) for i, p_ in enumerate(M.propensities)] + \
           [("delay %d (%s)" % (i, d_.__dict__["_cls"].name), d_) for i, d_ in enumerate(M.delays)]
    before = [(_n, _snap(o)) for _n, o in objs]
    V = c.real("V", lo=0, lo_strict=True)
    for t in (0, tf, c.real("t_any", lo=0)):
        for rs in (1, 0):
            x = sym_array(c, "x", 3, "real", lo=0)
            itf.apply_repeated_rules(ptr(interp, x), t, rs)
            itf.apply_repeated_volume_rules(ptr(interp, x), V, t, rs)
            d = np.zeros(4, dtype=object)
            itf.compute_stochastic_propensities(ptr(interp, x), ptr(interp, d), t)
            itf.compute_stochastic_volume_propensities(ptr(interp, x), ptr(interp, d), V, t)
            itf.compute_propensities(ptr(interp, x), ptr(interp, d), t)
            itf.compute_delay(ptr(interp, x), 3)
    changed = []
    for (nm, b), (_, o) in zip(before, objs):
        bad = _snap_same(b, _snap(o))
        if bad:
            changed.append("%s: %s" % (nm, bad))
    ok = c.prove(not changed, "applying the rules and evaluating the rate laws and delays of a model (at the start, at a rule's firing time, at "
                              "any time; with and without the step flag) leaves every field of those objects unchanged (changed: %s)" % changed,
                 info={"sig": "model objects keep memory of being used: %s" % changed, "what": "stateless %s" % changed})
    if ok is False:
        c.failures[-1]["replay"] = {"kind": "twice"}


def follow_job(interp, c, case):
    """an interface built on a model keeps following the model's value edits (it shares the model's arrays), also across a
    repeated initialisation - so that any history ending in the same definition simulates like a fresh model"""
    kind, reinit, safe = case
    T = interp.load("bioscrape.types")
    S = interp.load("bioscrape.simulator")
    M = _mk(interp, "plain")
    M.py_initialize()
    itf = S.ns["SafeModelCSimInterface" if safe else "ModelCSimInterface"](M)
    if reinit:
        M.py_initialize()
    a_new, k_new = c.real("a_new", lo=0), c.real("k_new", lo=0)
    if kind == "species":
        M.set_species({"A": a_new})
    else:
        M.set_params({"k1": k_new})
    idx, pidx = M.get_species2index(), M.get_params2index()
    x0 = itf.get_initial_state()
    pv = itf.py_get_param_values()
    tag = "%s interface built before %s%s" % ("safe" if safe else "plain", "a second initialisation and " if reinit else "",
                                             "set_species" if kind == "species" else "set_params")
    if kind == "species":
        ok = c.prove(x0[idx["A"]] == a_new, "%s starts from the model's new initial condition" % tag,
                     info={"sig": "interface does not follow set_species%s" % (" after re-initialisation" if reinit else ""), "what": tag})
    else:
        ok = c.prove(pv[pidx["k1"]] == k_new, "%s uses the model's new parameter value" % tag,
                     info={"sig": "interface does not follow set_params%s" % (" after re-initialisation" if reinit else ""), "what": tag})
    if ok is False:
        c.failures[-1]["replay"] = {"kind": "follow", "what": kind, "reinit": bool(reinit), "safe": bool(safe)}


def edit_job(interp, c, case):
    T = interp.load("bioscrape.types")
    S = interp.load("bioscrape.simulator")
    edits = {
        "_add_species": lambda M: M._add_species("Znew"),
        "_add_param": lambda M: M._add_param("pnew"),
        "create_reaction": lambda M: M.create_reaction(["A"], ["B"], "massaction", {"k": 2.0}),
        "create_rule": lambda M: M.create_rule("assignment", {"equation": "B = A"}),
        "set_parameter(new name)": lambda M: M.set_parameter("brand_new", 1.0),
        "create_parameter": lambda M: M.create_parameter("p2", 3.0),
        "_set_species_value(new)": lambda M: M._set_species_value("Ynew", 2),
    }
    for name, fn in edits.items():
        M = T.ns["Model"](**_args())
        itf = S.ns["ModelCSimInterface"](M)
        c.prove(M.initialized == 1 or M.initialized is True, "a constructed model is initialised")
        fn(M)
        ok = c.prove(not M.initialized, "edit %s marks the model as not initialised" % name,
                     info={"sig": "edit %s keeps initialized" % name, "what": name})
        if ok is False:
            c.failures[-1]["replay"] = {"kind": "edit", "edit": name}
        try:
            S.ns["SSASimulator"]().py_simulate(itf, np.array([0, 1], dtype=object))
            refused = False
        except RuntimeError:
            refused = True
        except Exception:
            refused = False
        ok = c.prove(refused, "an interface built before edit %s refuses to simulate the changed model" % name,
                     info={"sig": "stale interface accepted after %s" % name, "what": name})
        if ok is False:
            c.failures[-1]["replay"] = {"kind": "edit", "edit": name}
        if name in ("_add_param", "set_parameter(new name)", "_add_species", "_set_species_value(new)") and name != "_add_species":
            pass
        # a new interface re-initialises the model (or fails because the edit left a value undefined)
        try:
            S.ns["ModelCSimInterface"](M)
            c.prove(bool(M.initialized), "building a new interface after %s re-initialises the model" % name)
        except ValueError as e:
            c.prove("Unspecified Parameters" in str(e), "after %s a new interface refuses the model until the new parameter has a value" % name)


def rhs_job(interp, c, case):
    """deterministic right-hand side and run do not write the model; the global simulator is re-bound per run"""
    T = interp.load("bioscrape.types")
    S = interp.load("bioscrape.simulator")
    k = c.real("k1", lo=0)
    args = _args()
    args["parameters"] = [("k1", k), ("tau", 0.25)]
    MA = T.ns["Model"](**args)
    MB = T.ns["Model"](species=["Q"], reactions=[(["Q"], [], "massaction", {"k": 2.0})], initial_condition_dict={"Q": 7})
    seen = []

    def odeint(f, y0, ts, **kw):
        x = sym_array(ctx(), "y%d" % len(seen), len(y0), "real", lo=0)
        out = f(x, ts[0])
        seen.append((len(y0), len(out)))
        Y = sym_array(ctx(), "Y%d" % len(seen), (len(ts), len(y0)), "real")
        return Y, {"message": "Integration successful."}
    S.ns["odeint"] = odeint
    tp = np.array([0, 1, 2], dtype=object)
    for M, n in ((MA, 3), (MB, 1), (MA, 3)):
        sv0, pv0 = list(M.species_values), list(M.params_values)
        r = S.ns["py_simulate_model"](tp, Model=M, stochastic=False, return_dataframe=False)
        c.prove(seen[-1] == (n, n), "the right-hand side evaluated during this run belongs to the model being simulated (global simulator "
                                    "re-bound before use): state size %s, derivative size %s" % seen[-1],
                info={"sig": "stale global simulator", "what": "rhs of another model"})
        ok = all(a is b for a, b in zip(M.species_values, sv0)) and all(a is b for a, b in zip(M.params_values, pv0))
        c.prove(ok, "a deterministic run leaves the model's initial condition and parameters untouched",
                info={"sig": "deterministic run writes the model", "what": "model written"})


def interface_reuse_job(interp, c, case):
    """one interface object prepared (and used) for several deterministic runs: the derivative it reports for a state is the same every
    time - preparing again replaces the interface's stoichiometry tables, it does not add to them"""
    safe, = case
    T = interp.load("bioscrape.types")
    S = interp.load("bioscrape.simulator")
    k = c.real("k1", lo=0)
    args = _args()
    args["parameters"] = [("k1", k), ("tau", 0.25)]
    M = T.ns["Model"](**args)
    itf = S.ns["SafeModelCSimInterface" if safe else "ModelCSimInterface"](M)
    st = {s_: c.real("x_" + s_, lo=0, lo_strict=True) for s_ in ("A", "B", "C")}
    order = M.get_species_list()
    outs = []
    for rep in range(3):
        itf.py_prep_deterministic_simulation()
        x = np.array([st[s_] for s_ in order], dtype=object)
        dx = np.array([c.real("junk%d_%d" % (rep, i)) for i in range(3)], dtype=object)
        itf.py_calculate_deterministic_derivative(x, dx, 0)
        outs.append(list(dx))
    ok = c.prove(s_and(*[outs[r][i] == outs[0][i] for r in (1, 2) for i in range(3)]),
                 "%s interface prepared for a deterministic run three times: the derivative at a state is the same each time" % ("safe" if safe else "plain"),
                 info={"sig": "interface reuse changes the deterministic derivative", "what": "derivative after repeated preparation"})
    if ok is False:
        c.failures[-1]["replay"] = {"kind": "interface_reuse"}


def rng_job(interp, c, case):
    seed, = case
    R = interp.load("bioscrape.random")
    # prior generator state: arbitrary (symbolic) contents and position
    R.ns["mt"] = [ctx().fresh_int("mtjunk") for _ in range(312)]
    R.ns["mti"] = 7
    R.ns["mag01"] = [ctx().fresh_int("magjunk"), ctx().fresh_int("magjunk")]
    R.ns["seed_random"](seed)
    st = R.ns["mt"]
    c.prove(all(isinstance(v, int) for v in st) and isinstance(R.ns["mti"], int) and all(isinstance(v, int) for v in R.ns["mag01"]),
            "seeding overwrites the whole generator state: nothing of the prior state (symbolic) survives",
            info={"sig": "seed leaves prior generator state", "what": "rng state"})
    # reference MT19937-64 (Matsumoto & Nishimura), transcribed independently
    M64 = (1 << 64) - 1
    mt = [seed & M64]
    for i in range(1, 312):
        mt.append((6364136223846793005 * (mt[i - 1] ^ (mt[i - 1] >> 62)) + i) & M64)
    c.prove(st == mt and R.ns["mti"] == 312, "the seeded state equals MT19937-64's init_genrand64(seed)",
            info={"sig": "mt_seed differs from MT19937-64", "what": "seed %d" % seed})

    def ref_next(state):
        mtl, idx = state
        if idx >= 312:
            for i in range(312):
                x = (mtl[i] & 0xFFFFFFFF80000000) | (mtl[(i + 1) % 312] & 0x7FFFFFFF)
                mtl[i] = mtl[(i + 156) % 312] ^ (x >> 1) ^ (0xB5026F5AA96619E9 if x & 1 else 0)
            idx = 0
        x = mtl[idx]
        idx += 1
        x ^= (x >> 29) & 0x5555555555555555
        x ^= (x << 17) & 0x71D67FFFEDA60000
        x ^= (x << 37) & 0xFFF7EEE000000000
        x ^= (x >> 43)
        state[1] = idx
        return x & M64
    state = [list(mt), 312]
    n = 700
    got = [R.ns["genrand64"]() for _ in range(n)]
    want = [ref_next(state) for _ in range(n)]
    c.prove(got == want, "the first %d outputs of genrand64 equal MT19937-64's (two state regenerations included)" % n,
            info={"sig": "genrand64 differs from MT19937-64", "what": "seed %d" % seed})
    for f_ in c.failures:
        f_["replay"] = {"kind": "rng", "seed": seed}
    if seed == 5489:
        c.prove(got[0] == 14514284786278117030, "known answer: first output for seed 5489 is 14514284786278117030",
                info={"sig": "genrand64 known answer", "what": "5489"})
        for f_ in c.failures:
            f_.setdefault("replay", None)
            if f_["replay"] is None:
                f_["replay"] = {"kind": "rng", "seed": seed}
    R.ns["seed_random"](seed)
    u = R.ns["uniform_rv"]() if "uniform_rv" in R.funcs else None


def _mutable_globals(R):
    """module-level C variables of bioscrape.random that some function can change: names in a `global` statement and arrays"""
    from Cython.Compiler import Nodes as N
    from pyxsym.interp import _walk
    from Cython.Compiler import ExprNodes as E
    names = set()
    for fn in _walk(R.tree):
        if not isinstance(fn, (N.CFuncDefNode, N.DefNode)):
            continue
        glob, assigned = set(), set()
        for node in _walk(fn.body):
            if isinstance(node, N.GlobalNode):
                glob |= set(node.names)
            tg = []
            if isinstance(node, (N.SingleAssignmentNode, N.InPlaceAssignmentNode)):
                tg = [node.lhs]
            elif isinstance(node, N.CascadedAssignmentNode):
                tg = list(node.lhs_list)
            elif isinstance(node, (N.ForInStatNode, N.ForFromStatNode)):
                tg = [node.target]
            assigned |= {t.name for t in tg if isinstance(t, E.NameNode)}
        names |= glob & assigned
    for nm, ty in R.gtypes.items():
        if isinstance(ty, tuple) and ty[0] == "array":
            names.add(nm)
    return sorted(n for n in names if n in R.gtypes)


def _junk_vars(v):
    import z3
    from z3 import z3util
    out = set()
    vs = v if isinstance(v, (list, tuple)) else [v]
    for x in vs:
        if is_sym(x):
            out |= {str(t) for t in z3util.get_vars(x.z if hasattr(x, "z") else x._num().z)}
    return {n for n in out if "junk" in n}


def reseed_job(interp, c, case):
    """history independence: from an arbitrary (symbolic) value of every mutable module-level variable of
    bioscrape.random, seed_random(seed) followed by each sampler yields values in which nothing of the prior state appears,
    and leaves nothing of it behind"""
    seed, sampler = case
    R = interp.load("bioscrape.random")
    muts = _mutable_globals(R)
    for nm in muts:
        ty = R.gtypes[nm]
        if isinstance(ty, tuple) and ty[0] == "array":
            R.ns[nm] = [ctx().fresh_int("junk_" + nm, lo=0) for _ in range(ty[2])]
        elif ty == "bint":
            R.ns[nm] = ctx().fresh_int("junk_" + nm, lo=0, hi=1)
        elif ty in ("double", "float"):
            R.ns[nm] = ctx().fresh_real("junk_" + nm)
        else:
            R.ns[nm] = ctx().fresh_int("junk_" + nm, lo=0, hi=400)
    rp = {"kind": "rng_history", "seed": seed}
    n0 = len(c.pc)
    R.ns["seed_random"](seed)
    left = [nm for nm in muts if _junk_vars(R.ns[nm])]
    ok = c.prove(not left, "seeding overwrites every mutable module-level variable of the generator (%s); still holding prior state: %s"
                 % (", ".join(muts), left), info={"sig": "seed leaves prior generator state in %s" % left, "what": "rng state"})
    if ok is False:
        c.failures[-1]["replay"] = rp
    calls = {"uniform": lambda: R.ns["uniform_rv"](), "normal": lambda: R.ns["normal_rv"](0, 1),
             "exponential": lambda: R.ns["exponential_rv"](2), "gamma": lambda: R.ns["gamma_rv"](2, 1),
             "erlang": lambda: R.ns["erlang_rv"](2, 1), "binomial": lambda: R.ns["binom_rnd"](3, Fraction(1, 3)),
             "rand_int": lambda: R.ns["genrand64"]()}
    outs = [calls[sampler]() for _ in range(3)]
    dep = sorted(set().union(*[_junk_vars(o) for o in outs]))
    branch = sorted(set().union(*[{str(t) for t in __import__("z3").z3util.get_vars(p_)} for p_ in c.pc[n0:]] or [set()]))
    branch = [b for b in branch if "junk" in b]
    ok = c.prove(not dep and not branch, "after seeding, three draws of %s mention nothing of the prior generator state "
                 "(values depend on %s, control flow on %s)" % (sampler, dep, branch),
                 info={"sig": "%s after seeding depends on prior state" % sampler, "what": "rng history %s" % sampler})
    if ok is False:
        c.failures[-1]["replay"] = dict(rp, sampler=sampler)


def check(tier):
    from . import C05
    ck = Check("C08", "model_checking", tier)
    for kind in ("plain", "lineage"):
        for how in ("stale", "twice", "edit", "staged"):
            if kind == "lineage" and how == "stale":
                continue
            ck.add("init/%s/%s" % (kind, how), "harness.C08", "init_job", dict(cases=[(kind, how)]), fresh=True)
    ck.add("edits", "harness.C08", "edit_job", dict(cases=[()]), fresh=True)
    ck.add("model-objects-stateless", "harness.C08", "stateless_job", dict(cases=[()]), fresh=True)
    ck.add("interface-follows-model", "harness.C08", "follow_job",
           dict(cases=[(k_, r_, s_) for k_ in ("species", "params") for r_ in (False, True) for s_ in (False, True)]), fresh=True)
    ck.add("deterministic", "harness.C08", "rhs_job", dict(cases=[()]), fresh=True)
    ck.add("interface-reuse", "harness.C08", "interface_reuse_job", dict(cases=[(False,), (True,)]), fresh=True)
    for seed in (5489, 1, 2 ** 63 + 12345) + ((42, 2 ** 64 - 1) if tier == "thorough" else ()):
        ck.add("rng/%d" % seed, "harness.C08", "rng_job", dict(cases=[(seed,)]), fresh=True, exact=True)
    for smp in ("uniform", "normal", "exponential", "erlang", "binomial", "rand_int"):       # gamma_rv: rejection loop over normal_rv / uniform_rv, not unrolled
        ck.add("reseed/%s" % smp, "harness.C08", "reseed_job", dict(cases=[(12345, smp)]), fresh=True, exact=True)
    # loops do not write the model
    for cse in C05.cases("quick"):
        ck.add("ssa-step/S%dR%dT%d/ci%d" % cse, "harness.C05", "step_job", dict(cases=[cse], rules=True, facets=["model-untouched", "init"]))
    F = ["model-untouched", "init"]
    ck.add("delay-step", "harness.steps", "delay_step", dict(cases=[(2, 2, 2, 0, 2, 0), (2, 2, 2, 1, 2, 1)], facets=F, rules=True))
    ck.add("volume-step", "harness.steps", "volume_step", dict(cases=[(2, 2, 2, 0), (2, 2, 2, 1)], facets=F, rules=True))
    ck.add("dv-step", "harness.steps", "delay_volume_step", dict(cases=[(2, 2, 2, 0, 2, 0), (2, 2, 2, 1, 2, 1)], facets=F))
    ck.bounds = dict(models="3 species, 3 reactions (mass action, delayed, general), 1 rule; lineage variant with volume/division/death "
                            "rules and events", histories="reduced to per-operation obligations (see assumptions)", rng_outputs=700)
    ck.assumptions = [
        "induction over histories: every structural edit clears `initialized`; initialisation recomputes every derived field from "
        "the definition alone; simulation writes only copies. Hence any history ending in the same definition reaches the same "
        "simulated object as a fresh model",
        "within one seeded simulation the only nondeterministic input is the uniform stream consumed in program order (C05-C11 step "
        "relations quantify over it); seeding with a non-zero seed overwrites the whole generator state; seed 0 (clock) is excluded",
        "bit-identical repeatability of LSODA itself is scipy's; rules that assign parameters are excluded by the property",
    ]
    mut = [
        ("vector-not-cleared", dict(module="bioscrape.types", old="        self.c_repeat_rules.clear()\n        for rule_object in self.repeat_rules:", new="        for rule_object in self.repeat_rules:"), "init"),
        ("edit-keeps-flag", dict(module="bioscrape.types", old="        self.initialized = False\n\n        # Parse the rule by rule type", new="\n        # Parse the rule by rule type"), "edit"),
        ("simulator-writes-initial-state", dict(module="bioscrape.simulator", old="        cdef np.ndarray[np.double_t,ndim=1] c_current_state = sim.get_initial_state().copy()\n        cdef np.ndarray[np.double_t,ndim=2] c_stoich = sim.get_update_array() + sim.get_delay_update_array()\n        cdef np.ndarray[np.double_t,ndim=2] c_delay_stoich",
                                                new="        cdef np.ndarray[np.double_t,ndim=1] c_current_state = sim.get_initial_state()\n        cdef np.ndarray[np.double_t,ndim=2] c_stoich = sim.get_update_array() + sim.get_delay_update_array()\n        cdef np.ndarray[np.double_t,ndim=2] c_delay_stoich"), "ssa"),
        ("seed-skips-tail", dict(module="bioscrape.random", old="    for mti in range(1,NN):", new="    for mti in range(1,NN-1):"), "rng"),
    ]
    for name, m, w in mut:
        if w == "init":
            ck.add_mutant(name, m, w, "harness.C08", "init_job", dict(cases=[("plain", "stale"), ("plain", "twice")]), fresh=True)
        elif w == "edit":
            ck.add_mutant(name, m, w, "harness.C08", "edit_job", dict(cases=[()]), fresh=True)
        elif w == "ssa":
            ck.add_mutant(name, m, w, "harness.C05", "step_job", dict(cases=[(2, 2, 2, 0), (2, 2, 2, 1)], facets=["model-untouched", "init"]))
        else:
            ck.add_mutant(name, m, w, "harness.C08", "rng_job", dict(cases=[(1,)]), fresh=True)
    ck.validate = ['rng', 'ssa']
    ck.run()
    return ck.finish(replay=REPLAY)
