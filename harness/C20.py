"""C20 - the delay queue delivers each entry once, in order, at the nearest grid time.

One-step induction over ArrayDelayQueue operations from an arbitrary symbolic queue state.
Ghost labelling: physical column c holds deliveries due at nqt + ((c - start) mod C) * dt.
Real code executed: ArrayDelayQueue.__init__/setup_queue/add_reaction/get_next_queue_time/
get_next_reactions/advance_time/set_current_time/copy/clear_copy/binomial_partition,
cyrandom.binom_rnd_f (uniform_rv stubbed).
"""
import numpy as np

from .common import Check, model_env
from .stubs import install_uniform, ptr, sym_array, arr_syms
from pyxsym.sym import s_and, s_or, s_not, s_fabs, ite, is_sym, CFault

REPLAY = ("replay_drivers.C20", "replay")


def _mk_queue(interp, c, R, C, start, int_counts=None):
    S = interp.load("bioscrape.simulator")
    if int_counts is not None:
        q0 = sym_array(c, "q", (R, C), "int", lo=0, hi=int_counts)
    else:
        q0 = sym_array(c, "q", (R, C), "real", lo=0)
    dt = c.real("dt", lo=0, lo_strict=True)
    nqt = c.real("nqt")
    q = S.ns["ArrayDelayQueue"](q0.copy(), dt, 0)
    q.start_index = start
    q.next_queue_time = nqt
    syms = dict(dt=dt, nqt=nqt, **arr_syms("q", q0))
    return S, q, q0, dt, nqt, syms


def _label(nqt, dt, start, C, col):
    return nqt + ((col - start) % C) * dt


def _report(c, cond, label, sig, rp, syms):
    ok = c.prove(cond, label, info={"sig": sig, "what": label})
    if ok is False:
        f = c.failures[-1]
        env = model_env(c, f["model"], syms)
        f["replay"] = dict(rp, values=env)
        f["info"]["what"] = "%s at %s" % (label, env)
    return ok


def add_job(interp, c, case):
    R, C, start, r = case
    S, q, q0, dt, nqt, syms = _mk_queue(interp, c, R, C, start)
    t = c.real("t")
    a = c.real("a", lo=0, lo_strict=True)
    syms.update(t=t, a=a)
    # requested time is never exactly half-way between two grid slots (property text)
    for k in range(C - 1):
        c.assume(s_not(t - (nqt + k * dt) == (nqt + (k + 1) * dt) - t))
    rp = dict(op="add", R=R, C=C, start=start, r=r)
    try:
        q.add_reaction(t, r, a)
    except CFault as e:
        _report(c, False, "add_reaction: memory-unsafe access %s" % e, "add unsafe", rp, syms)
        return
    post = q.queue
    changed = [(i, j) for i in range(R) for j in range(C) if post[i, j] is not q0[i, j]]
    sig = "add_reaction R=%d C=%d" % (R, C)
    if len(changed) != 1:
        _report(c, False, "add_reaction changed %d cells" % len(changed), sig + " cells", rp, syms)
        return
    (i, j), = changed
    ok = s_and(post[i, j] == q0[i, j] + a)
    _report(c, ok, "add_reaction adds the amount to one cell", sig + " amount", rp, syms)
    _report(c, i == r, "add_reaction writes the row of its reaction", sig + " row", rp, syms)
    mine = s_fabs(t - _label(nqt, dt, start, C, j))
    near = s_and(*[mine <= s_fabs(t - _label(nqt, dt, start, C, k)) for k in range(C)])
    _report(c, near, "add_reaction files the entry under the grid time nearest to the requested time "
                     "(earliest slot if past, last slot if beyond the horizon)", sig + " nearest", rp, syms)
    _report(c, s_and(q.start_index == start, q.next_queue_time == nqt, q.dt == dt),
            "add_reaction leaves the queue clock alone", sig + " clock", rp, syms)


def advance_job(interp, c, case):
    R, C, start = case
    S, q, q0, dt, nqt, syms = _mk_queue(interp, c, R, C, start)
    rp = dict(op="advance", R=R, C=C, start=start)
    sig = "advance R=%d C=%d" % (R, C)
    out = sym_array(c, "stale", R, "real")           # the caller's buffer is reused between reads: every entry is overwritten, also by an empty slot
    _report(c, q.get_next_queue_time() == nqt, "get_next_queue_time is the label of the start column", sig + " nqt", rp, syms)
    q.get_next_reactions(ptr(interp, out))
    _report(c, s_and(*[out[i] == q0[i, start] for i in range(R)]),
            "get_next_reactions returns the column labelled next_queue_time", sig + " read", rp, syms)
    _report(c, s_and(*[q.queue[i, j] == q0[i, j] for i in range(R) for j in range(C)]),
            "get_next_reactions does not modify the queue", sig + " read-pure", rp, syms)
    q.advance_time()
    st2 = q.start_index
    n2 = q.next_queue_time
    if is_sym(st2):
        raise CFault("symbolic start index")
    _report(c, n2 == nqt + dt, "advance_time moves the clock by one step", sig + " clock", rp, syms)
    conds = []
    for j in range(C):
        new_label = _label(n2, q.dt, st2, C, j)
        if j == start:
            conds.append(new_label == nqt + C * dt)
            conds += [q.queue[i, j] == 0 for i in range(R)]
        else:
            conds.append(new_label == _label(nqt, dt, start, C, j))
            conds += [q.queue[i, j] == q0[i, j] for i in range(R)]
    _report(c, s_and(*conds), "advance_time clears exactly the delivered column, relabels it one horizon later "
                              "and keeps every other column's label and content", sig + " relabel", rp, syms)
    _report(c, s_and(0 <= st2, st2 < C), "start index stays inside the ring", sig + " ring", rp, syms)


def copy_job(interp, c, case):
    R, C, start = case
    S, q, q0, dt, nqt, syms = _mk_queue(interp, c, R, C, start)
    rp = dict(op="copy", R=R, C=C, start=start)
    sig = "copy R=%d C=%d" % (R, C)
    k = q.copy()
    same = [k.queue[i, j] == q0[i, j] for i in range(R) for j in range(C)]
    same += [k.dt == dt, k.next_queue_time == nqt, k.start_index == start, k.num_cols == C, k.num_reactions == R]
    _report(c, s_and(*same), "copy has the same pending counts and clock", sig + " equal", rp, syms)
    _report(c, not np.shares_memory(k.queue, q.queue), "copy does not share storage with the original", sig + " alias", rp, syms)
    k.add_reaction(nqt, 0, 1)
    k.advance_time()
    _report(c, s_and(*[q.queue[i, j] == q0[i, j] for i in range(R) for j in range(C)] +
                     [q.next_queue_time == nqt, q.start_index == start]),
            "operating on the copy leaves the original unchanged", sig + " independent", rp, syms)
    e = q.clear_copy()
    cc = [e.queue[i, j] == 0 for i in range(R) for j in range(C)]
    cc += [e.dt == dt, e.next_queue_time == nqt, e.start_index == start, e.num_cols == C, e.num_reactions == R]
    _report(c, s_and(*cc), "clear_copy is empty with the same configuration", sig + " clear", rp, syms)
    _report(c, not np.shares_memory(e.queue, q.queue) and
            all(q.queue[i, j] is q0[i, j] for i in range(R) for j in range(C)),
            "clear_copy leaves the original alone", sig + " clear-alias", rp, syms)


def init_job(interp, c, case):
    R, C = case
    S = interp.load("bioscrape.simulator")
    dt = c.real("dt", lo=0, lo_strict=True)
    t0 = c.real("t0")
    q = S.ns["ArrayDelayQueue"].setup_queue(R, C, dt)
    rp = dict(op="init", R=R, C=C)
    syms = dict(dt=dt, t0=t0)
    ok = [q.queue.shape == (R, C), q.start_index == 0, q.next_queue_time == dt, q.dt == dt]
    ok += [q.queue[i, j] == 0 for i in range(R) for j in range(C)]
    _report(c, s_and(*ok), "setup_queue gives an empty queue whose first slot is one step ahead", "init", rp, syms)
    q.set_current_time(t0)
    _report(c, s_and(q.next_queue_time == t0 + dt, q.start_index == 0),
            "set_current_time puts the first slot one step after the given time", "set_current_time", rp, syms)
    # the constructor itself with an arbitrary current time (not only multiples of dt): first slot one step later
    q2 = S.ns["ArrayDelayQueue"](np.zeros((R, C), dtype=object), dt, t0)
    _report(c, s_and(q2.next_queue_time == t0 + dt, q2.start_index == 0, q2.dt == dt),
            "ArrayDelayQueue(array, dt, t) puts the first slot at t + dt for every t", "constructor", dict(rp, op="construct"), syms)


def retime_job(interp, c, case):
    """set_current_time on a queue that has been advanced and holds pending entries: the clock of the read position changes,
    every pending entry keeps its distance from it (so a queue handed from one simulation to the next delivers on time)"""
    R, C, start = case
    S, q, q0, dt, nqt, syms = _mk_queue(interp, c, R, C, start)
    t1 = c.real("t1")
    syms = dict(syms, t1=t1)
    rp = dict(op="retime", R=R, C=C, start=start)
    q.set_current_time(t1)
    same = [q.queue[i, j] == q0[i, j] for i in range(R) for j in range(C)]
    _report(c, s_and(q.start_index == start, q.next_queue_time == t1 + dt, q.dt == dt, *same),
            "set_current_time on an advanced queue moves the read position's clock to one step after the given time and leaves the "
            "read position and every pending entry where they are", "set_current_time on an advanced queue R=%d C=%d" % (R, C), rp, syms)


def partition_job(interp, c, case):
    R, C, start, maxn, symcells = case
    install_uniform(interp)
    S = interp.load("bioscrape.simulator")
    q0 = np.zeros((R, C), dtype=object)
    syms = {}
    for (i, j) in symcells:
        q0[i, j] = c.int("q_%d_%d" % (i, j), lo=0, hi=maxn)
        syms["q[%d,%d]" % (i, j)] = q0[i, j]
    dt = c.real("dt", lo=0, lo_strict=True)
    nqt = c.real("nqt")
    p = c.real("p", lo=0, hi=1)
    syms.update(dt=dt, nqt=nqt, p=p)
    q = S.ns["ArrayDelayQueue"](q0.copy(), dt, 0)
    q.start_index = start
    q.next_queue_time = nqt
    rp = dict(op="partition", R=R, C=C, start=start)
    sig = "binomial_partition R=%d C=%d" % (R, C)
    parts = q.binomial_partition(p)
    q1, q2 = parts[0], parts[1]
    conds = []
    for i in range(R):
        for j in range(C):
            conds += [q1.queue[i, j] + q2.queue[i, j] == q0[i, j], q1.queue[i, j] >= 0, q2.queue[i, j] >= 0]
    _report(c, s_and(*conds), "partition splits every pending count between the two parts", sig + " conserve", rp, syms)
    _report(c, s_and(*[q.queue[i, j] == q0[i, j] for i in range(R) for j in range(C)] +
                     [q.next_queue_time == nqt, q.start_index == start]),
            "partition leaves the original queue unchanged", sig + " original", rp, syms)
    same_cfg = []
    for h in (q1, q2):
        same_cfg += [h.dt == dt, h.next_queue_time == nqt, h.start_index == start]
    _report(c, s_and(*same_cfg), "both parts keep the clock and ring position", sig + " config", rp, syms)
    _report(c, not np.shares_memory(q1.queue, q.queue) and not np.shares_memory(q2.queue, q.queue)
            and not np.shares_memory(q1.queue, q2.queue), "parts have their own storage", sig + " alias", rp, syms)


def check(tier):
    ck = Check("C20", "model_checking", tier)
    Cs = [2, 3, 4]
    Rs = [1, 2]
    adds = [(R, C, s, r) for R in Rs for C in Cs for s in range(C) for r in range(R)]
    advs = [(R, C, s) for R in Rs for C in Cs for s in range(C)]
    if tier == "thorough":
        adds += [(3, 5, s, r) for s in range(5) for r in range(3)]
        advs += [(3, 5, s) for s in range(5)]
    n = 8
    for i in range(0, len(adds), max(1, len(adds) // n)):
        ck.add("add/%d" % i, "harness.C20", "add_job", dict(cases=adds[i:i + max(1, len(adds) // n)]))
    ck.add("advance", "harness.C20", "advance_job", dict(cases=advs))
    ck.add("copy", "harness.C20", "copy_job", dict(cases=advs))
    ck.add("init", "harness.C20", "init_job", dict(cases=[(R, C) for R in Rs for C in Cs]))
    ck.add("retime", "harness.C20", "retime_job", dict(cases=advs))
    mx = 3 if tier == "thorough" else 2
    parts = [(1, 2, 0, mx, [(0, 0), (0, 1)]), (1, 2, 1, mx, [(0, 0), (0, 1)]), (2, 2, 1, mx, [(0, 1), (1, 0)]),
             (2, 3, 2, mx, [(1, 2), (0, 0)]), (1, 4, 3, mx, [(0, 3), (0, 1)])]
    if tier == "thorough":
        parts += [(2, 2, 0, 2, [(0, 0), (0, 1), (1, 0)]), (2, 4, 1, 2, [(0, 0), (1, 3), (1, 1)])]
    for i, pc in enumerate(parts):
        ck.add("partition/%d" % i, "harness.C20", "partition_job", dict(cases=[pc]), unwind=mx + 2)
    ck.bounds = dict(slots="2..4 (thorough: +5)", reactions="1..2 (thorough: +3)", start_index="every ring position",
                     pending_counts="arbitrary non-negative reals (ints 0..%d in <=3 cells for partition)" % mx,
                     operations="one step of each operation from an arbitrary queue state (inductive)")
    ck.assumptions = [
        "ghost labelling: physical column c is due at next_queue_time + ((c-start) mod C)*dt; each operation is shown to "
        "preserve it, so exactly-once in-order delivery follows for every interleaving by induction",
        "requested time never exactly half-way between two grid slots; dt > 0; reals for doubles",
        "uniform_rv() is an arbitrary value in (0,1) per call",
    ]
    mut = [
        ("rounding-dropped", dict(module="bioscrape.simulator", old="/ self.dt + 0.5 )", new="/ self.dt )"), "add"),
        ("clamp-off-by-one", dict(module="bioscrape.simulator", old="index = self.num_cols-1\n", new="index = self.num_cols-2\n"), "add"),
        ("start-offset-dropped", dict(module="bioscrape.simulator", old="index = (index + self.start_index) % self.num_cols",
                                      new="index = index % self.num_cols"), "add"),
        ("advance-clears-next", dict(module="bioscrape.simulator", old="        for i in range(self.num_reactions):\n            self.queue[i,self.start_index] = 0\n        # advanced the start index by 1 cycling around the end.\n        self.start_index = (self.start_index + 1) % self.num_cols",
                                     new="        self.start_index = (self.start_index + 1) % self.num_cols\n        for i in range(self.num_reactions):\n            self.queue[i,self.start_index] = 0"), "advance"),
        ("copy-shares-array", dict(module="bioscrape.simulator", old="        a.queue = self.queue.copy()\n", new="        a.queue = self.queue\n"), "copy"),
        ("partition-loses-remainder", dict(module="bioscrape.simulator", old="q2.queue[reaction_index,time_index] = self.queue[reaction_index,time_index] - q1.queue[reaction_index,time_index]",
                                           new="q2.queue[reaction_index,time_index] = cyrandom.binom_rnd_f(self.queue[reaction_index,time_index],1-p)"), "partition"),
    ]
    for name, m, which in mut:
        if which == "add":
            ck.add_mutant(name, m, "add", "harness.C20", "add_job", dict(cases=adds[:24]))
        elif which == "advance":
            ck.add_mutant(name, m, "advance", "harness.C20", "advance_job", dict(cases=advs))
        elif which == "copy":
            ck.add_mutant(name, m, "copy", "harness.C20", "copy_job", dict(cases=advs[:6]))
        else:
            ck.add_mutant(name, m, "partition", "harness.C20", "partition_job", dict(cases=parts[:2]), unwind=mx + 2)
    ck.validate = ['queue']
    ck.run()
    return ck.finish(replay=REPLAY)
