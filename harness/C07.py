"""C07 - every simulation mode returns a complete, correctly labelled result.

The real py_simulate_model, the py_*simulate wrappers, interface constructors, ArrayDelayQueue.setup_queue,
the result classes and their py_get_dataframe are executed for EVERY option combination
{stochastic} x {delay None/False/True} x {safe} x {volume False/True/number/Volume object} x {frame/result} x
{Model/pre-built interface} on models with/without delays and rules, over symbolic uniform grids, initial
states and volumes.  The four event loops are replaced by their contracts (their exit obligations are
discharged in the loop-step jobs of this check); odeint and pandas are stubs.
"""
import itertools

import numpy as np

from .common import Check, model_env
from .stubs import sym_array
from pyxsym.sym import s_and, s_or, s_not, is_sym, Sym, ctx, CFault, Unsupported

REPLAY = ("replay_drivers.C07", "replay")


# ----------------------------------------------------------------------------- pandas model
class Frame:
    """column-major frame: assigning a column of another length raises like pandas"""
    def __init__(self, data=None, columns=None):
        self.cols = {}
        data = np.asarray(data, dtype=object)
        if data.ndim == 1:
            data = data.reshape(-1, 1)
        self.n = data.shape[0]
        names = list(columns) if columns is not None else list(range(data.shape[1]))
        if len(names) != data.shape[1]:
            raise ValueError("Shape of passed values is %s, indices imply (%d, %d)" % (data.shape, self.n, len(names)))
        for j, nm in enumerate(names):
            self.cols[nm] = [data[i, j] for i in range(self.n)]

    def __setitem__(self, k, v):
        if v is None or np.ndim(v) == 0:
            self.cols[k] = [v] * self.n
            return
        v = list(np.asarray(v, dtype=object).reshape(-1))
        if len(v) != self.n:
            raise ValueError("Length of values (%d) does not match length of index (%d)" % (len(v), self.n))
        self.cols[k] = v

    def __getitem__(self, k):
        return self.cols[k]

    def __contains__(self, k):
        return k in self.cols

    # ---- the part of the pandas interface that tidy-ups of the library code are likely to reach for (columns keep their order)
    def __len__(self):
        return self.n

    def get(self, k, default=None):
        return self.cols.get(k, default)

    def keys(self):
        return list(self.cols)

    def __iter__(self):
        return iter(list(self.cols))

    @property
    def columns(self):
        return _Columns(list(self.cols))

    @property
    def shape(self):
        return (self.n, len(self.cols))

    def _sub(self, names):
        f = Frame.__new__(type(self))
        f.cols = {nm: list(self.cols[nm]) for nm in names}
        f.n = self.n
        return f

    def _select(self, sel):
        names = list(self.cols)
        if isinstance(sel, slice):
            return names[sel]
        if isinstance(sel, str):
            return [sel]
        sel = list(sel)
        if sel and all(isinstance(x, (bool, np.bool_)) for x in sel):
            if len(sel) != len(names):
                raise IndexError("Boolean index has wrong length: %d instead of %d" % (len(sel), len(names)))
            return [nm for nm, keep in zip(names, sel) if keep]
        for x in sel:
            if x not in self.cols:
                raise KeyError(x)
        return sel

    @property
    def loc(self):
        return _Loc(self, by_name=True)

    @property
    def iloc(self):
        return _Loc(self, by_name=False)

    def to_numpy(self, dtype=None, **k):
        a = np.empty((self.n, len(self.cols)), dtype=object)
        for j, nm in enumerate(self.cols):
            for i in range(self.n):
                a[i, j] = self.cols[nm][i]
        return a

    @property
    def values(self):
        return self.to_numpy()

    def __array__(self, dtype=None, copy=None):
        return self.to_numpy()

    def drop(self, columns=None, **k):
        cols = [columns] if isinstance(columns, str) else list(columns or [])
        return self._sub([nm for nm in self.cols if nm not in cols])


class _Columns(list):
    def isin(self, values):
        vs = list(values)
        return np.array([nm in vs for nm in self], dtype=bool)

    def tolist(self):
        return list(self)

    def get_loc(self, k):
        return self.index(k)


class _Loc:
    def __init__(self, frame, by_name):
        self.f, self.by_name = frame, by_name

    def __getitem__(self, key):
        rows, cols = key if isinstance(key, tuple) else (key, slice(None))
        names = list(self.f.cols)
        if self.by_name:
            picked = self.f._select(cols)
        elif isinstance(cols, slice):
            picked = names[cols]
        elif isinstance(cols, (int, np.integer)):
            picked = [names[cols]]
        else:
            picked = [names[i] for i in cols]
        sub = self.f._sub(picked)
        if isinstance(rows, slice) and rows == slice(None):
            return sub
        idx = list(range(self.f.n))[rows] if isinstance(rows, slice) else [rows] if isinstance(rows, (int, np.integer)) else list(rows)
        sub.cols = {nm: [v[i] for i in idx] for nm, v in sub.cols.items()}
        sub.n = len(idx)
        return sub


class PandasShim:
    DataFrame = Frame


# ----------------------------------------------------------------------------- loop contracts
def install_contracts(interp, record):
    """Replace the four event loops by their contracts: a result object of the proper class built by the
    REAL result constructor from the caller's time points and arbitrary rows."""
    S = interp.load("bioscrape.simulator")
    c0 = ctx

    def rows(sim, tp):
        n, s = len(tp), sim.get_num_species()
        return sym_array(ctx(), "Y%d" % len(record), (n, s), "real")

    def simulate(self, sim, timepoints):
        record.append(("ssa", sim, None, None, timepoints))
        return S.ns["SSAResult"](timepoints, rows(sim, timepoints))

    def delay_simulate(self, sim, q, timepoints):
        record.append(("delay", sim, q, None, timepoints))
        return S.ns["DelaySSAResult"](timepoints, rows(sim, timepoints), q)

    def volume_simulate(self, sim, v, timepoints):
        record.append(("volume", sim, None, v, timepoints))
        n = len(timepoints)
        vs = S.ns["VolumeSSAResult"](timepoints.copy(), rows(sim, timepoints), sym_array(ctx(), "Vt", n, "real", lo=0), 0)
        vs.set_volume_object(v)
        return vs

    def delay_volume_simulate(self, sim, q, v, timepoints):
        record.append(("delay_volume", sim, q, v, timepoints))
        n = len(timepoints)
        return S.ns["DelayVolumeSSAResult"](timepoints.copy(), rows(sim, timepoints), sym_array(ctx(), "Vt", n, "real", lo=0), q, 0)
    S.classes["SSASimulator"].methods["simulate"].native = simulate
    S.classes["DelaySSASimulator"].methods["delay_simulate"].native = delay_simulate
    S.classes["VolumeSSASimulator"].methods["volume_simulate"].native = volume_simulate
    S.classes["DelayVolumeSSASimulator"].methods["delay_volume_simulate"].native = delay_volume_simulate

    def odeint(f, y0, ts, **kw):
        record.append(("odeint", f, y0, ts, dict(kw)))
        n, s = len(ts), len(y0)
        return sym_array(ctx(), "Yd", (n, s), "real"), {"message": "Integration successful."}
    S.ns["odeint"] = odeint
    interp.shims["pandas"] = PandasShim()


def _mk_model(interp, c, with_delay, with_rule):
    T = interp.load("bioscrape.types")
    k = c.real("k", lo=0, lo_strict=True)
    if with_delay:
        rx = [(["A"], [], "massaction", {"k": "k1"}, "fixed", [], ["B"], {"delay": "tau"})]
        params = [("k1", k), ("tau", c.real("tau", lo=0, lo_strict=True))]
    else:
        rx = [(["A"], ["B"], "massaction", {"k": "k1"})]
        params = [("k1", k)]
    rules = [("assignment", {"equation": "C = A + B"}, "repeated")] if with_rule else []
    init = {"B": c.int("B0", lo=0), "A": c.int("A0", lo=0), "C": c.int("C0", lo=0)}
    return T.ns["Model"](species=["B", "A", "C"], reactions=rx, parameters=params, rules=rules, initial_condition_dict=init), init


def option_job(interp, c, case):
    stochastic, delay, safe, volume, frame, via, with_delay, with_rule, npts = case
    record = []
    install_contracts(interp, record)
    S = interp.load("bioscrape.simulator")
    T = interp.load("bioscrape.types")
    M, init = _mk_model(interp, c, with_delay, with_rule)
    h = c.real("h", lo=0, lo_strict=True)
    t_start = c.real("t_start", lo=0)               # the requested grid need not begin at the system's initial time (0)
    tp = np.array([t_start + i * h for i in range(npts)], dtype=object)
    syms = dict(h=h, t_start=t_start)
    if volume == "num":
        vol = c.real("V", lo=0, lo_strict=True)
        syms["V"] = vol
    elif volume == "obj":
        vol = T.ns["Volume"]()
        vol.py_set_volume(c.real("V", lo=0, lo_strict=True))
    else:
        vol = volume
    kw = dict(stochastic=stochastic, delay=delay, safe=safe, volume=vol, return_dataframe=frame)
    if via == "interface":
        itf = (S.ns["SafeModelCSimInterface"] if safe else S.ns["ModelCSimInterface"])(M)
        kw["Interface"] = itf
    else:
        kw["Model"] = M
    tag = "stochastic=%s delay=%s safe=%s volume=%s frame=%s via=%s model(delay=%s,rule=%s)" % (
        stochastic, delay, safe, volume, frame, via, with_delay, with_rule)
    rp = dict(stochastic=stochastic, delay=delay, safe=safe, volume=volume, frame=frame, via=via,
              with_delay=with_delay, with_rule=with_rule, npts=npts)
    sig_base = "delay=%s volume=%s" % (bool(delay), volume)

    def rep(cond, label, sig):
        ok = c.prove(cond, "%s: %s" % (tag, label), info={"sig": sig, "what": "%s: %s" % (tag, label)})
        if ok is False:
            c.failures[-1]["replay"] = dict(rp, values=model_env(c, c.failures[-1]["model"], syms))
        return ok
    try:
        res = S.ns["py_simulate_model"](tp, **kw)
    except ValueError as e:
        rep(False, "rejected a legal option combination with ValueError(%s)" % str(e)[:80], "ValueError on legal options " + sig_base)
        return
    except (Unsupported, CFault):
        raise
    except Exception as e:
        rep(False, "fails from inside with %s: %s" % (type(e).__name__, str(e)[:100]),
            "%s from inside (%s)" % (type(e).__name__, sig_base))
        return
    n = npts
    species = M.get_species_list()
    # which simulator must have been used, and with what
    used = [r[0] for r in record]
    want = "delay_volume" if (delay and vol is not False) else "delay" if delay else \
        ("volume" if vol is not False else "ssa") if stochastic else "odeint"
    rep(used == [want], "runs exactly the %s simulator (ran %s)" % (want, used), "wrong simulator " + sig_base)
    if used != [want]:
        return
    r0 = record[0]
    if want != "odeint":
        sim = r0[1]
        rep(s_and(sim.py_get_dt() == h), "the interface's dt is the grid step when the simulator starts", "interface dt " + sig_base)
        rep(sim.py_get_initial_time() == 0, "the stochastic clock starts at the interface's initial time (0), wherever the requested grid begins: what happens "
            "before the first requested time is simulated, not skipped", "simulation clock moved to the first time point " + sig_base)
        if r0[2] is not None:
            q = r0[2]
            rep(s_and(q.num_reactions == 1, q.num_cols == n, q.dt == h), "delay queue sized for the reactions and the grid", "queue setup")
        if r0[3] is not None and volume in ("num", "obj", True):
            v = r0[3]
            exp_v = 1 if volume is True else (vol if volume == "num" else vol.py_get_volume())
            rep(v.py_get_volume() == exp_v, "the volume model starts at the requested volume", "initial volume " + sig_base)
        if via == "model":
            rep(sim.__dict__["_cls"].name == ("SafeModelCSimInterface" if safe else "ModelCSimInterface"),
                "safe=%s selects the matching interface" % safe, "interface class")
    if frame:
        ok = isinstance(res, Frame)
        rep(ok, "returns a data frame", "no frame " + sig_base)
        if not ok:
            return
        tcol = res.cols.get("time")
        rep(tcol is not None and len(tcol) == n and all(x is not None for x in tcol) and
            bool(s_and(*[tcol[i] == tp[i] for i in range(n)]) if tcol is not None and len(tcol) == n and all(x is not None for x in tcol) else False),
            "the 'time' column equals the requested time points", "time column " + sig_base)
        names = [k for k in res.cols if k not in ("time", "volume")]
        if via == "model":
            rep(names == species, "one column per species in the model's order (got %s)" % names, "species columns")
        else:
            rep(len(names) == len(species), "one column per species", "species columns")
        rep(all(len(res.cols[k]) == n for k in res.cols), "one row per requested time point", "row count " + sig_base)
        if want in ("volume", "delay_volume"):
            rep("volume" in res.cols, "a volume column is present when a volume is used", "volume column " + sig_base)
    else:
        ok = hasattr(res, "py_get_timepoints")
        rep(ok, "returns a result object", "no result object")
        if ok:
            tps = res.py_get_timepoints()
            rep(tps is not None and len(tps) == n and bool(s_and(*[tps[i] == tp[i] for i in range(n)])),
                "result time axis equals the requested time points", "result time axis " + sig_base)
            rr = res.py_get_result()
            rep(rr.shape == (n, len(species)), "result has one row per time point and one column per species", "result shape")


def error_job(interp, c, case):
    """the two documented option errors are ValueErrors raised before anything is simulated"""
    record = []
    install_contracts(interp, record)
    S = interp.load("bioscrape.simulator")
    M, init = _mk_model(interp, c, False, False)
    tp = np.array([0, 1, 2], dtype=object)
    for kw, what in ((dict(), "neither Model nor Interface"),
                     (dict(Model=M, Interface=S.ns["ModelCSimInterface"](M)), "both Model and Interface")):
        try:
            S.ns["py_simulate_model"](tp, **kw)
            c.prove(False, "%s must be rejected" % what, info={"sig": "option check missing", "what": what})
        except ValueError:
            c.prove(len(record) == 0, "%s is rejected with a ValueError before simulating" % what)


def cases(tier):
    out = []
    for stochastic, delay, safe, volume, frame, via in itertools.product(
            (False, True), (None, False, True), (False, True), (False, True, "num", "obj"), (True, False), ("model", "interface")):
        for with_delay, with_rule in ((False, False), (True, True)) if tier == "quick" else \
                ((False, False), (True, False), (False, True), (True, True)):
            out.append((stochastic, delay, safe, volume, frame, via, with_delay, with_rule, 3 if tier == "quick" else 4))
    return out


def check(tier):
    ck = Check("C07", "model_checking", tier)
    cs = cases(tier)
    n = 16
    k = max(1, (len(cs) + n - 1) // n)
    for i in range(0, len(cs), k):
        ck.add("options/%d" % (i // k), "harness.C07", "option_job", dict(cases=cs[i:i + k]), fresh=True)
    ck.add("errors", "harness.C07", "error_job", dict(cases=[()]), fresh=True)
    # exit obligations of the four loops (justify the contracts used above)
    from . import C05
    for cse in [(2, 2, 2, 1)]:
        ck.add("ssa-exit", "harness.C05", "step_job", dict(cases=[cse], facets=["exit", "init", "record", "invariant"]))
    ck.add("delay-exit", "harness.steps", "delay_step", dict(cases=[(2, 2, 2, 1, 2, 0), (2, 2, 2, 1, 2, 1), (2, 2, 2, 0, 2, 0)], facets=["exit", "init"]))
    ck.add("dv-init", "harness.steps", "delay_volume_step", dict(cases=[(2, 2, 2, 0, 2, 0)], facets=["init"]))
    ck.add("ssa-init", "harness.C05", "step_job", dict(cases=[(2, 2, 2, 0)], facets=["init", "record"]))
    ck.add("volume-exit", "harness.steps", "volume_step", dict(cases=[(2, 2, 2, 1), (2, 2, 2, 0)], facets=["exit", "init"]))
    # first row = initial condition with the assignment rules applied: the real interface's rule passes (plain and volume-aware, rules that
    # mention t and volume included) applied to the initial state are what the loops' init/record obligations put in row 0
    from . import C09
    for idx in (0, 2, 4, 5):
        ck.add("first-row-rules/%d" % idx, "harness.C09", "interface_job", dict(cases=[(idx, "plain", 1)]))
    # deterministic mode: the rows handed back are the integrator's rows with the rules applied to each of them exactly once
    ck.add("deterministic-rows", "harness.C09", "deterministic_job", dict(cases=[(2, 2, 2)]), fresh=True)
    ck.extra_cov = dict(exhaustive=True, option_combinations=len(cs))
    ck.bounds = dict(option_lattice="2x3x2x4x2x2 = 192 combinations, all enumerated, x %d model shapes" % (len(cs) // 192),
                     grid="uniform, starting at 0, %d points, symbolic step" % (3 if tier == "quick" else 4),
                     model="3 species declared out of alphabetical order, 1 reaction (with/without delayed product), 0/1 rule")
    ck.assumptions = [
        "event loops replaced by their contracts (a result object of the simulator's class built by the real constructor "
        "from the time points handed in and arbitrary rows); the contracts' exit obligations are discharged in this check's "
        "loop-step jobs; odeint returns arbitrary rows with the success message",
        "pandas is modelled as an ordered dict of equal-length columns (length mismatch raises)",
        "first row = initial condition with rules applied: the loops' init/record obligations at index 0 plus the real interface's rule "
        "passes (first-row-rules jobs, shared with C09)",
    ]
    mut = [
        ("dt-not-set", dict(module="bioscrape.simulator", old="        Interface.py_set_dt(dt)\n", new="        pass\n")),
        ("volume-object-unbound", dict(module="bioscrape.simulator", old="    if isinstance(volume, Volume):\n        v = volume\n", new="    if isinstance(volume, Volume):\n        pass\n")),
        ("queue-too-short", dict(module="bioscrape.simulator", old="q = ArrayDelayQueue.setup_queue(Interface.py_get_num_reactions(),len(timepoints),timepoints[1]-timepoints[0])",
                                 new="q = ArrayDelayQueue.setup_queue(Interface.py_get_num_reactions(),len(timepoints)-1,timepoints[1]-timepoints[0])")),
        ("frame-without-time", dict(module="bioscrape.simulator", old="            df['time'] = self.timepoints\n            return df\n\n        except ModuleNotFoundError:\n            warnings.warn(\"py_get_dataframe requires the pandas Module to return a Pandas Dataframe object. Numpy array being returned instead.\")\n            return self.py_get_result()\n\n\n    def py_empirical",
                                    new="            return df\n\n        except ModuleNotFoundError:\n            warnings.warn(\"py_get_dataframe requires the pandas Module to return a Pandas Dataframe object. Numpy array being returned instead.\")\n            return self.py_get_result()\n\n\n    def py_empirical")),
    ]
    for name, m in mut:
        ck.add_mutant(name, m, "options", "harness.C07", "option_job", dict(cases=cs[::5]), fresh=True)
    ck.validate = ['dispatch']
    ck.run()
    return ck.finish(replay=REPLAY)
