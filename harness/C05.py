"""C05 - stochastic simulation samples the chemical master equation exactly.

Gillespie's theorem reduces the distributional claim to local facts about one event; they are decided
here for ONE iteration of the real `while` body of SSASimulator.simulate from an arbitrary symbolic
pre-state (inductive step), plus initialisation and exit obligations, plus the samplers of random.pyx
(exponential_rv, sample_discrete, array_sum) executed from source over stubbed uniforms.
"""
import numpy as np
from fractions import Fraction

from .common import Check, model_env
from .stubs import install_uniform, ptr, sym_array, arr_syms
from .loops import AbsSim, make_grid, make_stoich, run_prologue, havoc_array, choice_oracle
from pyxsym.sym import s_and, s_or, s_not, s_log, ite, is_sym, CFault, Sym

REPLAY = ("replay_drivers.C05", "replay")


_SYMS = {}


def _ud_untouched(sim, UD_orig):
    """the stoichiometric matrices the interface hands out (the model's own arrays) hold the very same entries"""
    U0, u0, D0, d0 = UD_orig
    return sim.U is U0 and sim.D is D0 and all(a is b for a, b in zip([U0[i, j] for i in range(U0.shape[0]) for j in range(U0.shape[1])], u0)) \
        and all(a is b for a, b in zip([D0[i, j] for i in range(D0.shape[0]) for j in range(D0.shape[1])], d0))


def _report(c, cond, label, sig=None, syms=None):
    facets = getattr(c, "facets", None)
    if facets is not None and ":" in label[:20] and label.split(":")[0] not in facets:
        return None          # obligation outside the facets the calling check depends on
    ok = c.prove(cond, label, info={"sig": sig or label, "what": label})
    if ok is False:
        c.failures[-1]["replay"] = {"kind": "ssa", "values": model_env(c, c.failures[-1]["model"], dict(_SYMS))}
        if label.startswith("init:") or "untouched" in label or "never written" in label:
            c.failures[-1]["replay"]["facet"] = "reuse"
    return ok


def step_job(interp, c, case, rules=False, facets=None):
    """facets (None = all): init, step, feasible, record, absorbing, model-untouched, dt-rule, schedule, invariant, exit.
    `step` is the exact sampling law; `feasible`, `record`, `absorbing` are its oracle-free consequences that other
    properties depend on (they hold for any waiting-time / choice law)."""
    c.facets = facets
    S, R, T, ci = case
    install_uniform(interp)
    sim_mod = interp.load("bioscrape.simulator")
    fi = interp.find_function("bioscrape.simulator", "SSASimulator.simulate")
    grid = make_grid(c, T)
    U = make_stoich(c, S, R, "U")
    D = make_stoich(c, S, R, "D")
    x0 = sym_array(c, "x0", S, "int", lo=0)
    t0 = c.real("t0")
    dt = c.real("dt", lo=0, lo_strict=True)
    c.assume(t0 <= grid[0])
    sim = AbsSim(c, S, R, x0, U, D, t0, dt)
    _SYMS.clear()
    _SYMS["dt"] = dt
    x0_orig, p_orig = list(x0), list(sim.params)
    UD_orig = (sim.U, [sim.U[i_, j_] for i_ in range(sim.U.shape[0]) for j_ in range(sim.U.shape[1])],
               sim.D, [sim.D[i_, j_] for i_ in range(sim.D.shape[0]) for j_ in range(sim.D.shape[1])])
    if rules:
        sim.havoc_rules()          # rules are an arbitrary map of the state
    simulator = sim_mod.ns["SSASimulator"]()
    fr, w, post = run_prologue(interp, fi, simulator, [sim, grid])
    L = fr.locals
    # ---- initialisation obligation (state of the un-havocked frame)
    if ci == 0:
        init = [L["current_index"] == 0, L["current_time"] == t0, L["rule_step"] == 1,
                L["num_timepoints"] == T, L["num_species"] == S, L["num_reactions"] == R]
        init += [L["c_current_state"][i] == x0[i] for i in range(S)]
        init += [L["c_stoich"][i, j] == U[i, j] + D[i, j] for i in range(S) for j in range(R)]
        _report(c, s_and(*init), "init: index 0, clock at the initial time, state equal to the initial condition, "
                                 "net stoichiometry = immediate + delayed")
        _report(c, not np.shares_memory(L["c_current_state"], x0) and L["c_timepoints"] is grid,
                "init: the simulator works on a copy of the initial state and on the caller's time grid")
    # ---- arbitrary pre-state satisfying the invariant
    x = havoc_array(c, L["c_current_state"], "x", "int")
    res = havoc_array(c, L["c_results"], "res")
    res0 = res.copy()
    havoc_array(c, L["c_propensity"], "prop0")
    t = c.real("t")
    rs = c.int("rs", lo=0, hi=1)
    L["current_time"] = t
    L["current_index"] = ci
    L["rule_step"] = rs
    L["proposed_time"] = c.real("prop_t")
    L["Lambda"] = c.real("Lam0")
    L["reaction_fired"] = c.int("rf0", lo=0, hi=1)
    L["reaction_choice"] = c.int("rc0", lo=0, hi=R - 1)
    c.assume(t <= grid[ci])
    if ci > 0:
        c.assume(grid[ci - 1] <= t)
    x_pre = [x[i] for i in range(S)]
    sim.log.clear()
    c.draws.clear()
    try:
        out = interp.exec_loop_once(w, fr)
    except CFault as e:
        _report(c, False, "memory-unsafe access in the SSA loop: %s" % e, "ssa unsafe access")
        return
    if out != "next":
        _report(c, False, "the SSA loop body ended with %r" % (out,))
        return
    # ---- reference step relation (direct method with grid recording)
    log = sim.log
    ok_order = len(log) == 2 and log[0][0] == "rules" and log[1][0] == "props"
    _report(c, ok_order, "rules: rules are applied once, then the propensities are computed once")
    if not ok_order:
        return
    _, rx, rt, rrs, _, x_eff = log[0]
    _, px, pt, a, _ = log[1]
    _report(c, s_and(rt == t, pt == t, rrs == rs, *[rx[i] == x_pre[i] for i in range(S)],
                     *[px[i] == x_eff[i] for i in range(S)]),
            "rules: rules and propensities see the current state and time")
    Lam = 0
    for aj in a:
        Lam = Lam + aj
    _SYMS["Lam"] = Lam
    # ---- consequences of the step relation that do not depend on the sampling law
    xp = [L["c_current_state"][i] for i in range(S)]
    stay = s_and(*[xp[i] == x_eff[i] for i in range(S)])
    moves = [s_and(a[j] > 0, *[xp[i] == x_eff[i] + U[i, j] + D[i, j] for i in range(S)]) for j in range(R)]
    _report(c, s_or(stay, *moves), "feasible: the state is unchanged or changes by the net (immediate + delayed) stoichiometry of one "
            "reaction whose propensity is positive", "ssa infeasible move")
    if Lam == 0:
        _report(c, stay, "absorbing: with total propensity zero the state does not change", "ssa absorbing state left")
    ci_a = L["current_index"]
    rec = [ci <= ci_a, ci_a <= T]
    for r in range(T):
        for i in range(S):
            rec.append(L["c_results"][r, i] == (x_eff[i] if ci <= r < ci_a else res0[r, i]))
    rec += [grid[r] <= L["current_time"] for r in range(ci, min(ci_a, T))]
    _report(c, s_and(*rec), "record: the rows written in this iteration are exactly the grid times up to the new clock, and they hold the "
            "rule-updated state before the reaction of this iteration; no other row is touched", "ssa row recording")
    draws = list(c.draws)
    if Lam == 0:
        fired, t_new, rs_new, used = False, grid[ci], 1, 0
    else:
        if not draws:
            _report(c, False, "step: no waiting time drawn although the total propensity is positive")
            return
        tau = -s_log(draws[0]) / Lam
        c.assume(s_not(t + tau == grid[ci]))          # measure-zero tie
        if t + tau > grid[ci]:
            fired, t_new, rs_new, used = False, grid[ci], 1, 1
        else:
            fired, t_new, rs_new, used = True, t + tau, 0, 1
    post_ok = [L["current_time"] == t_new, L["rule_step"] == rs_new]
    # rows recorded in this iteration: all k >= ci with T[k] <= t', holding the PRE-update state
    k = ci
    while k < T and grid[k] <= t_new:
        k += 1
    ci_new = k
    post_ok.append(L["current_index"] == ci_new)
    for r in range(T):
        for i in range(S):
            if ci <= r < ci_new:
                post_ok.append(L["c_results"][r, i] == x_eff[i])
            else:
                post_ok.append(L["c_results"][r, i] == res0[r, i])
    if fired:
        if len(draws) != 2:
            _report(c, False, "step: a firing consumes exactly two uniforms (drew %d)" % len(draws))
            return
        q = draws[1] * Lam
        cum = 0
        for j in range(R):
            cum = cum + a[j]
            c.assume(s_not(q == cum))                  # measure-zero tie
        j = choice_oracle(a, q)
        if j is None:
            _report(c, False, "step: no reaction brackets u*Lambda")
            return
        post_ok.append(L["reaction_choice"] == j)
        post_ok.append(a[j] > 0)
        post_ok += [L["c_current_state"][i] == x_eff[i] + U[i, j] + D[i, j] for i in range(S)]
    else:
        post_ok.append(len(draws) == used)
        post_ok += [L["c_current_state"][i] == x_eff[i] for i in range(S)]
    _report(c, s_and(*post_ok),
            "step: waiting time -ln(u1)/Lambda capped at the next grid time; reaction j chosen iff "
            "sum_{i<j} a_i < u2*Lambda <= sum_{i<=j} a_i; rows T[k] <= t' record the pre-update state; "
            "x' = x + S[:,j]", "ssa step relation")
    if not is_sym(L["current_index"]):
        ci_new = L["current_index"]          # later obligations are stated against the loop's own new row index
    _report(c, all(a is b for a, b in zip(sim.x0, x0_orig)) and all(a is b for a, b in zip(sim.params, p_orig)) and _ud_untouched(sim, UD_orig),
            "model-untouched: the interface's initial-state and parameter arrays are never written by the loop", "ssa loop writes the model")
    inv = [ci_new <= T]
    if ci_new < T:
        inv.append(L["current_time"] <= grid[ci_new])
    if ci_new > 0:
        inv.append(grid[ci_new - 1] <= L["current_time"])
    inv.append(L["current_time"] >= t)
    inv.append(s_or(ci_new > ci, fired))
    _report(c, (L["rule_step"] == 1) == (ci_new > ci),
            "dt-rule: the step flag is raised exactly by an iteration that reports a row, so rules with frequency dt run once "
            "per reported step however many reactions fire in between", "ssa dt-rule schedule")
    if ci_new < T:
        _report(c, L["current_time"] < grid[ci_new],
                "schedule: the clock equals a grid time only after that row is final, so a rule scheduled for T[k] cannot "
                "change row k or earlier rows", "ssa scheduled-rule ordering")
    _report(c, s_and(*inv), "invariant: preserved (clock between the surrounding grid times, never "
                            "backwards) and progress (a row is written or a reaction fires)", "ssa invariant")
    # ---- exit obligation
    if ci_new == T:
        st = interp.exec_stats(post, fr)
        ok = st[0] == "return" and st[1].__dict__["_cls"].name == "SSAResult"
        if ok:
            r = st[1]
            ok = r.timepoints is grid and r.simulation_result is L["c_results"]
        _report(c, ok, "exit: the result carries the caller's time points and the recorded rows")


def sampler_job(interp, c, case):
    """exponential_rv / sample_discrete / array_sum from random.pyx over stubbed uniforms"""
    R, = case
    install_uniform(interp)
    rnd = interp.load("bioscrape.random")
    a = sym_array(c, "a", R, "real", lo=0)
    tot = 0
    for v in a:
        tot = tot + v
    s = rnd.ns["array_sum"](ptr(interp, a), R)
    _report(c, s == tot, "array_sum is the sum of the propensities")
    c.assume(tot > 0)
    c.draws.clear()
    e = rnd.ns["exponential_rv"](tot)
    u1 = c.draws[0]
    _report(c, s_and(e == -s_log(u1) / tot, e > 0, len(c.draws) == 1),
            "exponential_rv(Lambda) = -ln(u)/Lambda > 0 (inverse CDF of Exp(Lambda))")
    c.draws.clear()
    j = rnd.ns["sample_discrete"](R, ptr(interp, a), tot)
    u2 = c.draws[0]
    q = u2 * tot
    cum = 0
    for i in range(R):
        cum = cum + a[i]
        c.assume(s_not(q == cum))
    lo = 0
    for i in range(j):
        lo = lo + a[i]
    _report(c, s_and(0 <= j, j < R, lo < q, q <= lo + a[j], a[j] > 0),
            "sample_discrete returns j with sum_{i<j} a_i < u*Lambda <= sum_{i<=j} a_i (so P(j) = a_j/Lambda)")


def sum_job(interp, c, case):
    """the total propensity of networks far larger than the loop jobs' bound: array_sum over n symbolic numbers, and the selection among
    them, are what the loops' Lambda and reaction choice are for any number of reactions"""
    n, = case
    install_uniform(interp)
    rnd = interp.load("bioscrape.random")
    a = sym_array(c, "a", n, "real", lo=0) if n else np.zeros(0, dtype=object)
    tot = 0
    for v in a:
        tot = tot + v
    ok = c.prove(rnd.ns["array_sum"](ptr(interp, a), n) == tot, "array_sum over %d numbers is their sum" % n,
                 info={"sig": "array_sum", "what": "array_sum over %d numbers is their sum" % n})
    if ok is False:
        c.failures[-1]["replay"] = {"kind": "array_sum", "n": n}
    if n and n <= 10:
        c.assume(tot > 0)
        c.draws.clear()
        j = rnd.ns["sample_discrete"](n, ptr(interp, a), tot)
        q = c.draws[0] * tot
        cum = 0
        for i in range(n):
            cum = cum + a[i]
            c.assume(s_not(q == cum))
        lo = 0
        for i in range(j):
            lo = lo + a[i]
        ok = c.prove(s_and(0 <= j, j < n, lo < q, q <= lo + a[j], a[j] > 0, len(c.draws) == 1),
                     "sample_discrete among %d weights returns j with sum_{i<j} a_i < u*Lambda <= sum_{i<=j} a_i" % n,
                     info={"sig": "sample_discrete wide", "what": "sample_discrete among %d weights" % n})
        if ok is False:
            c.failures[-1]["replay"] = {"kind": "array_sum", "n": n}


def cases(tier):
    sizes = [(1, 1, 2), (2, 2, 2), (2, 2, 3)] if tier == "quick" else \
        [(1, 1, 2), (2, 2, 2), (2, 2, 3), (3, 3, 3), (2, 3, 4), (3, 2, 4)]
    out = []
    for (S, R, T) in sizes:
        for ci in range(T):
            out.append((S, R, T, ci))
    return out


def check(tier):
    ck = Check("C05", "model_checking", tier)
    cs = cases(tier)
    for i, cse in enumerate(cs):
        ck.add("step/S%dR%dT%d/ci%d" % cse, "harness.C05", "step_job", dict(cases=[cse]))
    # the public entry point runs the plain stochastic loop on the caller's grid with the clock at the interface's initial time (the
    # trajectory before the first requested time point is simulated too): C07's dispatch obligations for the plain stochastic combinations
    from . import C07 as _C07
    disp = [cse for cse in _C07.cases("quick") if cse[0] is True and cse[1] in (None, False) and cse[3] is False and cse[4] is True]
    ck.add("entry-point", "harness.C07", "option_job", dict(cases=disp), fresh=True)
    ck.add("samplers", "harness.C05", "sampler_job", dict(cases=[(1,), (2,), (3,)] + ([(4,)] if tier == "thorough" else [])))
    wide = [0, 1, 5, 8, 9, 10, 11, 16, 17, 18, 19, 24, 33] if tier == "quick" else list(range(0, 41)) + [64, 65, 100, 129]
    ck.add("total-propensity-wide", "harness.C05", "sum_job", dict(cases=[(n,) for n in wide]))
    # "initial counts": a simulation through an interface starts from the model's CURRENT initial condition
    ck.add("initial-condition-followed", "harness.C08", "follow_job",
           dict(cases=[("species", r_, s_) for r_ in (False, True) for s_ in (False, True)]), fresh=True)
    # "the model's stochastic propensities": what the plain and the safe interface hand to the loop, reaction by reaction,
    # in models with one and with two reactions (C01's closed forms; integer states)
    from . import C01
    ms = [x for x in C01.massaction_structures("quick") if len(x[1][0]) <= 3]
    hs = [x for x in C01.hill_structures("quick") if x[5] in ("sym", 2)]
    if tier == "quick":
        ms, hs = ms[::3], hs[::4]
    for i in range(0, len(ms), 8):
        ck.add("propensities/massaction/%d" % (i // 8), "harness.C01", "massaction_job",
               dict(cases=ms[i:i + 8], domain="int", routes=["interface", "safe"], modes=["stochastic"]))
    for i in range(0, len(hs), 8):
        ck.add("propensities/hill/%d" % (i // 8), "harness.C01", "hill_job",
               dict(cases=hs[i:i + 8], domain="int", routes=["interface", "safe"], modes=["stochastic"]))
    ck.bounds = dict(species="<= %d" % max(x[0] for x in cs), reactions="<= %d" % max(x[1] for x in cs),
                     time_points="<= %d" % max(x[2] for x in cs), stoichiometry="integers in [-3,3] (immediate and delayed)",
                     loop="one iteration from an arbitrary pre-state satisfying the invariant (inductive), plus "
                          "initialisation and exit")
    ck.assumptions = [
        "abstract interface: compute_stochastic_propensities returns arbitrary non-negative reals; rules are identity here "
        "(C09 covers them)",
        "uniform_rv() in (0,1): the end points (probability 2^-53 each) are excluded; ties t+tau == T[k] and u*Lambda on a "
        "cumulative boundary (measure zero) are excluded from the asserted domain",
        "trusted mathematics: inverse-CDF sampling and Gillespie's direct-method theorem; equidistribution of MT19937-64",
        "ln is an uninterpreted function with sign lemmas; reals for doubles",
    ]
    ck.trusted = ["Gillespie direct-method theorem", "inverse-CDF sampling"]
    mut = [
        ("record-strict-less", dict(module="bioscrape.simulator",
                                    old="            # Update previous states\n            while current_index < num_timepoints and c_timepoints[current_index] <= current_time:",
                                    new="            # Update previous states\n            while current_index < num_timepoints and c_timepoints[current_index] < current_time:")),
        ("lambda-zero-fires", dict(module="bioscrape.simulator",
                                   old="            if Lambda == 0:\n                proposed_time = c_timepoints[current_index]\n                reaction_fired = 0\n                rule_step = 1\n            else:\n                proposed_time = current_time + cyrandom.exponential_rv(Lambda)\n                reaction_fired = 1\n                rule_step = 0\n\n\n            #Go to the next reaction or the next timepoint, whichever is closer\n            if proposed_time > c_timepoints[current_index]:\n                current_time = c_timepoints[current_index]",
                                   new="            if Lambda == 0:\n                proposed_time = c_timepoints[current_index]\n                reaction_fired = 0\n                rule_step = 0\n            else:\n                proposed_time = current_time + cyrandom.exponential_rv(Lambda)\n                reaction_fired = 1\n                rule_step = 0\n\n\n            #Go to the next reaction or the next timepoint, whichever is closer\n            if proposed_time > c_timepoints[current_index]:\n                current_time = c_timepoints[current_index]")),
        ("grid-cap-ge", dict(module="bioscrape.simulator", old="            if proposed_time > c_timepoints[current_index]:\n                current_time = c_timepoints[current_index]\n                reaction_fired = 0\n                rule_step = 1\n            else:\n                current_time = proposed_time\n\n            # Update previous states",
                             new="            if proposed_time > c_timepoints[current_index]:\n                current_time = c_timepoints[current_index]\n                rule_step = 1\n            else:\n                current_time = proposed_time\n\n            # Update previous states")),
        ("sample-discrete-le", dict(module="bioscrape.random", old="while p_sum < q and i < choices:", new="while p_sum <= q + data[0] and i < choices:")),
        ("rate-inverted", dict(module="bioscrape.random", old="return -1.0/Lambda* log( uniform_rv() )", new="return -1.0*Lambda* log( uniform_rv() )")),
        ("wrong-column", dict(module="bioscrape.simulator", old="                    c_current_state[species_index] += c_stoich[species_index,reaction_choice]\n\n        return SSAResult(timepoints,c_results)",
                              new="                    c_current_state[species_index] += c_stoich[species_index,0]\n\n        return SSAResult(timepoints,c_results)")),
        ("delayed-part-dropped", dict(module="bioscrape.simulator", old="        cdef np.ndarray[np.double_t,ndim=2] c_stoich = sim.get_update_array() + sim.get_delay_update_array()\n        cdef np.ndarray[np.double_t,ndim=2] c_delay_stoich = sim.get_delay_update_array()\n\n        cdef unsigned num_species = c_stoich.shape[0]\n        cdef unsigned num_reactions = c_stoich.shape[1]\n        cdef unsigned num_timepoints = len(timepoints)\n",
                                      new="        cdef np.ndarray[np.double_t,ndim=2] c_stoich = sim.get_update_array()\n        cdef np.ndarray[np.double_t,ndim=2] c_delay_stoich = sim.get_delay_update_array()\n\n        cdef unsigned num_species = c_stoich.shape[0]\n        cdef unsigned num_reactions = c_stoich.shape[1]\n        cdef unsigned num_timepoints = len(timepoints)\n")),
    ]
    for name, m in mut:
        ck.add_mutant(name, m, "step", "harness.C05", "step_job", dict(cases=[(2, 2, 3, 0), (2, 2, 3, 1), (2, 2, 3, 2)]))
    ck.oracle_selftest = [{'kind': 'ssa'}]
    ck.validate = ['ssa']
    ck.run()
    return ck.finish(replay=REPLAY)
