"""Environment stubs shared by the harnesses (each one is part of the claim; see DESIGN 2.6)."""
import numpy as np

from pyxsym.sym import ctx, Sym, PathCut
from pyxsym.values import Function
from pyxsym.front import FuncInfo


def install_uniform(interp, max_draws=None):
    """cyrandom.uniform_rv() -> fresh real u with 0 < u < 1, recorded in draw order.
    max_draws: the path is cut (PathCut) when one more uniform is requested."""
    R = interp.load("bioscrape.random")

    def uniform_rv():
        c = ctx()
        if max_draws is not None and len(c.draws) >= max_draws:
            raise PathCut("more than %d uniforms" % max_draws)
        u = c.fresh_real("u", lo=0, hi=1, lo_strict=True, hi_strict=True)
        c.draws.append(u)
        return u
    R.ns["uniform_rv"] = uniform_rv
    # modules that did "from bioscrape.random cimport ..." hold their own reference
    for m in interp.modules.values():
        if "uniform_rv" in m.ns and m is not R:
            m.ns["uniform_rv"] = uniform_rv
    return uniform_rv


def ptr(interp, arr):
    return interp.cast(("ptr", "double"), arr)


def sym_array(c, name, shape, kind="real", lo=None, hi=None):
    a = np.empty(shape, dtype=object)
    for idx in np.ndindex(*((shape,) if isinstance(shape, int) else shape)):
        nm = name + "_" + "_".join(str(i) for i in idx)
        a[idx] = c.int(nm, lo=lo, hi=hi) if kind == "int" else c.real(nm, lo=lo, hi=hi)
    return a


def arr_syms(name, a):
    out = {}
    for idx in np.ndindex(*a.shape):
        out[name + "[" + ",".join(str(i) for i in idx) + "]"] = a[idx]
    return out
