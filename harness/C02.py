"""C02 - rate and rule expressions evaluate to their mathematical meaning.

Layer 1 (evaluator, compositional): every Term class with opaque children equals its operator applied to the
          children's values; users of terms (general propensity, general rules, state-dependent growth).
Layer 2 (translation): for generated formulas the real parse_expression/sympy_recursion (sympy run natively) builds
          interpreted Term objects whose symbolic value equals the value of the sympy tree under an independent
          sympy->z3 converter (same uninterpreted exp/log/pow).
Layer 3 (meaning): on the exact fragment (+,-,*,/,integer powers, min, max, abs, Heaviside) the value also equals
          the value of the formula as written (its generating syntax tree), for all points of the finite domain.
Rejection: unknown names / unsupported functions never get a value.
"""
import random
from fractions import Fraction

import numpy as np

from .common import Check, model_env
from .stubs import ptr
from pyxsym.sym import (s_and, s_or, s_not, s_exp, s_log, s_sqrt, s_fabs, s_max, s_min, sym_pow, ite, is_sym, Sym,
                        Unsupported)
from pyxsym import sym as _sym

REPLAY = ("replay_drivers.C02", "replay")
SPECIES = ["A", "B_1", "x2", "C", "S", "I"]
PARAMS = ["p", "k", "O", "Q", "N", "E"]
WRITTEN = {"p": "_p"}          # parameter p is written with a leading underscore


# ------------------------------------------------------------------------------------------ formulas
def leaves():
    out = [("var", s) for s in SPECIES] + [("var", p) for p in PARAMS] + [("var", "t"), ("var", "volume")]
    out += [("num", Fraction(2)), ("num", Fraction(1, 2)), ("num", Fraction(3)), ("num", Fraction(1, 4))]
    return out


def show(e, full=False):
    k = e[0]
    if k == "num":
        f = e[1]
        return str(f.numerator) if f.denominator == 1 else repr(float(f))
    if k == "var":
        return WRITTEN.get(e[1], e[1])
    if k in ("+", "-", "*", "/"):
        return "(%s %s %s)" % (show(e[1], full), k, show(e[2], full))
    if k == "^":
        ex = e[2]
        if isinstance(ex, Fraction) and ex.denominator != 1:
            return "(%s)^%s" % (show(e[1], full), repr(float(ex)))
        return "(%s)^%s" % (show(e[1], full), "(%d)" % ex if ex < 0 else str(int(ex)))
    if k == "neg":
        return "(-%s)" % show(e[1], full)
    if k in ("exp", "log", "abs"):
        return "%s(%s)" % (k, show(e[1], full))
    if k == "H":
        return "%s(%s)" % ("heaviside" if full else "Heaviside", show(e[1], full))
    if k in ("min", "max"):
        return "%s(%s)" % (k, ", ".join(show(a, full) for a in e[1:]))
    raise ValueError(k)


def _has_var(e):
    return e[0] == "var" or any(_has_var(a) for a in e[1:] if isinstance(a, tuple))


def exact_fragment(e):
    if e[0] in ("exp", "log"):
        return False
    if e[0] == "/" or (e[0] == "^" and not isinstance(e[2], tuple) and e[2] < 0):
        den = e[2] if e[0] == "/" else e[1]
        if not _has_var(den):
            # a constant reciprocal is folded by sympy in doubles (1/(0.5 - 2), 3^-1): exact only for powers of two
            v = den[1] if den[0] == "num" else None
            if v is None or v == 0 or (abs(v).numerator & (abs(v).numerator - 1)) or (abs(v).denominator & (abs(v).denominator - 1)):
                return False
    if e[0] == "^" and isinstance(e[2], Fraction) and e[2].denominator != 1:
        return False
    return all(exact_fragment(a) for a in e[1:] if isinstance(a, tuple))


def gen(rng, depth, allow_uf=True):
    if depth == 0 or rng.random() < 0.15:
        return rng.choice(leaves())
    ops = ["+", "-", "*", "/", "^", "neg", "abs", "H", "min", "max"] + (["exp", "log"] if allow_uf else [])
    k = rng.choice(ops)
    if k in ("+", "-", "*", "/"):
        return (k, gen(rng, depth - 1, allow_uf), gen(rng, depth - 1, allow_uf))
    if k == "^":
        return ("^", gen(rng, depth - 1, allow_uf), rng.choice([2, 3, -1, -2, 0, 1, 2, Fraction(1, 2), Fraction(3, 2)] if allow_uf else [2, 3, -1, -2, 0, 1]))
    if k in ("min", "max"):
        return (k,) + tuple(gen(rng, depth - 1, allow_uf) for _ in range(rng.choice([2, 2, 3])))
    return (k, gen(rng, depth - 1, allow_uf))


def core_formulas():
    """small exhaustive core: every operator over every leaf kind (depth 1), plus operator pairs (depth 2)"""
    L = [("var", "A"), ("var", "p"), ("var", "E"), ("var", "t"), ("var", "volume"), ("num", Fraction(1, 2)), ("var", "B_1")]
    out = []
    for a in L:
        out += [("neg", a), ("abs", a), ("H", ("-", a, ("num", Fraction(1, 4)))), ("exp", a), ("log", a),
                ("^", a, 2), ("^", a, -1), ("^", a, 3), ("^", a, 0)]
        for b in L[:5]:
            out += [("+", a, b), ("-", a, b), ("*", a, b), ("/", a, b), ("min", a, b), ("max", a, b)]
    for op in ("+", "-", "*", "/"):
        for op2 in ("+", "-", "*", "/", "^"):
            inner = (op2, ("var", "S"), ("var", "I")) if op2 != "^" else ("^", ("var", "S"), 2)
            out += [(op, inner, ("var", "Q")), (op, ("var", "N"), inner)]
    out += [("max", ("var", "A"), ("num", Fraction(2)), ("var", "x2")), ("min", ("var", "C"), ("var", "O"), ("var", "k")),
            ("*", ("exp", ("var", "A")), ("exp", ("var", "C"))), ("log", ("*", ("var", "A"), ("var", "k"))),
            ("/", ("var", "A"), ("var", "A")), ("-", ("var", "A"), ("var", "A")), ("abs", ("neg", ("var", "x2"))),
            ("/", ("var", "A"), ("num", Fraction(3))), ("*", ("var", "A"), ("var", "A")),
            ("^", ("^", ("var", "k"), 2), Fraction(1, 2)), ("^", ("^", ("-", ("var", "B_1"), ("var", "A")), 2), Fraction(3, 2)),
            ("*", ("var", "A"), ("^", ("^", ("var", "Q"), 2), Fraction(1, 2))), ("^", ("var", "A"), Fraction(1, 2)),
            ("^", ("^", ("var", "k"), 3), 2), ("^", ("^", ("var", "k"), 2), -1)]
    return out


# ------------------------------------------------------------------------------------------ evaluation
def ast_value(e, env, assume):
    k = e[0]
    if k == "num":
        return e[1]
    if k == "var":
        return env[e[1]]
    if k in ("+", "-", "*"):
        a, b = ast_value(e[1], env, assume), ast_value(e[2], env, assume)
        return a + b if k == "+" else a - b if k == "-" else a * b
    if k == "/":
        a, b = ast_value(e[1], env, assume), ast_value(e[2], env, assume)
        assume(s_not(b == 0))
        if not is_sym(a) and not is_sym(b):
            return Fraction(a) / Fraction(b)
        return (a if is_sym(a) else Sym(_sym.zreal(a))) / b
    if k == "^":
        a = ast_value(e[1], env, assume)
        if e[2] < 0:
            assume(s_not(a == 0))
        if e[2] == 0:
            assume(s_not(a == 0))          # 0^0 is not part of the claim
        if isinstance(e[2], Fraction) and e[2].denominator != 1:
            assume(a > 0)                  # real powers are finite for positive bases
        return sym_pow(a, e[2])
    if k == "neg":
        return -ast_value(e[1], env, assume)
    if k == "abs":
        return s_fabs(ast_value(e[1], env, assume))
    if k == "H":
        a = ast_value(e[1], env, assume)
        assume(s_not(a == 0))
        return ite(a > 0, 1, 0) if is_sym(a) else (1 if a > 0 else 0)
    if k == "exp":
        return s_exp(ast_value(e[1], env, assume))
    if k == "log":
        a = ast_value(e[1], env, assume)
        assume(a > 0)
        return s_log(a)
    if k == "min":
        return s_min(*[ast_value(a, env, assume) for a in e[1:]])
    if k == "max":
        return s_max(*[ast_value(a, env, assume) for a in e[1:]])
    raise ValueError(k)


def sympy_domain(tree, env, assume):
    """points where the parsed expression is finite: log arguments > 0, bases of negative powers != 0, bases of
    non-integer powers > 0"""
    import sympy
    for node in sympy.preorder_traversal(tree):
        if isinstance(node, sympy.log):
            assume(sympy_value(node.args[0], env) > 0)
        elif isinstance(node, sympy.Pow):
            ex = node.args[1]
            if ex.is_Integer:
                if int(ex) <= 0:
                    assume(s_not(sympy_value(node.args[0], env) == 0))
            else:
                assume(sympy_value(node.args[0], env) > 0)


def sympy_value(tree, env):
    """independent sympy-tree -> value converter (constants as the doubles the code stores)"""
    import sympy
    if isinstance(tree, sympy.Symbol):
        n = str(tree)
        return env[n[1:] if n.startswith("_") else n]
    if isinstance(tree, sympy.Rational):
        return Fraction(int(tree.p), int(tree.q))
    if tree.is_Number or tree.is_NumberSymbol or not tree.args:
        return Fraction(repr(float(tree.evalf())))
    args = [sympy_value(a, env) for a in tree.args]
    if isinstance(tree, sympy.Add):
        tot = 0
        for a in args:
            tot = tot + a
        return tot
    if isinstance(tree, sympy.Mul):
        tot = 1
        for a in args:
            tot = tot * a
        return tot
    if isinstance(tree, sympy.Pow):
        return sym_pow(args[0], args[1])
    if isinstance(tree, sympy.exp):
        return s_exp(args[0])
    if isinstance(tree, sympy.log):
        return s_log(args[0])
    if isinstance(tree, sympy.Abs):
        return s_fabs(args[0])
    if isinstance(tree, sympy.Heaviside):
        a = args[0]
        return ite(a >= 0, 1, 0) if is_sym(a) else (1 if a >= 0 else 0)
    if isinstance(tree, sympy.Max):
        return s_max(*args)
    if isinstance(tree, sympy.Min):
        return s_min(*args)
    raise Unsupported("sympy node %s" % type(tree).__name__)


def _env(c):
    sp = {s: c.real("s_" + s, lo=0) for s in SPECIES}
    pa = {p: c.real("p_" + p) for p in PARAMS}          # parameters may be negative
    t = c.real("t", lo=0)
    V = c.real("V", lo=0, lo_strict=True)
    return sp, pa, t, V


def _rep(c, cond, label, sig, rp, syms):
    ok = c.prove(cond, label, info={"sig": sig, "what": label})
    if ok is False:
        f = c.failures[-1]
        f["replay"] = dict(rp, values=model_env(c, f["model"], syms))
        f["info"]["what"] = "%s at %s" % (label, f["replay"]["values"])
    return ok


def formula_job(interp, c, case):
    e, style = case
    import sympy
    from sympy.abc import _clash1
    T = interp.load("bioscrape.types")
    text = show(e, full=(style == "lower"))
    if style == "pipe":
        text = text.replace("_p", "|p")
    sp, pa, t, V = _env(c)
    s2i = {s: i for i, s in enumerate(SPECIES)}
    p2i = {p: i for i, p in enumerate(PARAMS)}
    syms = dict(t=t, V=V, **{"s_" + k: v for k, v in sp.items()}, **{"p_" + k: v for k, v in pa.items()})
    rp = dict(kind="formula", text=text)
    try:
        term = T.ns["parse_expression"](text, s2i, p2i)
    except (SyntaxError, ValueError, TypeError, ZeroDivisionError) as ex:
        # rejecting a formula when the model is built is always acceptable under the property (it only forbids
        # giving an accepted formula another value)
        c.prove(True, "rejected at build time: %s" % type(ex).__name__)
        return
    sv = np.array([sp[s] for s in SPECIES], dtype=object)
    pv = np.array([pa[p] for p in PARAMS], dtype=object)
    tree = sympy.sympify(text.replace("^", "**").replace("|", "_").replace("heaviside", "Heaviside"), _clash1)
    for mode in ("plain", "volume"):
        env = dict(sp)
        env.update(pa)
        env.update(t=t, volume=(V if mode == "volume" else 1))
        try:
            if mode == "plain":
                got = term.evaluate(ptr(interp, sv.copy()), ptr(interp, pv.copy()), t)
            else:
                got = term.volume_evaluate(ptr(interp, sv.copy()), ptr(interp, pv.copy()), V, t)
        except ZeroDivisionError:
            got = float("inf")          # C: pow(0, negative) = inf; only acceptable outside the formula's finite domain
        # layer 2: value of the sympy tree, at the points where it is finite (a generated formula may be finite nowhere,
        # e.g. log(-Heaviside(S)): nothing is claimed about it)
        c.vacuous_ok = True
        sympy_domain(tree, env, c.assume)
        want2 = sympy_value(tree, env)
        # Heaviside(0) is excluded from the claim
        for h in tree.atoms(sympy.Heaviside):
            c.assume(s_not(sympy_value(h.args[0], env) == 0))
        if isinstance(got, float) and (got != got or got in (float("inf"), float("-inf"))):
            _rep(c, False, "'%s' [%s]: evaluates to %r at a point of its finite domain" % (text, mode, got), "formula non-finite inside its domain",
                 dict(rp, mode=mode), syms)
            continue
        _rep(c, got == want2, "'%s' [%s]: the Term tree evaluates to the value of the parsed expression tree" % (text, mode),
             "translation sympy->Term", dict(rp, mode=mode), syms)
        if exact_fragment(e):
            want3 = ast_value(e, env, c.assume)
            _rep(c, got == want3, "'%s' [%s]: evaluates to the formula as written at every point of its finite domain" % (text, mode),
                 "formula meaning", dict(rp, mode=mode), syms)
        if mode == "plain":
            # the same text parsed again for a model that numbers its species the other way round means the same thing there
            n_ = len(SPECIES)
            s2i_rev = {s_: n_ - 1 - i_ for s_, i_ in s2i.items()}
            try:
                term_r = T.ns["parse_expression"](text, s2i_rev, p2i)
                got_r = term_r.evaluate(ptr(interp, sv[::-1].copy()), ptr(interp, pv.copy()), t)
            except (SyntaxError, ValueError, TypeError, ZeroDivisionError):
                got_r = None
            if got_r is not None and not (isinstance(got_r, float) and got_r != got_r):
                _rep(c, got_r == want2, "'%s': parsed a second time against another species numbering, it still evaluates to the value of "
                     "the expression" % text, "a parse depends on earlier parses", dict(rp, mode="reparse"), syms)


class _Opaque:
    _pyxsym_duck = True

    def __init__(self, c, name):
        self.v, self.vv = c.real(name), c.real(name + "_vol")

    def evaluate(self, s, p, t):
        return self.v

    def volume_evaluate(self, s, p, V, t):
        return self.vv


def node_job(interp, c, case):
    cls, arity = case
    T = interp.load("bioscrape.types")
    sv = np.array([c.real("s0"), c.real("s1")], dtype=object)
    pv = np.array([c.real("p0"), c.real("p1")], dtype=object)
    t, V = c.real("t"), c.real("V", lo=0, lo_strict=True)
    kids = [_Opaque(c, "child%d" % i) for i in range(arity)]
    node = T.ns[cls](*([c.real("cval")] if cls == "ConstantTerm" else [1] if cls in ("SpeciesTerm", "ParameterTerm") else []))
    if cls in ("SumTerm", "ProductTerm", "MaxTerm", "MinTerm"):
        for k in kids:
            node.add_term(k)
    elif cls == "PowerTerm":
        node.set_base(kids[0])
        node.set_exponent(kids[1])
    elif cls in ("ExpTerm", "LogTerm", "StepTerm", "AbsTerm"):
        node.set_arg(kids[0])
    if cls == "StepTerm":
        # whatever value the step takes AT 0 (conventions differ; outside the claim below), the plain and the volume-aware evaluation take
        # the same one: a volume simulation at volume 1 has the plain simulation's rates
        g1 = node.evaluate(ptr(interp, sv), ptr(interp, pv), t)
        g2 = node.volume_evaluate(ptr(interp, sv), ptr(interp, pv), V, t)
        ok = c.prove(_sym.s_implies(kids[0].v == kids[0].vv, g1 == g2), "StepTerm: plain and volume-aware evaluation agree whenever the argument has the same value (also at 0)",
                     info={"sig": "term node StepTerm at 0", "what": "StepTerm plain vs volume-aware at equal arguments"})
        if ok is False:
            c.failures[-1]["replay"] = {"text": "Heaviside(A - 1.5) + 2*Heaviside(x2 - 0.75)", "mode": "step-consistency",
                                        "values": dict({"s_A": 1.5, "s_B_1": 2.0, "s_x2": 0.75, "s_C": 3.0, "s_S": 1.25, "s_I": 0.5, "t": 0.5, "V": 1.0},
                                                       **{"p_" + p_: 1.0 for p_ in PARAMS})}
    for mode in ("plain", "volume"):
        vals = [k.v if mode == "plain" else k.vv for k in kids]
        got = node.evaluate(ptr(interp, sv), ptr(interp, pv), t) if mode == "plain" else \
            node.volume_evaluate(ptr(interp, sv), ptr(interp, pv), V, t)
        if cls == "SumTerm":
            want = sum(vals[1:], vals[0])
        elif cls == "ProductTerm":
            want = vals[0]
            for v in vals[1:]:
                want = want * v
        elif cls == "MaxTerm":
            want = s_max(*vals)
        elif cls == "MinTerm":
            want = s_min(*vals)
        elif cls == "PowerTerm":
            want = sym_pow(vals[0], vals[1])
        elif cls == "ExpTerm":
            want = s_exp(vals[0])
        elif cls == "LogTerm":
            want = s_log(vals[0])
        elif cls == "AbsTerm":
            want = s_fabs(vals[0])
        elif cls == "StepTerm":
            c.assume(s_not(vals[0] == 0))
            want = ite(vals[0] > 0, 1, 0)
        elif cls == "ConstantTerm":
            want = node.value
        elif cls == "SpeciesTerm":
            want = sv[1]
        elif cls == "ParameterTerm":
            want = pv[1]
        elif cls == "TimeTerm":
            want = t
        elif cls == "VolumeTerm":
            want = V if mode == "volume" else 1
        ok = c.prove(got == want, "%s with %d opaque children [%s] is its operator applied to the children's values" % (cls, arity, mode),
                     info={"sig": "term node %s" % cls, "what": "%s/%d/%s" % (cls, arity, mode)})
        if ok is False:
            # replay: a written formula whose top node is this class, over children that differ between the plain and the
            # volume-aware evaluation, at fixed values
            kid = ["A*volume", "x2 + volume*2", "C - volume", "S*volume*volume"][:max(arity, 1)]
            text = {"SumTerm": " + ".join(kid), "ProductTerm": " * ".join("(%s)" % k_ for k_ in kid), "MaxTerm": "max(%s)" % ", ".join(kid),
                    "MinTerm": "min(%s)" % ", ".join(kid), "PowerTerm": "(%s)^(%s)" % (kid[0], (kid + ["2"])[1]), "ExpTerm": "exp(%s)" % kid[0],
                    "LogTerm": "log(%s)" % kid[0], "AbsTerm": "abs(%s)" % kid[0], "StepTerm": "Heaviside(%s)" % kid[0],
                    "ConstantTerm": "2.5", "SpeciesTerm": "A", "ParameterTerm": "k", "TimeTerm": "t", "VolumeTerm": "volume"}[cls]
            vals = {"s_A": 1.5, "s_B_1": 2.0, "s_x2": 0.75, "s_C": 3.0, "s_S": 1.25, "s_I": 0.5, "t": 0.5, "V": 2.5}
            vals.update({"p_" + p_: 1.0 + 0.25 * i_ for i_, p_ in enumerate(PARAMS)})
            c.failures[-1]["replay"] = {"text": text, "mode": mode, "values": vals}


def users_job(interp, c, case):
    """general propensity / general rules / state-dependent growth use the evaluator in the right mode"""
    T = interp.load("bioscrape.types")
    sv0 = [c.real("s0", lo=0), c.real("s1", lo=0)]
    k = c.real("k", lo=0)
    t, V, dt = c.real("t", lo=0), c.real("V", lo=0, lo_strict=True), c.real("dt", lo=0, lo_strict=True)
    M = T.ns["Model"](species=["A", "B"], parameters=[("k", k)],
                      reactions=[(["A"], ["B"], "general", {"rate": "k*A*volume + t"})],
                      rules=[("assignment", {"equation": "B = k*A + volume"}, "repeated")])
    p = M.propensities[0]
    pv = M.params_values
    sv = np.array(sv0, dtype=object)
    A, B = sv0
    ok = c.prove(s_and(p.get_propensity(ptr(interp, sv), ptr(interp, pv), t) == k * A + t,
                  p.get_stochastic_propensity(ptr(interp, sv), ptr(interp, pv), t) == k * A + t,
                  p.get_volume_propensity(ptr(interp, sv), ptr(interp, pv), V, t) == k * A * V + t,
                  p.get_stochastic_volume_propensity(ptr(interp, sv), ptr(interp, pv), V, t) == k * A * V + t),
            "general propensity: 'volume' reads 1 without a volume and V with one, in all four modes",
            info={"sig": "general propensity modes", "what": "general propensity"})
    if ok is False:
        c.failures[-1]["replay"] = {"kind": "modes"}
    r = M.repeat_rules[0]
    s1 = np.array(sv0, dtype=object)
    r.execute_rule(ptr(interp, s1), ptr(interp, pv), t, dt, 1)
    s2 = np.array(sv0, dtype=object)
    r.execute_volume_rule(ptr(interp, s2), ptr(interp, pv), V, t, dt, 1)
    ok = c.prove(s_and(s1[M.species2index["B"]] == k * A + 1, s2[M.species2index["B"]] == k * A + V, s1[0] == A, s2[0] == A),
                 "general assignment rule evaluates its right-hand side with volume = 1 / V", info={"sig": "rule modes", "what": "rule"})
    if ok is False:
        c.failures[-1]["replay"] = {"kind": "modes"}
    sdv = T.ns["StateDependentVolume"]()
    sdv.setup(c.real("Vd", lo=0), c.real("noise", lo=0), "k*A/(1 + B) + 0.25*t", M)
    step = sdv.get_volume_step(ptr(interp, sv), ptr(interp, pv), t, V, dt)
    from fractions import Fraction as _F
    ok = c.prove(step == (s_exp((k * A / (1 + B) + _F(1, 4) * t) * dt) - 1) * V,
                 "state-dependent growth law evaluates the written rate expression at the current state and time",
                 info={"sig": "growth law", "what": "growth"})
    if ok is False:
        c.failures[-1]["replay"] = {"kind": "growth", "text": "k*A/(1 + B) + 0.25*t"}


def reject_job(interp, c, case):
    kind, text = case
    T = interp.load("bioscrape.types")
    s2i, p2i = {"A": 0, "B": 1}, {"k": 0}
    rp = dict(kind="reject", which=kind, text=text)
    if kind == "parse":
        try:
            term = T.ns["parse_expression"](text, s2i, p2i)
            _rep(c, False, "'%s' mentions an unknown name or unsupported function but is accepted" % text, "unknown name accepted", rp, {})
        except (ValueError, SyntaxError) as ex:
            c.prove(True, "'%s' is rejected with %s" % (text, type(ex).__name__))
    else:
        for mk in ("reaction", "rule"):
            kw = dict(species=["A", "B"], parameters=[("k", 1.0)])
            if mk == "reaction":
                kw["reactions"] = [(["A"], ["B"], "general", {"rate": text})]
            else:
                kw["rules"] = [("assignment", {"equation": "B = " + text}, "repeated")]
            try:
                T.ns["Model"](**kw)
                _rep(c, False, "a model whose %s uses '%s' is built" % (mk, text), "unknown name accepted in model", dict(rp, via=mk), {})
            except (ValueError, SyntaxError) as ex:
                c.prove(True, "model %s with '%s' is rejected when the model is built (%s)" % (mk, text, type(ex).__name__))


def formulas(tier, seed):
    rng = random.Random(1000 + seed)
    out = [(e, "plain") for e in core_formulas()]
    out += [(("+", ("var", "p"), ("H", ("-", ("var", "A"), ("num", Fraction(2))))), "lower"),
            (("*", ("var", "p"), ("var", "k")), "pipe")]
    n2, n3, n4 = (40, 30, 0) if tier == "quick" else (200, 200, 60)
    for depth, n in ((2, n2), (3, n3), (4, n4)):
        for _ in range(n):
            out.append((gen(rng, depth, allow_uf=(rng.random() < 0.4)), "plain"))
    return out


def check(tier):
    ck = Check("C02", "model_checking", tier)
    fs = formulas(tier, ck.seed)
    n = 32 if tier == "thorough" else 16
    k = max(1, (len(fs) + n - 1) // n)
    for i in range(0, len(fs), k):
        ck.add("formulas/%d" % (i // k), "harness.C02", "formula_job", dict(cases=fs[i:i + k]), timeout_ms=30000)
    nodes = [("ConstantTerm", 0), ("SpeciesTerm", 0), ("ParameterTerm", 0), ("TimeTerm", 0), ("VolumeTerm", 0), ("PowerTerm", 2),
             ("ExpTerm", 1), ("LogTerm", 1), ("StepTerm", 1), ("AbsTerm", 1)]
    nodes += [(cls, a) for cls in ("SumTerm", "ProductTerm", "MaxTerm", "MinTerm") for a in (1, 2, 3, 4)]
    ck.add("nodes", "harness.C02", "node_job", dict(cases=nodes))
    ck.add("users", "harness.C02", "users_job", dict(cases=[()]))
    rej = [("parse", "A + zz"), ("parse", "k*Z"), ("parse", "sin(A)"), ("parse", "A + tan(k)"), ("parse", "A*_q"), ("parse", "gamma(A)"),
           ("model", "k*A + undefined_name"), ("model", "A*W"), ("model", "sin(A)")]
    ck.add("rejection", "harness.C02", "reject_job", dict(cases=rej))
    ck.bounds = dict(formulas=len(fs), depth="<= %d" % (3 if tier == "quick" else 4),
                     nary_children="1..4", identifier_pool=SPECIES + ["_p"] + PARAMS[1:] + ["t", "volume"])
    ck.assumptions = [
        "sympy (parser and canonicalisation) runs natively and is trusted for layer 2; layer 3 compares with the generating "
        "syntax tree of the written formula on the exact fragment, for all points where every denominator, negative-power "
        "base and Heaviside argument is non-zero; constants are the doubles the code stores (rationals taken exactly)",
        "exp/log/pow uninterpreted (shared symbols); depth beyond the bound sampled with VERIF_SEED",
    ]
    mut = [
        ("power-swapped", dict(module="bioscrape.types", old="        powerterm.set_base( sympy_recursion(args[0],species2index,params2index) )\n        powerterm.set_exponent( sympy_recursion(args[1], species2index,params2index) )",
                               new="        powerterm.set_base( sympy_recursion(args[1],species2index,params2index) )\n        powerterm.set_exponent( sympy_recursion(args[0], species2index,params2index) )"), "f"),
        ("min-max-swapped", dict(module="bioscrape.types", old="    elif type(tree) == sympy.Max:\n        maxterm = MaxTerm()", new="    elif type(tree) == sympy.Min:\n        maxterm = MaxTerm()"), "f"),
        ("volume-term-plain", dict(module="bioscrape.types", old="cdef class VolumeTerm(Term):\n    cdef double evaluate(self, double *species, double *params, double time):\n        return 1.0",
                                   new="cdef class VolumeTerm(Term):\n    cdef double evaluate(self, double *species, double *params, double time):\n        return 0.0"), "f"),
        ("product-skips-first", dict(module="bioscrape.types", old="        cdef double ans = 1.0\n        cdef unsigned i\n        for i in range(self.terms.size()):\n            ans *= (<Term>(self.terms[i])).evaluate(species, params,time)",
                                     new="        cdef double ans = 1.0\n        cdef unsigned i\n        for i in range(1, self.terms.size()):\n            ans *= (<Term>(self.terms[i])).evaluate(species, params,time)"), "n"),
        ("unknown-name-is-zero", dict(module="bioscrape.types", old="            raise ValueError(f\"Unknown term {name} not found in Species, Parameters, or built-in-terms.\")",
                                      new="            return ConstantTerm(0.0)"), "r"),
    ]
    for name, m, w in mut:
        if w == "f":
            ck.add_mutant(name, m, "f", "harness.C02", "formula_job", dict(cases=fs[:120]))
        elif w == "n":
            ck.add_mutant(name, m, "n", "harness.C02", "node_job", dict(cases=nodes))
        else:
            ck.add_mutant(name, m, "r", "harness.C02", "reject_job", dict(cases=rej))
    ck.validate = ['expressions']
    ck.run()
    return ck.finish(replay=REPLAY)
