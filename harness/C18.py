"""C18 - reported Jacobians and parameter sensitivities match analytic derivatives.

Real code executed symbolically: py_get_jacobian, py_get_sensitivity_to_parameter, SensitivityAnalysis.__init__ /
_evaluate_model / compute_J / compute_Zj (bioscrape/analysis.py).  The compiled right-hand side is replaced by a
SYMBOLIC POLYNOMIAL with arbitrary coefficients, so each difference scheme is checked on its whole exactness class
(and one degree above it, where the result must equal derivative + the scheme's leading error term).
"""
import itertools
from fractions import Fraction

import numpy as np

from .common import Check, model_env
from pyxsym.sym import s_and, is_sym, Sym, sym_pow

REPLAY = ("replay_drivers.C18", "replay")
METHODS = {"fourth_order_central_difference": 4, "central_difference": 2, "forward_difference": 1, "backward_difference": 1}


def _monomials(n, deg):
    return [e for e in itertools.product(range(deg + 1), repeat=n) if sum(e) <= deg]


class _Poly:
    """f_i(x) = sum_m c[i][m] * prod x_j^m_j  with symbolic coefficients"""
    def __init__(self, c, n, deg, name="c"):
        self.n = n
        self.mons = _monomials(n, deg)
        self.coef = [[c.real("%s%d_%s" % (name, i, "".join(map(str, m)))) for m in self.mons] for i in range(n)]

    def value(self, i, x):
        tot = 0
        for cf, m in zip(self.coef[i], self.mons):
            term = cf
            for j, e in enumerate(m):
                term = term * sym_pow(x[j], e)
            tot = tot + term
        return tot

    def deriv(self, i, x, j, order=1):
        tot = 0
        for cf, m in zip(self.coef[i], self.mons):
            e = m[j]
            if e < order:
                continue
            k = 1
            for r in range(order):
                k *= (e - r)
            term = cf * k
            for jj, ee in enumerate(m):
                term = term * sym_pow(x[jj], ee - order if jj == j else ee)
            tot = tot + term
        return tot


class _StubModel:
    _pyxsym_duck = True

    def __init__(self, params):
        self.params = dict(params)
        self.log = []

    def get_parameter_dictionary(self):
        return dict(self.params)

    def set_params(self, d):
        self.log.append(dict(d))
        for k, v in d.items():
            self.params[k] = v


def _install(interp, rhs, n, events):
    A = interp.load("bioscrape.analysis")

    class _Itf:
        _pyxsym_duck = True

        def __init__(self, M):
            self.M = M

        def py_prep_deterministic_simulation(self):
            events.append("prep")

        def py_get_num_species(self):
            return n

        def py_apply_repeated_rules(self, states, time, rule_step):
            events.append(("rules", list(states), time, rule_step))

        def py_calculate_deterministic_derivative(self, states, out, time):
            for i in range(n):
                out[i] = rhs(i, list(states), self.M, time)
    A.ns["ModelCSimInterface"] = _Itf
    A.ns["DeterministicSimulator"] = lambda: None
    return A


def _rep(c, cond, label, sig, rp, syms):
    ok = c.prove(cond, label, info={"sig": sig, "what": label})
    if ok is False:
        f = c.failures[-1]
        f["replay"] = dict(rp, values=model_env(c, f["model"], syms))
    return ok


def jacobian_job(interp, c, case):
    n, method, extra = case
    exact_deg = METHODS[method]
    deg = exact_deg + extra
    poly = _Poly(c, n, deg)
    events = []
    A = _install(interp, lambda i, xs, M, t: poly.value(i, xs), n, events)
    x = [c.real("x%d" % j) for j in range(n)]
    M = _StubModel({"k": c.real("k")})
    kw = {} if method == "fourth_order_central_difference" and extra == 0 and n == 2 else {"method": method}
    J = A.ns["py_get_jacobian"](M, list(x), **kw)
    h = Fraction(1, 100)
    conds = []
    for i in range(n):
        for j in range(n):
            want = poly.deriv(i, x, j)
            if extra:
                if method == "fourth_order_central_difference":
                    want = want - h ** 4 * poly.deriv(i, x, j, 5) / 30
                elif method == "central_difference":
                    want = want + h ** 2 * poly.deriv(i, x, j, 3) / 6
                elif method == "forward_difference":
                    want = want + h * poly.deriv(i, x, j, 2) / 2
                else:
                    want = want - h * poly.deriv(i, x, j, 2) / 2
            conds.append(J[i, j] == want)
    rp = dict(kind="jacobian", method=method)
    _rep(c, s_and(*conds),
         "compute_J[%s], n=%d: J[i,j] = d f_i / d x_j %s for every polynomial right-hand side of degree <= %d" %
         (method, n, "exactly" if not extra else "+ the scheme's leading error term", deg),
         "jacobian %s" % method, rp, {})
    rules = [e for e in events if isinstance(e, tuple) and e[0] == "rules"]
    _rep(c, len(rules) > 0 and all(e[3] is True for e in rules), "the model is evaluated with rules applied first", "jacobian rules", rp, {})
    _rep(c, M.log == [], "computing the Jacobian does not touch the model's parameters", "jacobian writes parameters", rp, {})


def sensitivity_job(interp, c, case):
    n, method, extra = case
    exact_deg = METHODS[method]
    deg = exact_deg + extra
    # f_i(x; p) = sum_e d[i][e] * p^e  (coefficients arbitrary: they absorb the dependence on x)
    d = [[c.real("d%d_%d" % (i, e)) for e in range(deg + 1)] for i in range(n)]
    q = [c.real("q%d" % i) for i in range(n)]

    def rhs(i, xs, M, t):
        p = M.params["p"]
        tot = q[i] * M.params["other"]
        for e in range(deg + 1):
            tot = tot + d[i][e] * sym_pow(p, e)
        return tot
    events = []
    A = _install(interp, rhs, n, events)
    p0, o0 = c.real("p"), c.real("other")
    M = _StubModel({"p": p0, "other": o0})
    x = [c.real("x%d" % j) for j in range(n)]
    Z = A.ns["py_get_sensitivity_to_parameter"](M, list(x), "p", method=method)
    h = Fraction(1, 100)

    def dk(i, k):
        tot = 0
        for e in range(k, deg + 1):
            kk = 1
            for r in range(k):
                kk *= (e - r)
            tot = tot + d[i][e] * kk * sym_pow(p0, e - k)
        return tot
    conds = []
    for i in range(n):
        want = dk(i, 1)
        if extra:
            if method == "fourth_order_central_difference":
                want = want - h ** 4 * dk(i, 5) / 30
            elif method == "central_difference":
                want = want + h ** 2 * dk(i, 3) / 6
            elif method == "forward_difference":
                want = want + h * dk(i, 2) / 2
            else:
                want = want - h * dk(i, 2) / 2
        conds.append(Z[i] == want)
    rp = dict(kind="sensitivity", method=method)
    _rep(c, s_and(*conds), "compute_Zj[%s], n=%d: Z[i] = d f_i / d p %s for every right-hand side polynomial of degree <= %d in p"
         % (method, n, "exactly" if not extra else "+ the scheme's leading error term", deg), "sensitivity %s" % method, rp, {})
    _rep(c, s_and(M.params["p"] == p0, M.params["other"] == o0),
         "after computing a sensitivity the model's parameters have their original values", "sensitivity leaves parameters changed", rp, {})
    touched = set(k for dct in M.log for k in dct if not (dct[k] is (p0 if k == "p" else o0)))
    _rep(c, touched <= {"p"}, "only the named parameter is ever perturbed", "sensitivity perturbs another parameter", rp, {})


def history_job(interp, c, case):
    """the public wrappers are functions of the model's CURRENT parameters: a query, then Model.set_params, then a second query on
    the same model object gives the derivative at the new values and leaves the new values in the model"""
    method, = case
    d = [[c.real("d%d_%d" % (i, e)) for e in range(3)] for i in range(2)]

    def rhs(i, xs, M, t):
        p = M.params["p"]
        return d[i][0] + d[i][1] * p + d[i][2] * p * p + xs[i] * M.params["other"]
    events = []
    A = _install(interp, rhs, 2, events)
    p0, o0, p1 = c.real("p"), c.real("other"), c.real("p_new")
    M = _StubModel({"p": p0, "other": o0})
    x = [c.real("x0"), c.real("x1")]
    A.ns["py_get_sensitivity_to_parameter"](M, list(x), "p", method=method)
    A.ns["py_get_jacobian"](M, list(x), method=method)
    M.set_params({"p": p1})
    Z = A.ns["py_get_sensitivity_to_parameter"](M, list(x), "p", method=method)
    J = A.ns["py_get_jacobian"](M, list(x), method=method)
    h = Fraction(1, 100)
    conds = []
    for i in range(2):
        want = d[i][1] + 2 * d[i][2] * p1
        if method == "forward_difference":
            want = want + h * d[i][2]
        elif method == "backward_difference":
            want = want - h * d[i][2]
        conds.append(Z[i] == want)
        conds += [J[i, j] == (o0 if i == j else 0) for j in range(2)]
    rp = dict(kind="history", method=method)
    _rep(c, s_and(*conds), "[%s] after Model.set_params a second query on the same model is the derivative at the new parameter values" % method,
         "sensitivity query depends on earlier queries", rp, {})
    _rep(c, s_and(M.params["p"] == p1, M.params["other"] == o0), "[%s] and the model keeps the new parameter values" % method,
         "sensitivity query restores stale parameters", rp, {})


def real_model_job(interp, c, case):
    """no stub: a real Model through the real interface.  A reversible step written as ONE reaction with the net rate kf*A - kr*B
    (of either sign) plus a first-order decay: the right-hand side is linear in the state and in each parameter, so every scheme is
    exact and the reported matrices must be the analytic ones - also where the net flux runs backwards."""
    method, = case
    A_ = interp.load("bioscrape.analysis")
    T = interp.load("bioscrape.types")
    kf, kr, kd = c.real("kf", lo=0, lo_strict=True), c.real("kr", lo=0, lo_strict=True), c.real("kd", lo=0, lo_strict=True)
    M = T.ns["Model"](species=["A", "B"], parameters=[("kf", kf), ("kr", kr), ("kd", kd)],
                      reactions=[(["A"], ["B"], "general", {"rate": "kf*A - kr*B"}), (["B"], [], "massaction", {"k": "kd"})])
    a, b = c.real("A", lo=0), c.real("B", lo=0)
    st = {"A": a, "B": b}
    order = M.get_species_list()
    x = [st[s_] for s_ in order]
    ia, ib = order.index("A"), order.index("B")
    rp = dict(kind="real_model", method=method)
    syms = {"kf": kf, "kr": kr, "kd": kd, "A": a, "B": b}
    J = A_.ns["py_get_jacobian"](M, list(x), method=method)
    wantJ = {(ia, ia): -kf, (ia, ib): kr, (ib, ia): kf, (ib, ib): -kr - kd}
    _rep(c, s_and(*[J[i, j] == wantJ[(i, j)] for i in range(2) for j in range(2)]),
         "[%s] real model A -> B at net rate kf*A - kr*B, B -> 0: the Jacobian is [[-kf, kr], [kf, -kr-kd]] at every state, whichever way "
         "the net flux runs" % method, "jacobian of a real model", rp, syms)
    for pname, want in (("kf", {ia: -a, ib: a}), ("kr", {ia: b, ib: -b}), ("kd", {ia: 0, ib: -b})):
        Z = A_.ns["py_get_sensitivity_to_parameter"](M, list(x), pname, method=method)
        _rep(c, s_and(*[Z[i] == want[i] for i in range(2)]),
             "[%s] real model: d f / d %s is the analytic derivative at every state" % (method, pname), "sensitivity of a real model", rp, syms)
    now = M.get_parameter_dictionary()
    _rep(c, s_and(now["kf"] == kf, now["kr"] == kr, now["kd"] == kd), "[%s] real model: parameters restored" % method,
         "real model parameters changed", rp, syms)
    # a second real model: dimerisation 2A -> B by mass action (deterministic rate k2*A^2, not the combinatorial k2*A*(A-1)): quadratic in A, so the
    # central schemes are exact and the one-sided ones carry their known first-order term
    k2 = c.real("k2", lo=0, lo_strict=True)
    M2 = T.ns["Model"](species=["A", "B"], parameters=[("k2", k2)], reactions=[(["A", "A"], ["B"], "massaction", {"k": "k2"})])
    order2 = M2.get_species_list()
    ja, jb = order2.index("A"), order2.index("B")
    x2 = [0, 0]
    x2[ja], x2[jb] = a, b
    h = Fraction(1, 100)
    slope = {"fourth_order_central_difference": 2 * a, "central_difference": 2 * a, "forward_difference": 2 * a + h, "backward_difference": 2 * a - h}[method]
    J2 = A_.ns["py_get_jacobian"](M2, list(x2), method=method)
    rp2 = dict(kind="real_model", method=method, model="dimer")
    syms2 = {"k2": k2, "A": a, "B": b}
    _rep(c, s_and(J2[ja, ja] == -2 * k2 * slope, J2[jb, ja] == k2 * slope, J2[ja, jb] == 0, J2[jb, jb] == 0),
         "[%s] real model 2A -> B: the Jacobian is that of the deterministic law k2*A^2 (d/dA = 2*k2*A%s)" % (
             method, "" if "central" in method else " +/- k2*h from the one-sided scheme"), "jacobian of a real model (dimer)", rp2, syms2)
    # a third real model: a general rate over a species called E (and parameters I, N - names that are also sympy constants): bilinear, so exact
    kc = c.real("kc", lo=0, lo_strict=True)
    rp3 = dict(kind="real_model", method=method, model="names")
    try:
        M3 = T.ns["Model"](species=["E", "S"], parameters=[("N", kc), ("I", k2)], reactions=[(["S"], [], "general", {"rate": "N*E*S + I*S"})])
    except Exception as e:           # a legal model: not being able to build it is a failure of the property, not of the harness
        _rep(c, False, "[%s] real model (names): the model cannot be built (%s: %s)" % (method, type(e).__name__, str(e)[:80]), "real model (names) cannot be built", rp3, {})
        return
    o3 = M3.get_species_list()
    ie, is_ = o3.index("E"), o3.index("S")
    x3 = [0, 0]
    x3[ie], x3[is_] = a, b
    J3 = A_.ns["py_get_jacobian"](M3, list(x3), method=method)
    _rep(c, s_and(J3[is_, ie] == -kc * b, J3[is_, is_] == -kc * a - k2, J3[ie, ie] == 0, J3[ie, is_] == 0),
         "[%s] real model S -> 0 at rate N*E*S + I*S (species E, parameters N, I): the Jacobian row is (-N*S, -N*E - I)" % method, "jacobian of a real model (names)", rp3,
         {"N": kc, "I": k2, "E": a, "S": b})
    Z3 = A_.ns["py_get_sensitivity_to_parameter"](M3, list(x3), "N", method=method)
    _rep(c, s_and(Z3[is_] == -a * b, Z3[ie] == 0), "[%s] real model (names): d f / d N = (0, -E*S)" % method, "sensitivity of a real model (names)", rp3,
         {"N": kc, "I": k2, "E": a, "S": b})
    Z2 = A_.ns["py_get_sensitivity_to_parameter"](M2, list(x2), "k2", method=method)
    _rep(c, s_and(Z2[ja] == -2 * a * a, Z2[jb] == a * a), "[%s] real model 2A -> B: d f / d k2 = (-2A^2, A^2)" % method, "sensitivity of a real model (dimer)", rp2, syms2)


def check(tier):
    ck = Check("C18", "model_checking", tier)
    ns = [2] if tier == "quick" else [2, 3]
    for n in ns:
        for method in METHODS:
            for extra in (0, 1):
                ck.add("jacobian/n%d/%s/+%d" % (n, method, extra), "harness.C18", "jacobian_job",
                       dict(cases=[(n, method, extra)]), fresh=True, timeout_ms=120000)
    for method in METHODS:
        for extra in (0, 1):
            ck.add("sensitivity/%s/+%d" % (method, extra), "harness.C18", "sensitivity_job",
                   dict(cases=[(2, method, extra)]), fresh=True)
    for method in METHODS:
        ck.add("history/%s" % method, "harness.C18", "history_job", dict(cases=[(method,)]), fresh=True)
    for method in METHODS:
        ck.add("real-model/%s" % method, "harness.C18", "real_model_job", dict(cases=[(method,)]), fresh=True)
    ck.bounds = dict(states="n = %s" % ns, polynomial_degree="exactness class of each scheme (4/2/1/1) and one degree above",
                     step="h = 0.01 as hard-wired in SensitivityAnalysis.__init__")
    ck.assumptions = [
        "the compiled right-hand side is replaced by a polynomial with arbitrary real coefficients; np.round(.,10) is modelled "
        "as the identity (its 5e-11 effect is outside the claim); reals for doubles",
        "'to the accuracy of the scheme' is made exact: equality on the scheme's exactness class and equality with derivative + "
        "leading error term one degree above it (h^4 f^(5)/30, h^2 f'''/6, h f''/2)",
    ]
    mut = [
        ("stencil-coefficient", dict(module="bioscrape.analysis", old="J[i,j]= (-f_2h + 8*f_h - 8*f_mh + f_m2h)/(12*h)", new="J[i,j]= (-f_2h + 8*f_h - 8*f_mh + f_m2h)/(10*h)"), "j"),
        ("transposed", dict(module="bioscrape.analysis", old="                    J[i,j]= (f_h - f_mh)/(2*h) ", new="                    J[j,i]= (f_h - f_mh)/(2*h) "), "jc"),
        ("forward-sign", dict(module="bioscrape.analysis", old="                    J[i,j]= (f_h - f_0)/h", new="                    J[i,j]= (f_0 - f_h)/h"), "jf"),
        ("params-not-restored", dict(module="bioscrape.analysis", old="                f_m2h = self._evaluate_model(x, params_dict, time = time)[i]\n                params_dict = dict(self.original_parameters)\n                self.M.set_params(params_dict)\n",
                                     new="                f_m2h = self._evaluate_model(x, params_dict, time = time)[i]\n                params_dict = dict(self.original_parameters)\n"), "s"),
        ("z-step-doubled", dict(module="bioscrape.analysis", old="                Z[i]= (f_h - f_mh)/(2*h) ", new="                Z[i]= (f_h - f_mh)/(h) "), "sc"),
    ]
    for name, m, w in mut:
        if w == "j":
            ck.add_mutant(name, m, "j", "harness.C18", "jacobian_job", dict(cases=[(2, "fourth_order_central_difference", 0)]), fresh=True)
        elif w == "jc":
            ck.add_mutant(name, m, "j", "harness.C18", "jacobian_job", dict(cases=[(2, "central_difference", 0)]), fresh=True)
        elif w == "jf":
            ck.add_mutant(name, m, "j", "harness.C18", "jacobian_job", dict(cases=[(2, "forward_difference", 0)]), fresh=True)
        elif w == "s":
            ck.add_mutant(name, m, "s", "harness.C18", "sensitivity_job", dict(cases=[(2, "fourth_order_central_difference", 0)]), fresh=True)
        else:
            ck.add_mutant(name, m, "s", "harness.C18", "sensitivity_job", dict(cases=[(2, "central_difference", 0)]), fresh=True)
    ck.validate = ['sensitivity']
    ck.run()
    return ck.finish(replay=REPLAY)
