"""C19 - division conserves molecules and volume; lineage records are consistent.

 * splitters (PerfectBinomialVolumeSplitter, GeneralVolumeSplitter, LineageVolumeSplitter, binom_rnd_f) executed from
   source over symbolic mother counts / volumes / noise and stubbed uniforms;
 * one inductive step of LineageSSASimulator.SimulateSingleCell with an abstract lineage interface (arbitrary
   propensities incl. events, arbitrary positive volume maps, arbitrary rule outcomes), plus its exit/truncation code;
 * lineage bookkeeping (SimulateCellLineage / simulate_daughter_cells) is covered concretely by the replay driver only
   (see DESIGN: the lineage driver functions are exercised through SimulateSingleCell's contract in thorough tier).
"""
import numpy as np

from .common import Check, model_env
from .stubs import install_uniform, ptr, sym_array
from .loops import make_grid, make_stoich, run_prologue, havoc_array, choice_oracle
from pyxsym.sym import s_and, s_or, s_not, s_log, ite, is_sym, CFault, Sym, PathCut, Unsupported, trunc, ctx

REPLAY = ("replay_drivers.C19", "replay")


def _rep(c, cond, label, sig, rp=None, syms=None):
    ok = c.prove(cond, label, info={"sig": sig, "what": label})
    if ok is False:
        f = c.failures[-1]
        f["replay"] = dict(rp or {"kind": "single_cell"})
        if syms:
            f["replay"]["values"] = model_env(c, f["model"], syms)
    return ok


# ------------------------------------------------------------------------------------------- splitters
def splitter_job(interp, c, case):
    kind, modes, maxn, vmode = case
    install_uniform(interp)
    S = interp.load("bioscrape.simulator")
    T = interp.load("bioscrape.types")
    nsp = len(modes)
    names = ["S%d" % i for i in range(nsp)]
    counts = [c.int("n%d" % i, lo=0, hi=maxn) for i in range(nsp)]
    V = c.real("V", lo=0, lo_strict=True)
    t = c.real("t")
    syms = dict(V=V, t=t, **{"n%d" % i: v for i, v in enumerate(counts)})
    M = T.ns["Model"](species=names, initial_condition_dict={n: 0 for n in names})
    idx = M.get_species2index()
    st = np.array([counts[names.index(s)] for s in M.get_species_list()], dtype=object)
    rp = dict(kind="splitter", splitter=kind, modes=list(modes), vmode=vmode)
    if kind == "perfect_binomial":
        sp = S.ns["PerfectBinomialVolumeSplitter"]()
        parent = S.ns["VolumeCellState"]()
        parent.set_time(t)
        parent.set_volume(V)
        parent.set_state(st.copy())
        p_expected, noise = 1 / __import__("fractions").Fraction(2), None
    elif kind == "general":
        sp = S.ns["GeneralVolumeSplitter"]()
        opts = {}
        for s, m in zip(names, modes):
            if m != "binomial" or vmode == "explicit":        # "explicit": the (default) binomial species are named under their own key as well
                opts.setdefault(m, []).append(s)
        sp.py_set_partitioning(opts, M)
        noise = c.real("noise", lo=0, hi=__import__("fractions").Fraction(49, 100))
        sp.py_set_partition_noise(noise)
        syms["noise"] = noise
        parent = S.ns["VolumeCellState"]()
        parent.set_time(t)
        parent.set_volume(V)
        parent.set_state(st.copy())
    else:
        L = interp.load("bioscrape.lineage")
        opts = {s: m for s, m in zip(names, modes)}
        opts["volume"] = vmode
        noise = c.real("noise", lo=0, hi=1)
        syms["noise"] = noise
        sp = L.ns["LineageVolumeSplitter"](M, options=opts, partition_noise=noise)
        parent = L.ns["LineageVolumeCellState"](v0=V, t0=t, state=st.copy())
    c.draws.clear()
    try:
        ans = sp.partition(parent)
    except CFault as e:
        _rep(c, False, "%s splitter: memory-unsafe access %s" % (kind, e), "splitter unsafe access", rp, syms)
        return
    d, e = ans[0], ans[1]
    ds, es = d.get_state(), e.get_state()
    draws = list(c.draws)
    vd, ve = d.get_volume(), e.get_volume()
    tag = "%s splitter %s volume=%s" % (kind, list(modes), vmode)
    if kind == "lineage" and vmode == "duplicate":
        _rep(c, s_and(vd == V, ve == V), "%s: duplicated volume is copied to both daughters" % tag, "volume duplicate", rp, syms)
        p = 1
    else:
        _rep(c, s_and(vd + ve == V, vd > 0, ve > 0), "%s: daughter volumes are positive and sum to the mother's" % tag, "volume conservation", rp, syms)
        p = vd / V
    _rep(c, s_and(d.get_time() == t, e.get_time() == t), "%s: daughters are born at the mother's time" % tag, "daughter time", rp, syms)
    _rep(c, s_and(*[parent.get_state()[i] == st[i] for i in range(nsp)]) and not np.shares_memory(ds, parent.get_state())
         and not np.shares_memory(es, parent.get_state()) and not np.shares_memory(ds, es),
         "%s: the mother's state is left untouched and daughters own their states" % tag, "mother untouched", rp, syms)
    conds = []
    for s, m in zip(names, modes):
        i = idx[s]
        n = counts[names.index(s)]
        if m == "duplicate":
            conds += [ds[i] == n, es[i] == n]
        else:
            conds += [ds[i] + es[i] == n, ds[i] >= 0, es[i] >= 0, trunc(ds[i]) == ds[i]]
    _rep(c, s_and(*conds), "%s: binomial and perfect species are conserved with non-negative integer shares, duplicated species are "
                           "copied" % tag, "molecule conservation", rp, syms)
    # binomial species: the daughter gets exactly those molecules whose own uniform draw is below p = V_d / V
    used = 0
    if kind == "general" or (kind == "lineage" and vmode == "binomial"):
        used = 1              # the partition-noise draw
    bconds = []
    order = []
    if kind == "perfect_binomial":
        order = [(i, "binomial") for i in range(nsp)]
    elif kind == "general":
        order = [(idx[s], "perfect") for s, m in zip(names, modes) if m == "perfect"] + \
                [(i, "binomial") for i in sorted(idx[s] for s, m in zip(names, modes) if m == "binomial")]
    else:
        order = [(idx[s], "perfect") for s in M.get_species2index() if modes[names.index(s)] == "perfect"] + \
                [(idx[s], "binomial") for s in M.get_species2index() if modes[names.index(s)] == "binomial"]
    ok_draws = True
    for i, m in order:
        n = st[i]
        if m == "perfect":
            dv = p * n
            fl = trunc(dv)
            if kind == "general":
                amount = trunc(dv + __import__("fractions").Fraction(1, 2))
                exact = (ite(dv - amount >= 0, dv - amount, amount - dv) <= __import__("fractions").Fraction(1, 10 ** 8))
            else:
                exact = (dv - fl <= __import__("fractions").Fraction(1, 10 ** 8))
            if bool(exact):
                continue
            if used >= len(draws):
                ok_draws = False
                break
            u = draws[used]
            used += 1
            bconds.append(ds[i] == ite(u <= p, fl + 1, fl))
        else:
            nn = n
            if is_sym(nn):
                nn = ctx().concretize(nn, 0, maxn + 1, "mother count")
            if used + nn > len(draws):
                ok_draws = False
                break
            hits = 0
            for u in draws[used:used + nn]:
                hits = hits + ite(u < p, 1, 0)
            used += nn
            bconds.append(ds[i] == hits)
    law = "%s: a binomially split species gives the daughter exactly the molecules whose own uniform draw is below p = V_d/V " \
          "(Binomial(n, p)); a perfectly split species gets floor(p n) plus one with probability p when p n is not integral" % tag
    if not ok_draws or used != len(draws):
        _rep(c, False, law + " [uniforms consumed: %d, accounted for: %d]" % (len(draws), used), "binomial partition law", rp, syms)
    else:
        _rep(c, s_and(*bconds) if bconds else True, law, "binomial partition law", rp, syms)


# ------------------------------------------------------------------------------------------- single-cell loop
class AbsLineageInterface:
    """arbitrary lineage interface: propensities (reactions ++ volume events ++ division events ++ death events) are fresh
    non-negative reals; rules / events return arbitrary values (volumes may be any real; rule outcomes any admissible index)"""
    _pyxsym_duck = True

    def __init__(self, c, S, R, nVE, nDE, nXE, U, D, x0):
        self.c, self.S, self.R = c, S, R
        self.counts = (nVE, nDE, nXE)
        self.U, self.D, self.x0 = U, D, x0
        self.log = []
        self.rules_havoc = True

    def get_update_array(self):
        return self.U

    def get_delay_update_array(self):
        return self.D

    dt = None

    def set_dt(self, dt):
        self.dt = dt

    py_set_dt = set_dt

    def get_dt(self):
        return self.dt

    def py_get_delay_update_array(self):
        return np.zeros((self.S, self.R))

    def get_initial_state(self):
        return self.x0

    def _snap(self, p):
        return [p[i] for i in range(self.S)]

    def apply_repeated_volume_rules(self, state, V, t, rs):
        pre = self._snap(state)
        if self.rules_havoc:
            for i in range(self.S):
                state[i] = self.c.fresh_real("ruled")
        self.log.append(("rules", pre, V, t, rs, self._snap(state)))

    def apply_death_rules(self, state, V, t, V0, t0, rs):
        r = self.c.fresh_int("deadrule", lo=-1, hi=0)
        self.log.append(("death_rules", self._snap(state), V, t, V0, t0, rs, r))
        return r

    def apply_division_rules(self, state, V, t, V0, t0, rs):
        r = self.c.fresh_int("divrule", lo=-1, hi=0)
        self.log.append(("division_rules", self._snap(state), V, t, V0, t0, rs, r))
        return r

    def compute_lineage_propensities(self, state, dest, V, t):
        n = self.R + sum(self.counts)
        a = [self.c.fresh_real("a", lo=0) for _ in range(n)]
        for j in range(n):
            dest[j] = a[j]
        self.log.append(("props", self._snap(state), V, t, a))

    def apply_volume_rules(self, state, V, t, dt, rs):
        v = self.c.fresh_real("Vrule")
        self.log.append(("volume_rules", self._snap(state), V, t, dt, rs, v))
        return v

    def apply_volume_event(self, k, state, t, V):
        v = self.c.fresh_real("Vevent")
        self.log.append(("volume_event", k, self._snap(state), t, V, v))
        return v


def single_cell_step(interp, c, case, aligned=False):
    S, R, nVE, nDE, nXE, T, ci = case
    install_uniform(interp)
    L = interp.load("bioscrape.lineage")
    fi = interp.find_function("bioscrape.lineage", "LineageSSASimulator.SimulateSingleCell")
    grid = make_grid(c, T)
    U = make_stoich(c, S, R, "U")
    D = np.zeros((S, R), dtype=object)
    x0 = sym_array(c, "x0", S, "int", lo=0)
    V0 = c.real("V0", lo=0, lo_strict=True)
    itf = AbsLineageInterface(c, S, R, nVE, nDE, nXE, U, D, x0)
    sim = L.ns["LineageSSASimulator"]()
    f = sim.__dict__["_f"]
    f["interface"] = itf
    f["num_species"], f["num_reactions"] = S, R
    f["num_volume_events"], f["num_division_events"], f["num_death_events"] = nVE, nDE, nXE
    f["num_volume_rules"] = f["num_death_rules"] = f["num_division_rules"] = 1
    NP = R + nVE + nDE + nXE
    f["num_propensities"] = NP
    f["c_stoich"] = U.copy()
    f["c_propensity"] = np.zeros(NP, dtype=object)
    f["c_current_state"] = np.zeros(S, dtype=object)
    t_birth = c.real("t_birth")
    cell = L.ns["LineageVolumeCellState"](v0=V0, t0=t_birth, state=x0.copy())
    c.assume(t_birth <= grid[0])
    fr, w, post = run_prologue(interp, fi, sim, [cell, grid, 1])
    Lc = fr.locals
    K = {"kind": "single_cell"}
    if ci == 0:
        _rep(c, s_and(Lc["current_index"] == 0, Lc["current_time"] == t_birth, Lc["current_volume"] == V0, Lc["rule_step"] == 1,
                      Lc["delta_t"] == grid[1] - grid[0], Lc["next_queue_time"] == grid[1], Lc["final_time"] == grid[T - 1],
                      itf.dt is not None and itf.dt == grid[1] - grid[0],
                      *[f["c_current_state"][i] == x0[i] for i in range(S)]),
             "[init] the interface's dt is the grid step; single cell starts at the cell's own time, volume and state; first queue time one grid step ahead", "single-cell init", K)
    x = havoc_array(c, f["c_current_state"], "x", "int")
    res = havoc_array(c, f["c_results"], "res")
    vt = havoc_array(c, f["c_volume_trace"], "vt")
    res0, vt0 = res.copy(), vt.copy()
    havoc_array(c, f["c_propensity"], "prop0")
    t = c.real("t")
    V = c.real("V", lo=0, lo_strict=True)
    rs = c.int("rs", lo=0, hi=1)
    nqt = c.real("nqt")
    dt = Lc["delta_t"]
    final = grid[T - 1]
    Lc["current_time"], Lc["current_index"], Lc["current_volume"], Lc["rule_step"], Lc["next_queue_time"] = t, ci, V, rs, nqt
    Lc["proposed_time"] = c.real("prop_t")
    Lc["Lambda"] = c.real("Lam0")
    Lc["move_to_queued_time"] = c.int("mv0", lo=0, hi=1)
    Lc["cell_divided"], Lc["cell_dead"] = -1, -1
    c.assume(t <= grid[ci])
    c.assume(t <= final)
    c.assume(t <= nqt)
    c.assume(nqt - dt <= t)          # the next queue time is the next grid time after the clock
    c.assume(dt > 0)
    if ci > 0:
        c.assume(grid[ci - 1] <= t)
    if aligned:
        c.assume(nqt == grid[ci])
        c.assume(t < grid[ci])
    x_pre = [x[i] for i in range(S)]
    itf.log.clear()
    c.draws.clear()
    try:
        out = interp.exec_loop_once(w, fr)
    except CFault as e:
        _rep(c, False, "[single-cell] memory-unsafe access: %s" % e, "single-cell unsafe access", K)
        return
    except ValueError as e:
        # documented rejection of a non-positive volume produced by a volume rule / event
        vols = [ev for ev in itf.log if ev[0] in ("volume_rules", "volume_event")]
        _rep(c, bool(vols) and vols[-1][-1] <= 0, "[volume] the only error raised from the loop is the non-positive-volume check (%s)" % str(e)[:60],
             "single-cell unexpected ValueError", K)
        return
    log = itf.log
    names = [e[0] for e in log]
    _rep(c, names[:3] == ["rules", "death_rules", "division_rules"], "[rules] volume rules, then death rules, then division rules", "lineage rule order", K)
    if names[:3] != ["rules", "death_rules", "division_rules"]:
        return
    x_eff = log[0][5]
    _rep(c, s_and(log[0][2] == V, log[0][3] == t, log[0][4] == rs, *[log[0][1][i] == x_pre[i] for i in range(S)]),
         "[rules] repeated rules see the current state, volume, time and step flag", "lineage rules inputs", K)
    dead, divd = log[1][-1], log[2][-1]
    if dead >= 0 or divd >= 0:
        exp_div = -1 if dead >= 0 else divd
        _rep(c, s_and(out == "break", Lc["cell_dead"] == dead, Lc["cell_divided"] == exp_div, len(log) == 3),
             "[rules] a death or division rule ends the loop before any reaction; death takes precedence", "lineage rule break", K)
        return _exit(interp, c, fr, post, f, Lc, grid, T, ci, res0, vt0, x_eff, V, K, broke=True)
    if len(log) < 4 or log[3][0] != "props":
        _rep(c, False, "[rules] propensities are computed after the rules", "lineage propensities missing", K)
        return
    _, px, pV, pt, a = log[3]
    _rep(c, s_and(pV == V, pt == t, *[px[i] == x_eff[i] for i in range(S)]), "[rules] propensities see the rule-updated state and the current volume",
         "lineage propensity inputs", K)
    Lam = 0
    for v in a:
        Lam = Lam + v
    draws = list(c.draws)
    if Lam == 0:
        prop, rs_new = None, 1
    else:
        prop = t + (-s_log(draws[0]) / Lam)
        rs_new = 0
        c.assume(s_not(prop == nqt))
        c.assume(s_not(prop == final - __import__("fractions").Fraction(1, 10 ** 7)))
    if nqt < final and (prop is None or nqt < prop):
        kind, t_new, nqt_new, rs_new = "queue", nqt, nqt + dt, 1
    elif prop is None or prop > final - __import__("fractions").Fraction(1, 10 ** 7):
        kind, t_new, nqt_new, rs_new = "final", final, nqt, 1
    else:
        kind, t_new, nqt_new = "reaction", prop, nqt
    k = ci
    while k < T and grid[k] <= t_new:
        k += 1
    ci_new = k
    post_ok = [Lc["current_time"] == t_new, Lc["current_index"] == ci_new, Lc["next_queue_time"] == nqt_new]
    for r in range(T):
        hit = ci <= r < ci_new
        post_ok.append(f["c_volume_trace"][r] == (V if hit else vt0[r]))
        for i in range(S):
            post_ok.append(f["c_results"][r, i] == (x_eff[i] if hit else res0[r, i]))
    rest = log[4:]
    if Lam == 0:
        _rep(c, len(draws) == 0 and Lc["cell_dead"] == -1 and Lc["cell_divided"] == -1 and out == "next" and
             not [e for e in rest if e[0] == "volume_event"],
             "[absorbing] with total propensity zero no reaction or event is sampled: the cell neither dies nor divides nor "
             "changes state, it just moves to the next step", "phantom event at zero total propensity", K)
    if kind in ("queue", "final"):
        vr = [e for e in rest if e[0] == "volume_rules"]
        ok = len(vr) == 1 and len(rest) == 1
        if ok:
            _, vx, vV, vt_, vdt, vrs, newV = vr[0]
            post_ok += [vV == V, vt_ == t_new, vdt == dt, vrs == rs_new, Lc["current_volume"] == newV, newV > 0]
            post_ok += [vx[i] == x_eff[i] for i in range(S)] + [f["c_current_state"][i] == x_eff[i] for i in range(S)]
        post_ok += [ok, out == "next", Lc["rule_step"] == rs_new]
    else:
        q = draws[1] * Lam if len(draws) > 1 else None
        if q is None:
            _rep(c, False, "[step] a reaction step must draw the reaction", "lineage reaction draw", K)
            return
        cum = 0
        for j in range(NP):
            cum = cum + a[j]
            c.assume(s_not(q == cum))
        j = choice_oracle(a, q)
        if j is None:
            _rep(c, False, "[step] no propensity brackets u*Lambda", "lineage bracket", K)
            return
        post_ok += [a[j] > 0, Lc["rule_step"] == 0]
        if j < R:
            post_ok += [f["c_current_state"][i] == x_eff[i] + U[i, j] for i in range(S)]
            post_ok += [Lc["current_volume"] == V, out == "next", len(rest) == 0]
        elif j < R + nVE:
            ve = [e for e in rest if e[0] == "volume_event"]
            ok = len(ve) == 1 and len(rest) == 1
            if ok:
                _, vk, vx, vt_, vV, newV = ve[0]
                post_ok += [vk == j - R, vt_ == t_new, vV == V, Lc["current_volume"] == newV, newV > 0]
            post_ok += [ok, out == "next"] + [f["c_current_state"][i] == x_eff[i] for i in range(S)]
        elif j < R + nVE + nDE:
            post_ok += [out == "break", Lc["cell_divided"] == j - R - nVE + 1, Lc["cell_dead"] == -1]
        else:
            post_ok += [out == "break", Lc["cell_dead"] == j - R - nVE - nDE + 1, Lc["cell_divided"] == -1]
    _rep(c, s_and(*post_ok), "[step] single-cell loop: race between next reaction/event, next volume-rule time and the final time; every "
                             "row written carries the rule-updated state and the current (positive) volume; events dispatched by "
                             "propensity index", "single-cell step relation", K)
    if aligned and out == "next":
        conds = [(Lc["rule_step"] == 1) == (ci_new > ci)]
        _rep(c, s_and(*conds), "[dt-rule] single-cell loop: the step flag is raised exactly by an iteration that reports a row",
             "lineage dt-rule schedule", {"kind": "scenario", "modes": ["lineage"]})
    inv = [Lc["current_time"] >= t, Lc["current_time"] <= final, Lc["current_volume"] > 0]
    if ci_new < T:
        inv.append(Lc["current_time"] <= grid[ci_new])
    _rep(c, s_and(*inv), "[invariant] single-cell loop: clock monotone and within the grid; volume positive", "single-cell invariant", K)
    if out == "break" or ci_new == T:
        _exit(interp, c, fr, post, f, Lc, grid, T, ci_new, None, None, None, None, K, broke=(out == "break"))


def _exit(interp, c, fr, post, f, Lc, grid, T, ci_now, res0, vt0, x_eff, V, K, broke):
    cur_t, cur_V = Lc["current_time"], Lc["current_volume"]
    cur_x = [f["c_current_state"][i] for i in range(len(f["c_current_state"]))]
    dead, divd = Lc["cell_dead"], Lc["cell_divided"]
    ended = bool(dead >= 0) or bool(divd >= 0)
    if ended and ci_now < T:
        c.assume(s_not(cur_t == grid[ci_now]))
    st = interp.exec_stats(post, fr)
    ok = st[0] == "return" and st[1].__dict__["_cls"].name == "SingleCellSSAResult"
    if not ok:
        _rep(c, False, "[exit] SimulateSingleCell does not return a SingleCellSSAResult", "single-cell exit", K)
        return
    r = st[1]
    n = len(r.timepoints)
    conds = [len(r.volume) == n, r.simulation_result.shape[0] == n, n >= 1, r.get_dead() == dead, r.get_divided() == divd]
    conds += [r.timepoints[i] == grid[i] for i in range(min(n, T))]
    conds.append(r.get_volume_object().get_volume() == cur_V)
    if ended:
        conds.append(r.cell_divided_flag == (1 if bool(divd >= 0) else 0))
        # the state at the moment of division/death is pushed to the next row unless the clock sits on a grid time
        if ci_now < T and bool(cur_t < grid[ci_now]):
            conds += [n == ci_now + 1, r.volume[ci_now] == cur_V]
            conds += [r.simulation_result[ci_now, i] == cur_x[i] for i in range(len(cur_x))]
        conds += [r.volume[i] > 0 for i in range(n)] if False else []
    else:
        conds += [n == T]
    _rep(c, s_and(*conds), "[exit] the result's time, state and volume traces have the same (non-zero) length, the rows before "
                           "division/death plus the final state; codes and final volume are carried over", "single-cell exit", K)


def entry_job(interp, c, case):
    """End to end through the real lineage entry point, interface and loop on a symbolic grid: a model with one ode rule and
    no reactions (total propensity zero throughout) must report every row, with the rule advancing by rate * grid step."""
    npts, = case
    L = interp.load("bioscrape.lineage")
    install_uniform(interp)
    h = c.real("h", lo=0, lo_strict=True)
    tp = np.array([i * h for i in range(npts)], dtype=object)
    LM = L.ns["LineageModel"](species=["X"], rules=[("ode", {"equation": "1", "target": "X"})], initial_condition_dict={"X": 0})
    sim = L.ns["LineageSSASimulator"]()
    res = sim.py_SimulateSingleCell(tp, Model=LM)
    rp = {"kind": "lineage_dt"}
    n = len(res.timepoints)
    _rep(c, n == npts and len(res.volume) == npts and res.simulation_result.shape[0] == npts and res.get_dead() == -1 and res.get_divided() == -1,
         "a lineage cell whose total propensity is zero is simulated to the end: one row per time point, neither dead nor divided "
         "(rows: %d of %d, dead=%s)" % (n, npts, res.get_dead()), "lineage cell with zero propensity not simulated to the end", {"kind": "single_cell"})
    if n == npts:
        X = [res.simulation_result[i, 0] for i in range(npts)]
        _rep(c, s_and(*[X[i] - X[i - 1] == h for i in range(2, npts)]),
             "lineage single cell: an ode rule dX/dt = 1 advances X by exactly one grid step per reported row (from the second row on)",
             "lineage ode rule does not advance by rate x grid step", rp)
        _rep(c, s_and(*[res.volume[i] > 0 for i in range(npts)], *[res.timepoints[i] == tp[i] for i in range(npts)]),
             "every reported row has positive volume and the requested time", "lineage rows", {"kind": "single_cell"})


# ---------------------------------------------------------------------------------------------------------------------
# lineage bookkeeping: one iteration of SimulateCellLineage's queue loop from an arbitrary aligned queue
class _AbsResult:
    def __init__(self, fin, sch):
        self.fin, self.sch = fin, sch

    def get_final_cell_state(self):
        return self.fin

    def get_schnitz(self):
        return self.sch


class _AbsPartitionInterface:
    def __init__(self, L, c):
        self.L, self.c, self.calls = L, c, []

    def partition(self, rule, cs):
        k = len(self.calls)
        d = [self.L.ns["LineageVolumeCellState"](v0=self.c.real("dv_%d_%d" % (k, j), lo=0, lo_strict=True), t0=cs.get_time(),
                                                 state=np.array([self.c.int("dx_%d_%d" % (k, j), lo=0)], dtype=object)) for j in (0, 1)]
        self.calls.append((rule, cs, d))
        return np.array(d, dtype=object)


def lineage_queue_step(interp, c, case):
    """one iteration of the real `while list_index < len(self.old_cell_states)` loop of SimulateCellLineage (with the real
    simulate_cell_list / simulate_daughter_cells / truncate_timepoints_less_than), single-cell simulation and partition
    abstract: arbitrary end times, fates and records"""
    n, pos, T, n_init = case
    L = interp.load("bioscrape.lineage")
    Ty = interp.load("bioscrape.types")
    fi = interp.find_function("bioscrape.lineage", "LineageSSASimulator.SimulateCellLineage")
    grid = make_grid(c, T)
    final = grid[T - 1]
    sim = L.ns["LineageSSASimulator"]()
    f = sim.__dict__["_f"]
    itf = _AbsPartitionInterface(L, c)
    f["interface"] = itf
    record = {}          # id(schnitz) -> the cell state it is the record of
    sims = []

    def fresh_cell(tag, t_lo=None):
        t = c.real("t_" + tag)
        t0 = c.real("t0_" + tag)
        c.assume(t0 <= t)
        if t_lo is not None:
            c.assume(t_lo <= t)
        cs = L.ns["LineageVolumeCellState"](v0=c.real("v0_" + tag, lo=0, lo_strict=True), t0=t0,
                                            state=np.array([c.int("x_" + tag, lo=0)], dtype=object),
                                            volume=c.real("v_" + tag, lo=0, lo_strict=True), time=t,
                                            divided=c.int("div_" + tag, lo=-1, hi=1), dead=c.int("dead_" + tag, lo=-1, hi=1))
        sch = Ty.ns["Schnitz"](np.array([t0, t], dtype=object), np.zeros((2, 1), dtype=object), np.zeros(2, dtype=object))
        record[id(sch)] = cs
        return cs, sch

    def stub_single(cell, tp, mode):
        k = len(sims)
        cs, sch = fresh_cell("sim%d" % k, t_lo=cell.get_time())
        sims.append((cell, tp, mode, cs, sch))
        return _AbsResult(cs, sch)

    f["SimulateSingleCell"] = stub_single
    f["lineage"] = Ty.ns["Lineage"]()
    f["old_cell_states"], f["old_schnitzes"] = [], []
    K = {"kind": "lineage", "death": True}

    def aligned():
        a, b = f["old_cell_states"], f["old_schnitzes"]
        return len(a) == len(b) and all(record.get(id(y)) is x for x, y in zip(a, b))

    init = [L.ns["LineageVolumeCellState"](v0=1, t0=grid[0], state=np.array([c.int("xi_%d" % i, lo=0)], dtype=object)) for i in range(n_init)]
    fr, w, post = run_prologue(interp, fi, sim, [init, grid])
    Lc = fr.locals
    if pos == 0 and n == n_init:
        # [init] the prologue itself: every initial cell simulated once on the whole grid, queued with its own record
        ok = len(sims) == n_init and all(sims[i][0] is init[i] and sims[i][1] is grid and sims[i][2] == 1 for i in range(n_init))
        _rep(c, ok and aligned() and len(f["old_cell_states"]) == n_init and Lc["list_index"] == 0
             and list(f["lineage"].schnitzes) == [s_[4] for s_ in sims]
             and all(s_[4].get_parent() is None for s_ in sims),
             "[queue-init] every initial cell is simulated once on the whole grid and queued together with its own record, which is in the lineage without a parent",
             "lineage queue init", K)
    # arbitrary aligned queue
    cells, schs = [], []
    for i in range(n):
        cs, sch = fresh_cell("q%d" % i)
        cells.append(cs)
        schs.append(sch)
    f["old_cell_states"], f["old_schnitzes"] = list(cells), list(schs)
    lin = Ty.ns["Lineage"]()
    for s_ in schs:
        lin.add_schnitz(s_)
    f["lineage"] = lin
    Lc["list_index"] = pos
    del sims[:]
    del itf.calls[:]
    cs, sch = cells[pos], schs[pos]
    try:
        out = interp.exec_loop_once(w, fr)
    except ValueError as e:
        _rep(c, s_and(cs.get_time() < final, cs.get_dead() < 0, cs.get_divided() >= 0, cs.get_initial_time() == cs.get_time()),
             "[queue] the only error raised is the documented zero-lifetime division (%s)" % str(e)[:40], "lineage queue unexpected error", K)
        return
    except CFault as e:
        _rep(c, False, "[queue] memory-unsafe access: %s" % e, "lineage queue unsafe access", K)
        return
    _rep(c, Lc["list_index"] == pos + 1 and f["old_cell_states"][:n] == cells and f["old_schnitzes"][:n] == schs,
         "[queue] the loop visits the next queued cell and never reorders or drops queued entries", "lineage queue order", K)
    _rep(c, aligned(), "[queue] cell states and their records stay paired index by index (lengths %d / %d)"
         % (len(f["old_cell_states"]), len(f["old_schnitzes"])), "lineage queue misaligned", K)
    t = cs.get_time()
    from fractions import Fraction as Fr
    divides = s_and(s_not(t >= final - Fr(1, 10 ** 9)), cs.get_dead() < 0, cs.get_divided() >= 0)
    if not divides:
        _rep(c, not sims and not itf.calls and len(f["old_cell_states"]) == n and len(lin.schnitzes) == n
             and sch.get_daughter_1() is None and sch.get_daughter_2() is None,
             "[queue] a finished, dead or undivided cell is left alone: nothing simulated, queued or linked", "lineage queue idle cell touched", K)
        return
    ok = len(itf.calls) == 1 and itf.calls[0][1] is cs
    _rep(c, ok and itf.calls[0][0] == cs.get_divided(),
         "[division] the mother is partitioned exactly once, by the rule or event that divided her", "lineage partition call", K)
    if not ok:
        return
    d = itf.calls[0][2]
    ok = len(sims) == 2 and sims[0][0] is d[0] and sims[1][0] is d[1] and sims[0][2] == 1 and sims[1][2] == 1
    _rep(c, ok, "[division] each daughter from the partition is simulated exactly once, with trajectories kept", "lineage daughters simulated", K)
    if not ok:
        return
    # time points handed to the daughters: the grid from the first point >= the mother's division time
    j = 0
    while j < T and not (grid[j] >= t):
        j += 1
    for k in (0, 1):
        tp = sims[k][1]
        _rep(c, len(tp) == T - j and all(tp[i] is grid[j + i] or tp[i] == grid[j + i] for i in range(len(tp))),
             "[division] daughter %d is simulated on the grid from the mother's division time on" % (k + 1), "lineage daughter grid", K)
    s1, s2 = sims[0][4], sims[1][4]
    _rep(c, s1.get_parent() is sch and s2.get_parent() is sch and sch.get_daughter_1() is s1 and sch.get_daughter_2() is s2,
         "[division] mother and daughter records are linked mutually, to the mother that was partitioned", "lineage links", K)
    _rep(c, list(lin.schnitzes) == schs + [s1, s2] and len(lin.c_schnitzes) == n + 2,
         "[division] both daughter records are added to the lineage, once", "lineage records added", K)
    want_c, want_s = list(cells), list(schs)
    for k in (0, 1):
        if sims[k][3].get_time() < final + Fr(1, 10 ** 12):
            want_c.append(sims[k][3])
            want_s.append(sims[k][4])
    _rep(c, f["old_cell_states"] == want_c and f["old_schnitzes"] == want_s,
         "[division] each daughter that ended within the grid is queued, state and record together", "lineage daughters queued", K)


# ---------------------------------------------------------------------------------------------------------------------
# the concrete lineage interface: which object of the model each index addresses
class _LStubModel:
    """a model made of recording stubs, in the shape LineageCSimInterface.__init__ reads"""
    _pyxsym_duck = True
    initialized = True

    def __init__(self, c, S, R, nVR, nDR, nXR, nVE, nDE, nXE):
        from pyxsym.values import CVector, VecPtr
        self.c = c
        self.log = []
        mk = lambda kind, n: [_LStub(self, kind, i) for i in range(n)]
        self.props = mk("prop", R)
        self.vrules, self.drules, self.xrules = mk("volume_rule", nVR), mk("division_rule", nDR), mk("death_rule", nXR)
        self.vevents, self.devents, self.xevents = mk("volume_event", nVE), mk("division_event", nDE), mk("death_event", nXE)
        self.lprops = mk("vprop", nVE) + mk("dprop", nDE) + mk("xprop", nXE)
        self.rule_splitters, self.event_splitters = mk("rule_splitter", nDR), mk("event_splitter", nDE)
        self._vec = {k: CVector(v) for k, v in dict(p=self.props, d=[None] * R, r=[], lp=self.lprops, vr=self.vrules, dr=self.drules, xr=self.xrules,
                                                      ve=self.vevents, de=self.devents, xe=self.xevents).items()}
        self._VecPtr = VecPtr
        self.U = np.zeros((S, R), dtype=object)
        self.D = np.zeros((S, R), dtype=object)
        self.x0 = np.zeros(S, dtype=object)
        self.params = np.array([c.real("par0")], dtype=object)
        self.n = dict(VR=nVR, DR=nDR, XR=nXR, VE=nVE, DE=nDE, XE=nXE)

    def py_initialize(self):
        pass

    def _vp(self, k):
        return self._VecPtr(self._vec[k])
    get_c_propensities = lambda self: self._vp("p")
    get_c_delays = lambda self: self._vp("d")
    get_c_repeat_rules = lambda self: self._vp("r")
    get_c_lineage_propensities = lambda self: self._vp("lp")
    get_c_volume_rules = lambda self: self._vp("vr")
    get_c_division_rules = lambda self: self._vp("dr")
    get_c_death_rules = lambda self: self._vp("xr")
    get_c_volume_events = lambda self: self._vp("ve")
    get_c_division_events = lambda self: self._vp("de")
    get_c_death_events = lambda self: self._vp("xe")
    get_update_array = lambda self: self.U
    get_delay_update_array = lambda self: self.D
    get_species_values = lambda self: self.x0
    get_params_values = lambda self: self.params
    py_get_num_division_rules = lambda self: self.n["DR"]
    py_get_num_volume_rules = lambda self: self.n["VR"]
    py_get_num_death_rules = lambda self: self.n["XR"]
    py_get_num_division_events = lambda self: self.n["DE"]
    py_get_num_volume_events = lambda self: self.n["VE"]
    py_get_num_death_events = lambda self: self.n["XE"]
    py_get_num_lineage_propensities = lambda self: len(self.lprops)
    py_get_volume_splitters = lambda self: (list(self.rule_splitters), list(self.event_splitters))


class _LStub:
    _pyxsym_duck = True

    def __init__(self, model, kind, i):
        self.m, self.kind, self.i = model, kind, i

    def _rec(self, what, *args):
        v = self.m.c.real("%s%d_%s_%d" % (self.kind, self.i, what, len(self.m.log)))
        self.m.log.append((self.kind, self.i, what, args, v))
        return v

    def get_stochastic_volume_propensity(self, state, params, V, t):
        return self._rec("sv", V, t)

    def get_volume(self, state, params, V, t, dt=None):
        return self._rec("vol", V, t, dt)

    def check_dead(self, state, params, t, V, t0, V0):
        v = self.m.c.int("%s%d_fires_%d" % (self.kind, self.i, len(self.m.log)), lo=0, hi=1)
        self.m.log.append((self.kind, self.i, "check", (t, V, t0, V0), v))
        return v
    check_divide = check_dead

    def partition(self, parent):
        self.m.log.append((self.kind, self.i, "partition", (parent,), None))
        return np.array([self, parent], dtype=object)


def wrapper_reuse_job(interp, c, case):
    """LineageSSASimulator.py_SimulateCellLineage called several times on ONE simulator object: every call works on a lineage and on
    queues of its own (a returned lineage holds the cells of its own simulation only, earlier results are not touched)"""
    ncalls, = case
    L = interp.load("bioscrape.lineage")
    sim = L.ns["LineageSSASimulator"]()
    f = sim.__dict__["_f"]
    seen = []

    def stub_lineage(cells, tp):
        # the C-level loop: adds one record per initial cell to whatever lineage / queues it is given
        seen.append((f.get("lineage"), f.get("old_cell_states"), f.get("old_schnitzes"),
                     None if f.get("lineage") is None else len(f["lineage"].schnitzes),
                     None if f.get("old_cell_states") is None else len(f["old_cell_states"]),
                     None if f.get("old_schnitzes") is None else len(f["old_schnitzes"])))
        for x in cells:
            if f.get("old_cell_states") is not None:
                f["old_cell_states"].append(x)
        return f.get("lineage")
    f["SimulateCellLineage"] = stub_lineage
    f["set_c_timepoints"] = lambda tp: None
    f["intialize_single_cell_interface"] = lambda itf: None
    outs = []
    for k in range(ncalls):
        outs.append(sim.py_SimulateCellLineage(np.array([0, 1, 2], dtype=object), [object()], None))
    ok = len(seen) == ncalls and all(s_[0] is not None and s_[3] == 0 and s_[4] == 0 and s_[5] == 0 for s_ in seen) \
        and len({id(s_[0]) for s_ in seen}) == ncalls and len({id(s_[1]) for s_ in seen}) == ncalls and len({id(s_[2]) for s_ in seen}) == ncalls \
        and all(o is s_[0] for o, s_ in zip(outs, seen))
    ok = c.prove(ok, "[wrapper] each of %d calls on one simulator object starts from an empty lineage and empty queues of its own and returns that lineage" % ncalls,
                 info={"sig": "lineage wrapper keeps state between calls", "what": "py_SimulateCellLineage called %d times on one simulator" % ncalls})
    if ok is False:
        c.failures[-1]["replay"] = {"kind": "lineage_reuse"}


def lineage_interface_job(interp, c, case):
    """LineageCSimInterface on a model of recording stubs: every index (propensity slot, rule, event, division code) addresses
    the object the model's definition order assigns to it"""
    S, R, nVR, nDR, nXR, nVE, nDE, nXE = case
    L = interp.load("bioscrape.lineage")
    M = _LStubModel(c, S, R, nVR, nDR, nXR, nVE, nDE, nXE)
    itf = L.ns["LineageCSimInterface"](M)
    x = sym_array(c, "x", S, "int", lo=0)
    V, t, dt = c.real("V", lo=0, lo_strict=True), c.real("t"), c.real("dt", lo=0, lo_strict=True)
    K = {"kind": "lineage", "death": True}
    NP = R + nVE + nDE + nXE
    dest = np.zeros(NP, dtype=object)
    del M.log[:]
    itf.compute_lineage_propensities(ptr(interp, x.copy()), ptr(interp, dest), V, t)
    order = [("prop", i) for i in range(R)] + [("vprop", i) for i in range(nVE)] + [("dprop", i) for i in range(nDE)] + [("xprop", i) for i in range(nXE)]
    ok = [(e[0], e[1]) for e in M.log] == order and all(dest[k] is M.log[k][4] for k in range(NP)) and all(e[3] == (V, t) or (e[3][0] is V and e[3][1] is t) for e in M.log)
    _rep(c, ok, "lineage interface: propensity slots are the reactions, then the volume, division and death events, each evaluated once at the "
                "current volume and time", "lineage propensity slots", K)
    # volume rules thread the volume through in order
    del M.log[:]
    out = itf.apply_volume_rules(ptr(interp, x.copy()), V, t, dt, 1)
    ok = [(e[0], e[1]) for e in M.log] == [("volume_rule", i) for i in range(nVR)]
    cur = V
    for e in M.log:
        ok = ok and (e[3][0] is cur) and (e[3][1] is t) and (e[3][2] is dt)
        cur = e[4]
    _rep(c, ok and out is cur, "lineage interface: the volume rules are applied in order, each to the volume the previous one returned", "lineage volume rules", K)
    for what, kindname, n_ in (("apply_death_rules", "death_rule", nXR), ("apply_division_rules", "division_rule", nDR)):
        del M.log[:]
        V0, t0 = c.real("V0"), c.real("t0")
        r = getattr(itf, what)(ptr(interp, x.copy()), V, t, V0, t0, 1)
        fired = [e[1] for e in M.log if e[4] == 1]
        asked = [(e[0], e[1]) for e in M.log]
        want = fired[0] if fired else -1
        _rep(c, r == want and asked == [(kindname, i) for i in range(len(asked))] and len(asked) == (want + 1 if fired else n_)
             and all(e[3][0] is t and e[3][1] is V and e[3][2] is t0 and e[3][3] is V0 for e in M.log),
             "lineage interface: %s returns the index of the first rule that fires (-1 if none), asking the rules in order with the current "
             "and the birth time / volume" % what, "lineage %s" % what, K)
    for k in range(nVE):
        del M.log[:]
        out = itf.apply_volume_event(k, ptr(interp, x.copy()), t, V)
        _rep(c, [(e[0], e[1]) for e in M.log] == [("volume_event", k)] and out is M.log[0][4] and M.log[0][3][0] is V and M.log[0][3][1] is t,
             "lineage interface: volume event %d is applied by event object %d at the current volume and time" % (k, k), "lineage volume event index", K)
    cs = L.ns["LineageVolumeCellState"](v0=1, t0=0, state=np.zeros(S, dtype=object))
    for code in range(-1, nDR + nDE + 1):
        del M.log[:]
        try:
            res = itf.partition(code, cs)
            got = (M.log[0][0], M.log[0][1]) if len(M.log) == 1 else None
        except ValueError:
            got = "rejected"
        except IndexError:
            got = "an index outside the splitter lists"
        want = ("rule_splitter", code) if 0 <= code < nDR else ("event_splitter", code - nDR) if nDR <= code < nDR + nDE else "rejected"
        _rep(c, got == want, "lineage interface: division code %d (%d rules, %d events) is partitioned by %s" % (code, nDR, nDE, want),
             "lineage division code decoding", K)


def check(tier):
    ck = Check("C19", "model_checking", tier)
    mx = 2 if tier == "quick" else 3
    sp = [("perfect_binomial", ("binomial",), mx, None), ("perfect_binomial", ("binomial", "binomial"), mx, None),
          ("general", ("binomial", "perfect"), mx, None), ("general", ("duplicate", "binomial"), mx, None),
          ("general", ("perfect", "duplicate"), mx, None), ("general", ("binomial", "perfect"), mx, "explicit"), ("general", ("binomial", "binomial"), mx, "explicit"),
          ("lineage", ("binomial", "perfect"), mx, "binomial"), ("lineage", ("duplicate", "binomial"), mx, "perfect"),
          ("lineage", ("perfect", "binomial"), mx, "duplicate"), ("lineage", ("binomial",), mx, "binomial")]
    if tier == "thorough":
        sp += [("general", ("binomial", "perfect", "duplicate"), 2, None), ("lineage", ("binomial", "perfect", "duplicate"), 2, "binomial")]
    for cse in sp:
        ck.add("splitter/%s/%s/%s" % (cse[0], "+".join(cse[1]), cse[3]), "harness.C19", "splitter_job", dict(cases=[cse]), unwind=mx + 3,
               max_paths=200000)
    sizes = [(2, 1, 1, 1, 1, 2), (2, 2, 0, 1, 0, 3)] if tier == "quick" else [(2, 1, 1, 1, 1, 2), (2, 2, 0, 1, 0, 3), (2, 2, 1, 1, 1, 3), (3, 2, 1, 0, 1, 4)]
    for (S, R, a, b, d, T) in sizes:
        for ci in range(T):
            ck.add("single-cell/S%dR%dE%d%d%dT%d/ci%d" % (S, R, a, b, d, T, ci), "harness.C19", "single_cell_step",
                   dict(cases=[(S, R, a, b, d, T, ci)]))
            if ci >= 1:
                ck.add("single-cell-aligned/S%dR%dT%d/ci%d" % (S, R, T, ci), "harness.C19", "single_cell_step",
                       dict(cases=[(S, R, a, b, d, T, ci)], aligned=True))
    ck.add("entry-end-to-end", "harness.C19", "entry_job", dict(cases=[(3,), (4,)]), fresh=True)
    for cse in [(2, 2, 2, 2, 2, 2, 2, 1), (1, 1, 1, 1, 0, 0, 1, 2)] + ([(2, 1, 0, 3, 1, 1, 0, 1), (2, 2, 3, 0, 2, 2, 3, 0)] if tier == "thorough" else []):
        ck.add("lineage-interface/%s" % "-".join(map(str, cse)), "harness.C19", "lineage_interface_job", dict(cases=[cse]))
    ck.add("lineage-wrapper-reuse", "harness.C19", "wrapper_reuse_job", dict(cases=[(1,), (2,), (3,)]))
    qs = [(1, 0, 2, 1), (2, 0, 3, 2), (2, 1, 3, 1), (3, 1, 3, 1)] + ([(3, 2, 4, 2), (4, 0, 4, 3), (4, 3, 4, 1)] if tier == "thorough" else [])
    for q in qs:
        ck.add("lineage-queue/n%d/pos%d/T%d" % q[:3], "harness.C19", "lineage_queue_step", dict(cases=[q]))
    ck.bounds = dict(mother_counts="0..%d per species" % mx, species="1..3 with every mix of partition modes", volumes="> 0",
                     partition_noise="[0, 0.49] general / [0,1] lineage", single_cell="S,R <= 3, 0..1 events of each kind, T <= 4, one "
                     "iteration from an arbitrary pre-state")
    ck.assumptions = [
        "uniform_rv() arbitrary in (0,1); a binomial count is characterised as the number of the molecule's own draws below "
        "p = V_d/V, which is Binomial(n,p) for i.i.d. uniforms (trusted)",
        "abstract lineage interface: arbitrary non-negative propensities (reactions, volume/division/death events), arbitrary rule "
        "outcomes, arbitrary volumes returned by volume rules/events (non-positive ones must be rejected by the loop)",
        "the concrete LineageCSimInterface is executed on a model of recording stubs (rules, events, splitters, propensities return "
        "fresh values): slot / index / division-code addressing is checked, the rule and event classes' own formulas are not",
        "lineage bookkeeping across cells: one iteration of SimulateCellLineage's queue loop (real simulate_cell_list, "
        "simulate_daughter_cells, truncate_timepoints_less_than, Schnitz, Lineage) from an arbitrary queue whose states and "
        "records are paired, with the single-cell simulation and the partition abstract (arbitrary end time >= start, fate, "
        "record); interacting lineages, turbidostat, propagation without records, custom splitters are outside the claim",
    ]
    mut = [
        ("binomial-share-not-subtracted", dict(module="bioscrape.lineage", old="\t\t\tamount = cyrandom.binom_rnd_f(dstate[species_index],p)\n\t\t\tdstate[species_index] = <double> amount\n\t\t\testate[species_index] -= dstate[species_index]",
                                              new="\t\t\tamount = cyrandom.binom_rnd_f(dstate[species_index],p)\n\t\t\tdstate[species_index] = <double> amount"), "split_l"),
        ("volume-fraction-swapped", dict(module="bioscrape.simulator", old="        d.set_volume(parent.get_volume() * p )\n        e.set_volume(parent.get_volume() * q)",
                                         new="        d.set_volume(parent.get_volume() * q )\n        e.set_volume(parent.get_volume() * p)"), "split_g"),
        ("row-volume-after-rule", dict(module="bioscrape.lineage", old="\t\t\t\tself.c_volume_trace[current_index] = current_volume\n\t\t\t\tcurrent_index += 1\n\t\t\t# print(\"C\")",
                                       new="\t\t\t\tself.c_volume_trace[current_index] = initial_volume\n\t\t\t\tcurrent_index += 1\n\t\t\t# print(\"C\")"), "cell"),
        ("division-code-offset", dict(module="bioscrape.lineage", old="cell_divided = reaction_choice - self.num_reactions - self.num_volume_events + self.num_division_rules",
                                      new="cell_divided = reaction_choice - self.num_reactions + self.num_division_rules"), "cell"),
    ]
    mut += [("daughter-linked-to-sister", dict(module="bioscrape.lineage", old="\t\t\tself.daughter_schnitz2.set_parent(self.s)",
                                               new="\t\t\tself.daughter_schnitz2.set_parent(self.daughter_schnitz1)"), "queue"),
            ("queue-skips-record", dict(module="bioscrape.lineage", old="\t\t\tif create_schnitzes:\n\t\t\t\tself.old_schnitzes.append(self.daughter_schnitz1)",
                                        new="\t\t\tif create_schnitzes and self.d1final.get_dead() < 0:\n\t\t\t\tself.old_schnitzes.append(self.daughter_schnitz1)"), "queue")]
    mut += [("division-event-splitter-not-offset", dict(module="bioscrape.lineage", old="\t\t\tvsplit_ind = vsplit_ind - self.num_division_rules\n", new="\t\t\tvsplit_ind = vsplit_ind\n"), "litf"),
            ("death-rule-returns-flag", dict(module="bioscrape.lineage", old="\t\t\tisdead = (<DeathRule>self.c_death_rules[0][ind]).check_dead(state, self.c_param_values, time, volume, start_time, start_volume)\n\t\t\tif isdead > 0:\n\t\t\t\treturn ind",
                                             new="\t\t\tisdead = (<DeathRule>self.c_death_rules[0][ind]).check_dead(state, self.c_param_values, time, volume, start_time, start_volume)\n\t\t\tif isdead > 0:\n\t\t\t\treturn isdead"), "litf")]
    for name, m, w in mut:
        if w == "litf":
            ck.add_mutant(name, m, w, "harness.C19", "lineage_interface_job", dict(cases=[(2, 2, 2, 2, 2, 2, 2, 1)]))
        elif w == "queue":
            ck.add_mutant(name, m, w, "harness.C19", "lineage_queue_step", dict(cases=[(2, 1, 3, 1)]))
        elif w == "split_l":
            ck.add_mutant(name, m, w, "harness.C19", "splitter_job", dict(cases=[("lineage", ("binomial", "perfect"), 2, "binomial")]), unwind=5)
        elif w == "split_g":
            ck.add_mutant(name, m, w, "harness.C19", "splitter_job", dict(cases=[("general", ("binomial", "perfect"), 2, None)]), unwind=5)
        else:
            ck.add_mutant(name, m, w, "harness.C19", "single_cell_step", dict(cases=[(2, 1, 1, 1, 1, 2, 0), (2, 1, 1, 1, 1, 2, 1)]))
    ck.validate = ['lineage_cell', 'splitters']
    ck.run()
    return ck.finish(replay=REPLAY)
